package types

import clienttypes "github.com/teleport-network/teleport/x/xibc/core/client/types"

func c08Client(head clienttypes.Height, contract []byte) ClientState {
	// 1..2 validators: the confirmation depth depends on the size of the set (even and odd sizes)
	var vals [][]byte
	n := rtIntRange("validators", 1, 2)
	for i := 0; i < n; i++ {
		vals = append(vals, rtBytesN("validator", 20))
	}
	return ClientState{Header: Header{Height: head}, ContractAddress: contract, Epoch: rtU64("epoch"), BlockInteval: rtU64("blockInterval"), Validators: vals}
}

// c08RequiredConfirmations: the property's own statement of the confirmation depth of a BSC proof - a strict majority of the
// validator set must have sealed on top of the proof height (floor(N/2) + 1 blocks), written here independently of GetDelayBlock.
func c08RequiredConfirmations(cs ClientState) uint64 { return uint64(len(cs.Validators))/2 + 1 }
