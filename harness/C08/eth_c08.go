package types

import clienttypes "github.com/teleport-network/teleport/x/xibc/core/client/types"

func c08Client(head clienttypes.Height, contract []byte) ClientState {
	return ClientState{Header: Header{Height: head}, ContractAddress: contract, BlockDelay: rtU64("blockDelay")}
}

// c08RequiredConfirmations: for an Ethereum counterparty the confirmation depth is the configured BlockDelay of the client state.
func c08RequiredConfirmations(cs ClientState) uint64 { return cs.BlockDelay }
