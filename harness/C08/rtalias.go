package types

import rt "github.com/teleport-network/teleport/zzverifrt"

func rtU64(tag string) uint64 { return rt.U64(tag) }
