package types

import rt "github.com/teleport-network/teleport/zzverifrt"

func rtU64(tag string) uint64 { return rt.U64(tag) }

func rtIntRange(tag string, lo, hi int) int { return rt.IntRange(tag, lo, hi) }
func rtBytesN(tag string, n int) []byte      { return rt.BytesN(tag, n) }
