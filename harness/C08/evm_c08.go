package types

// Shared by the ETH and the BSC client packages (both are "package types" with the same names).

import (
	"bytes"
	"encoding/json"
	"math/big"

	"github.com/cosmos/cosmos-sdk/store/prefix"
	sdk "github.com/cosmos/cosmos-sdk/types"
	"github.com/ethereum/go-ethereum/common"
	"github.com/ethereum/go-ethereum/crypto"
	"github.com/ethereum/go-ethereum/light"
	"github.com/ethereum/go-ethereum/rlp"
	"github.com/ethereum/go-ethereum/trie"

	clienttypes "github.com/teleport-network/teleport/x/xibc/core/client/types"
	"github.com/teleport-network/teleport/x/xibc/core/host"
	rt "github.com/teleport-network/teleport/zzverifrt"
)

type specAccount struct {
	Nonce    *big.Int
	Balance  *big.Int
	Storage  common.Hash
	Codehash common.Hash
}

// specPadded: the 32-byte left-padded form of a decoded storage value.
func specPadded(dec []byte) ([]byte, bool) {
	if len(dec) > 32 {
		return nil, false
	}
	return append(make([]byte, 32-len(dec)), dec...), true
}

// specAccept is the property's own statement of when a storage proof is accepted, written from the property text:
// account proof under the root stored for the proof height, for the configured contract; exactly one storage proof,
// for the slot keccak(path || uint256(208)), under that account's storage root, holding exactly the 32-byte value.
func specAccept(root []byte, contract []byte, p Proof, pathKey []byte, value []byte) bool {
	addr := common.FromHex(p.Address)
	if !bytes.Equal(addr, contract) {
		return false
	}
	nl := new(light.NodeList)
	for _, n := range p.AccountProof {
		_ = nl.Put(nil, common.FromHex(n))
	}
	acctVal, err := trie.VerifyProof(common.BytesToHash(root), crypto.Keccak256(addr), nl.NodeSet())
	if err != nil {
		return false
	}
	storageRoot := common.HexToHash(p.StorageHash)
	want, err := rlp.EncodeToBytes(&specAccount{Nonce: common.HexToHash(p.Nonce).Big(), Balance: common.HexToHash(p.Balance).Big(), Storage: storageRoot, Codehash: common.HexToHash(p.CodeHash)})
	if err != nil || !bytes.Equal(want, acctVal) {
		return false
	}
	if len(p.StorageProof) != 1 {
		return false
	}
	sp := p.StorageProof[0]
	slot := crypto.Keccak256Hash(pathKey, common.LeftPadBytes(big.NewInt(208).Bytes(), 32))
	if common.HexToHash(sp.Key) != slot {
		return false
	}
	nl = new(light.NodeList)
	for _, n := range sp.Proof {
		_ = nl.Put(nil, common.FromHex(n))
	}
	val, err := trie.VerifyProof(storageRoot, crypto.Keccak256(slot.Bytes()), nl.NodeSet())
	if err != nil {
		return false
	}
	var dec []byte
	if rlp.DecodeBytes(val, &dec) != nil {
		return false
	}
	if rt.Tier() == 0 {
		// quick tier: decoded lengths at the boundaries only (empty, short, 31, 32 = full, 33 = over-long)
		rt.Assume(len(dec) == 0 || len(dec) == 1 || len(dec) >= 31)
	}
	rt.Assume(len(dec) <= 33)
	padded, ok := specPadded(dec)
	return ok && bytes.Equal(padded, value)
}

type evmStored struct {
	h    clienttypes.Height
	root []byte
}

func evmWorld(n int) (sdk.Context, sdk.KVStore, []evmStored) {
	ctx := rt.EmptyCtx()
	store := prefix.NewStore(ctx.KVStore(rt.StoreKey("xibc")), []byte("clients/chain-e/"))
	cdc := rt.Codec()
	var st []evmStored
	k := rt.IntRange("storedStates", 0, n)
	for i := 0; i < k; i++ {
		s := evmStored{h: clienttypes.Height{RevisionNumber: 0, RevisionHeight: rt.U64("stored.height")}, root: rt.Bytes("stored.root")}
		for _, o := range st {
			rt.Assume(o.h != s.h)
		}
		store.Set(host.ConsensusStateKey(s.h), clienttypes.MustMarshalConsensusState(cdc, &ConsensusState{Timestamp: rt.U64("stored.time"), Height: s.h, Root: s.root}))
		st = append(st, s)
	}
	return ctx, store, st
}

func c08Verify(ack bool) {
	if c08VerifyN(ack, false) == nil {
		rt.Reach("accepted")
	} else {
		rt.Reach("rejected")
	}
}

func c08VerifyN(ack bool, twoStorageEntries bool) error {
	rt.Opt("max-enum-40")
	if rt.Tier() == 0 || twoStorageEntries {
		rt.Opt("decode-max-1") // proof lists of length 0..1 (thorough: 0..2)
	}
	if twoStorageEntries {
		rt.Opt("decode-max-at:.StorageProof=2") // ... except the list of storage entries: exactly two (assumed below)
	}
	ctx, store, stored := evmWorld(2)
	cs := c08Client(clienttypes.Height{RevisionNumber: 0, RevisionHeight: rt.U64("head.height")}, rt.Bytes("contractAddress"))
	h := clienttypes.Height{RevisionNumber: 0, RevisionHeight: rt.U64("proof.height")}
	proofBz := rt.Bytes("proof")
	src, dst, seq := rt.Str("src"), rt.Str("dst"), rt.U64("seq")
	value := rt.BytesN("value", 32)

	var pathKey []byte
	if ack {
		pathKey = host.PacketAcknowledgementKey(src, dst, seq)
	} else {
		pathKey = host.PacketCommitmentKey(src, dst, seq)
	}

	// the property, from its text
	head := cs.Header.Height.RevisionHeight
	var root []byte
	found := false
	for _, s := range stored {
		if s.h == h {
			found, root = true, s.root
		}
	}
	var p Proof
	if twoStorageEntries {
		if proofBz == nil || json.Unmarshal(proofBz, &p) != nil {
			return nil
		}
		rt.Assume(len(p.StorageProof) == 2)
		p = Proof{}
	}
	want := h.RevisionHeight <= head && head-h.RevisionHeight >= c08RequiredConfirmations(cs) && found && proofBz != nil && json.Unmarshal(proofBz, &p) == nil &&
		specAccept(root, cs.ContractAddress, p, pathKey, value)

	var err error
	if ack {
		err = cs.VerifyPacketAcknowledgement(ctx, store, rt.Codec(), h, proofBz, src, dst, seq, value)
	} else {
		err = cs.VerifyPacketCommitment(ctx, store, rt.Codec(), h, proofBz, src, dst, seq, value)
	}
	if err == nil {
		rt.Assert("P1-accepted-only-if-the-property-allows", want)
	} else {
		rt.Assert("P2-rejected-only-if-the-property-forbids", !want)
	}
	return err
}

func VerifC08Commitment() { c08Verify(false) }
func VerifC08Ack()        { c08Verify(true) }

// VerifC08TwoStorageEntries: the same statement for proofs that carry two storage entries (every other list 0..1):
// "exactly one storage proof, for the expected slot" must refuse them whichever entry names the slot.
func VerifC08TwoStorageEntries() {
	// no acceptance witness here: a proof with two storage entries is never acceptable
	if c08VerifyN(true, true) != nil {
		rt.Reach("two-entries-rejected")
	}
}
