package keeper

// VerifC16ConversionReturns (shared with the C11 check): the automatic conversion the middleware starts after a successful
// ICS-20 receive runs the real coin-to-token conversion; for every registry state, amount (up to 200 bits) and token-contract
// behaviour it returns - success or an ordinary error, never a panic - because a panic there aborts the whole MsgRecvPacket
// and the packet could never be acknowledged.
func VerifC16ConversionReturns() {
	c11PanicMatters = true
	c11ConvertCoin()
}
