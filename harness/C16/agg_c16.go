package aggregate

import (
	"context"

	sdk "github.com/cosmos/cosmos-sdk/types"
	banktypes "github.com/cosmos/cosmos-sdk/x/bank/types"
	capabilitytypes "github.com/cosmos/cosmos-sdk/x/capability/types"
	transfertypes "github.com/cosmos/ibc-go/v3/modules/apps/transfer/types"
	channeltypes "github.com/cosmos/ibc-go/v3/modules/core/04-channel/types"
	"github.com/cosmos/ibc-go/v3/modules/core/exported"

	"github.com/teleport-network/teleport/x/aggregate/keeper"
	"github.com/teleport-network/teleport/x/aggregate/types"
	rt "github.com/teleport-network/teleport/zzverifrt"
)

// the wrapped ICS-20 application: returns an arbitrary acknowledgement object
type stubAck struct{ ok bool }

func (a *stubAck) Success() bool           { return a.ok }
func (a *stubAck) Acknowledgement() []byte { return []byte("ack") }

type stubTransfer struct {
	ack            *stubAck
	calls          int
	successImplies func() bool
}

func (s *stubTransfer) OnChanOpenInit(sdk.Context, channeltypes.Order, []string, string, string, *capabilitytypes.Capability, channeltypes.Counterparty, string) error {
	return nil
}
func (s *stubTransfer) OnChanOpenTry(sdk.Context, channeltypes.Order, []string, string, string, *capabilitytypes.Capability, channeltypes.Counterparty, string) (string, error) {
	return "", nil
}
func (s *stubTransfer) OnChanOpenAck(sdk.Context, string, string, string, string) error { return nil }
func (s *stubTransfer) OnChanOpenConfirm(sdk.Context, string, string) error           { return nil }
func (s *stubTransfer) OnChanCloseInit(sdk.Context, string, string) error             { return nil }
func (s *stubTransfer) OnChanCloseConfirm(sdk.Context, string, string) error          { return nil }
func (s *stubTransfer) OnRecvPacket(ctx sdk.Context, p channeltypes.Packet, r sdk.AccAddress) exported.Acknowledgement {
	s.calls++
	s.ack = &stubAck{ok: rt.Bool("transfer-succeeds")}
	if s.ack.ok {
		rt.Assume(s.successImplies())
	}
	return s.ack
}
func (s *stubTransfer) OnAcknowledgementPacket(sdk.Context, channeltypes.Packet, []byte, sdk.AccAddress) error {
	return nil
}
func (s *stubTransfer) OnTimeoutPacket(sdk.Context, channeltypes.Packet, sdk.AccAddress) error {
	return nil
}

type stubErr struct{}

func (stubErr) Error() string { return "conversion failed" }

// VerifC16Middleware:
//   M1 the acknowledgement handed back to IBC core is the transfer application's own acknowledgement object
//   M2 a failed automatic conversion leaves nothing of it in the transaction's state
//   M3 a successful conversion is committed exactly once
func VerifC16Middleware() {
	ctx := rt.Ctx()
	k := keeper.NewKeeper(rt.StoreKey(types.StoreKey), rt.Codec(), rt.Subspace(), nil, anyBank{}, nil)
	app := &stubTransfer{}
	mw := NewIBCMiddleware(*k, app)
	var packet channeltypes.Packet
	rt.Fresh(&packet, "packet")

	// What the ICS-20 application guarantees when it reports success (ibc-go v3 transfer OnRecvPacket):
	// the packet data decoded, the amount is a positive integer, and the voucher denomination "ibc/<hash>" is valid.
	var data transfertypes.FungibleTokenPacketData
	dataOK := transfertypes.ModuleCdc.UnmarshalJSON(packet.GetData(), &data) == nil
	app.successImplies = func() bool {
		if !dataOK {
			return false
		}
		amt, ok := sdk.NewIntFromString(data.Amount)
		if !ok || !amt.IsPositive() {
			return false
		}
		denom, _ := types.IBCDenom(packet.GetDestPort(), packet.GetDestChannel(), data.Denom)
		return sdk.ValidateDenom(denom) == nil
	}

	converted, convOK := 0, false
	var asked *types.MsgConvertCoin
	rt.Override("(github.com/teleport-network/teleport/x/aggregate/keeper.Keeper).ConvertCoin", func(_ keeper.Keeper, goCtx context.Context, msg *types.MsgConvertCoin) (*types.MsgConvertCoinResponse, error) {
		c := sdk.UnwrapSDKContext(goCtx)
		converted++
		asked = msg
		// the conversion's bank/EVM effects land in the context it was given
		c.KVStore(rt.StoreKey("bank")).Set([]byte("effect"), []byte{1})
		convOK = rt.Bool("conversion-succeeds")
		if !convOK {
			return nil, stubErr{}
		}
		return &types.MsgConvertCoinResponse{}, nil
	})

	got := mw.OnRecvPacket(ctx, packet, nil)

	rt.Reach("returned")
	rt.Assert("M0-transfer-ran-once", app.calls == 1)
	if converted > 0 && !convOK {
		rt.Reach("conversion-failed")
		rt.Assert("M2-failed-conversion-leaves-nothing", rt.StoreWrites(ctx, "bank") == 0)
	}
	if converted > 0 {
		// the conversion is asked for exactly the received amount of the voucher, for the packet's receiver - whatever
		// vouchers the receiver held before
		amt, _ := sdk.NewIntFromString(data.Amount)
		// the voucher the ICS-20 application credits for a coin that does not return to its source (ibc-go relay.go), written
		// out here instead of calling the module's own IBCDenom; returning coins (the denomination starts with the SOURCE
		// port/channel) are outside this obligation
		denom := transfertypes.ParseDenomTrace(transfertypes.GetDenomPrefix(packet.GetDestPort(), packet.GetDestChannel()) + data.Denom).IBCDenom()
		if transfertypes.ReceiverChainIsSource(packet.GetSourcePort(), packet.GetSourceChannel(), data.Denom) {
			return
		}
		want, wantErr := sdk.AccAddressFromBech32(data.Receiver)
		got, gotErr := sdk.AccAddressFromBech32(asked.Sender)
		rt.Assert("M4-converts-exactly-the-received-amount", asked.Coin.Denom == denom && asked.Coin.Amount.Equal(amt) && (wantErr != nil || gotErr == nil && got.Equals(want)))
	}
	if converted > 0 && convOK {
		rt.Reach("conversion-ok")
		rt.Assert("M3-conversion-committed-once", converted == 1 && rt.StoreWrites(ctx, "bank") == 1)
	}
	if !app.ack.ok {
		rt.Reach("transfer-failed")
		rt.Assert("M2-no-conversion-after-failed-transfer", converted == 0)
	}
	rt.Known("H2a-hook-returns-nil-ack", app.ack.ok)
	rt.Assert("M1-ack-is-the-transfer-ack", rt.SameObject(got, app.ack))
}

// anyBank: the bank keeper as the hook may consult it - every balance is arbitrary (the receiver may already hold vouchers).
type anyBank struct{}

func (anyBank) SendCoinsFromModuleToAccount(sdk.Context, string, sdk.AccAddress, sdk.Coins) error { return stubErr{} }
func (anyBank) SendCoinsFromAccountToModule(sdk.Context, sdk.AccAddress, string, sdk.Coins) error { return stubErr{} }
func (anyBank) MintCoins(sdk.Context, string, sdk.Coins) error                                    { return stubErr{} }
func (anyBank) BurnCoins(sdk.Context, string, sdk.Coins) error                                    { return stubErr{} }
func (anyBank) IsSendEnabledCoin(sdk.Context, sdk.Coin) bool                                      { return rt.Bool("send-enabled") }
func (anyBank) BlockedAddr(sdk.AccAddress) bool                                                   { return rt.Bool("blocked") }
func (anyBank) GetDenomMetaData(sdk.Context, string) (banktypes.Metadata, bool)                   { return banktypes.Metadata{}, false }
func (anyBank) SetDenomMetaData(sdk.Context, banktypes.Metadata)                                  {}
func (anyBank) HasSupply(sdk.Context, string) bool                                                { return true }
func (anyBank) GetBalance(_ sdk.Context, _ sdk.AccAddress, denom string) sdk.Coin {
	b := rt.BigInt("balance")
	rt.Assume(b.Sign() >= 0 && b.BitLen() <= 200)
	return sdk.Coin{Denom: denom, Amount: sdk.NewIntFromBigInt(b)}
}
