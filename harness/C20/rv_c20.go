package rvesting

import (
	sdk "github.com/cosmos/cosmos-sdk/types"
	authtypes "github.com/cosmos/cosmos-sdk/x/auth/types"

	"github.com/teleport-network/teleport/x/rvesting/keeper"
	"github.com/teleport-network/teleport/x/rvesting/types"
	rt "github.com/teleport-network/teleport/zzverifrt"
)

// bank stub with the SDK's observable rules: GetBalance of an absent denomination builds a zero coin
// (sdk.NewCoin validates the denomination), sends fail on invalid coins or insufficient funds.
type stubBank struct {
	pool   []sdk.Coin // balances of the vesting pool, one entry per distinct denomination asked for
	moved  []sdk.Coin // what was moved pool -> fee collector
	sends  int
	from   string
	to     string
	others int // calls of any other kind
}

var poolAddr = sdk.AccAddress("pool-address-of-rvest")

type stubErr struct{ s string }

func (e stubErr) Error() string { return e.s }

func (b *stubBank) balance(denom string) sdk.Int {
	for _, c := range b.pool {
		if c.Denom == denom {
			return c.Amount
		}
	}
	amt := anyInt("poolBalance")
	rt.Assume(!amt.IsNegative())
	// invariant of the bank module: only valid denominations have a stored (non-zero) balance
	rt.Assume(amt.IsZero() || sdk.ValidateDenom(denom) == nil)
	b.pool = append(b.pool, sdk.Coin{Denom: denom, Amount: amt})
	return amt
}

func (b *stubBank) GetBalance(ctx sdk.Context, addr sdk.AccAddress, denom string) sdk.Coin {
	if !addr.Equals(poolAddr) {
		b.others++
	}
	amt := b.balance(denom)
	if amt.IsZero() {
		return sdk.NewCoin(denom, sdk.ZeroInt())
	}
	return sdk.Coin{Denom: denom, Amount: amt}
}
func (b *stubBank) GetAllBalances(ctx sdk.Context, addr sdk.AccAddress) sdk.Coins { b.others++; return nil }
func (b *stubBank) SendCoinsFromModuleToAccount(ctx sdk.Context, m string, r sdk.AccAddress, amt sdk.Coins) error {
	b.others++
	return nil
}
func (b *stubBank) SendCoinsFromAccountToModule(ctx sdk.Context, s sdk.AccAddress, m string, amt sdk.Coins) error {
	b.others++
	return nil
}
func (b *stubBank) SendCoinsFromModuleToModule(ctx sdk.Context, from, to string, amt sdk.Coins) error {
	b.sends++
	b.from, b.to = from, to
	if !amt.IsValid() {
		return stubErr{"invalid coins"}
	}
	for _, c := range amt {
		if b.balance(c.Denom).LT(c.Amount) {
			return stubErr{"insufficient funds"}
		}
	}
	for _, c := range amt {
		for i := range b.pool {
			if b.pool[i].Denom == c.Denom {
				b.pool[i].Amount = b.pool[i].Amount.Sub(c.Amount)
			}
		}
		b.moved = append(b.moved, c)
	}
	return nil
}

type stubAccounts struct{}

func (stubAccounts) GetAccount(ctx sdk.Context, addr sdk.AccAddress) authtypes.AccountI { return nil }
func (stubAccounts) GetModuleAddress(name string) sdk.AccAddress {
	if name == types.ModuleName {
		return poolAddr
	}
	return sdk.AccAddress("some-other-module-addr")
}
func (stubAccounts) GetModuleAccount(ctx sdk.Context, name string) authtypes.ModuleAccountI {
	return nil
}

// an arbitrary value of sdk.Int's range
func anyInt(tag string) sdk.Int {
	b := rt.BigInt(tag)
	rt.Assume(b.BitLen() <= 255)
	return sdk.NewIntFromBigInt(b)
}

func minInt(a, b sdk.Int) sdk.Int {
	if a.LT(b) {
		return a
	}
	return b
}

// VerifC20BeginBlocker: one block from arbitrary accepted parameters and an arbitrary pool.
func VerifC20BeginBlocker() {
	n := rt.IntRange("rewardCoins", 1, 2+rt.Tier())
	var reward sdk.Coins
	for i := 0; i < n; i++ {
		dl := rt.IntRange("denomLen", 1, 3)
		reward = append(reward, sdk.Coin{Denom: rt.StrN("denom", dl), Amount: anyInt("rewardAmount")})
	}
	params := types.Params{EnableVesting: rt.Bool("enabled"), PerBlockReward: reward}
	// exactly what parameter validation accepts (the validator registered for the PerBlockReward key)
	pairs := (&params).ParamSetPairs()
	rt.Assume(pairs[1].ValidatorFn(params.PerBlockReward) == nil)

	dup, invalid := false, false
	for i := range reward {
		if sdk.ValidateDenom(reward[i].Denom) != nil {
			invalid = true
		}
		for j := 0; j < i; j++ {
			if reward[i].Denom == reward[j].Denom {
				dup = true
			}
		}
	}
	rt.Known("H8c-repeated-denomination", dup)
	rt.Known("H8c-invalid-denomination", invalid)

	ctx := rt.Ctx()
	bank := &stubBank{}
	sub := rt.Subspace()
	k := keeper.NewKeeper(sub, bank, stubAccounts{}, "fee_collector")
	k.SetParams(ctx, params)
	// the pool before the block, per reward denomination
	pre := make([]sdk.Int, n)
	if !invalid {
		for i := range reward {
			pre[i] = bank.balance(reward[i].Denom)
		}
	}

	if rt.NoPanic("V1-no-panic", func() { BeginBlocker(ctx, k) }) {
		return
	}
	rt.Reach("block-done")
	if !params.EnableVesting {
		rt.Reach("disabled")
		rt.Assert("V3-disabled-moves-nothing", bank.sends == 0 && bank.others == 0)
		return
	}
	rt.Assert("V2-at-most-one-transfer", bank.sends <= 1 && bank.others == 0)
	if bank.sends == 1 {
		rt.Reach("vested")
		rt.Assert("V2-pool-to-fee-collector", bank.from == types.ModuleName && bank.to == "fee_collector")
	}
	if invalid {
		return
	}
	for i := range reward {
		first := true
		for j := 0; j < i; j++ {
			if reward[j].Denom == reward[i].Denom {
				first = false
			}
		}
		if !first {
			continue
		}
		// total per-block reward of this denomination
		sum := sdk.ZeroInt()
		for j := range reward {
			if reward[j].Denom == reward[i].Denom {
				sum = sum.Add(reward[j].Amount)
			}
		}
		movedD := sdk.ZeroInt()
		for _, c := range bank.moved {
			if c.Denom == reward[i].Denom {
				movedD = movedD.Add(c.Amount)
			}
		}
		rt.Assert("V2-moved-is-min-of-reward-and-pool", movedD.Equal(minInt(sum, pre[i])))
		rt.Assert("V2-pool-not-negative", !bank.balance(reward[i].Denom).IsNegative())
	}
	for _, c := range bank.moved {
		isReward := false
		for _, r := range reward {
			if r.Denom == c.Denom {
				isReward = true
			}
		}
		rt.Assert("V2-nothing-else-moves", isReward)
	}
}

// VerifC20ScheduleFollowsTheParamsStore: parameter changes between blocks. Governance changes the schedule by writing the
// params store (the parameter-change proposal handler updates the subspace directly, never through the keeper): the block
// after such a change follows the new schedule - in particular nothing moves once vesting is disabled, whatever the keeper
// read, wrote or kept in memory before.
func VerifC20ScheduleFollowsTheParamsStore() {
	dl := rt.IntRange("denomLen", 1, 3)
	denom := rt.StrN("denom", dl)
	rt.Assume(sdk.ValidateDenom(denom) == nil)
	p1 := types.Params{EnableVesting: true, PerBlockReward: sdk.Coins{{Denom: denom, Amount: anyInt("reward1")}}}
	p2 := types.Params{EnableVesting: rt.Bool("enabledAfterTheChange"), PerBlockReward: sdk.Coins{{Denom: denom, Amount: anyInt("reward2")}}}
	rt.Assume((&p1).ParamSetPairs()[1].ValidatorFn(p1.PerBlockReward) == nil && (&p2).ParamSetPairs()[1].ValidatorFn(p2.PerBlockReward) == nil)
	ctx := rt.Ctx()
	bank := &stubBank{}
	sub := rt.Subspace()
	k := keeper.NewKeeper(sub, bank, stubAccounts{}, "fee_collector")
	k.SetParams(ctx, p1) // genesis
	_ = k.GetParams(ctx)  // a query
	if rt.NoPanic("V1-no-panic", func() { BeginBlocker(ctx, k) }) {
		return
	}
	// the governance handler writes the store, not the keeper
	sub.SetParamSet(ctx, &p2)
	sendsBefore, pool := bank.sends, bank.balance(denom)
	bank.moved = nil
	if rt.NoPanic("V1-no-panic", func() { BeginBlocker(ctx, k) }) {
		return
	}
	rt.Reach("second-block-done")
	if !p2.EnableVesting {
		rt.Reach("disabled-by-governance")
		rt.Assert("V4-nothing-moves-after-vesting-was-disabled-in-the-store", bank.sends == sendsBefore)
		return
	}
	movedD := sdk.ZeroInt()
	for _, c := range bank.moved {
		if c.Denom == denom {
			movedD = movedD.Add(c.Amount)
		}
	}
	rt.Assert("V4-the-block-after-a-change-follows-the-new-reward", movedD.Equal(minInt(p2.PerBlockReward[0].Amount, pool)))
}
