package types

import (
	"math/big"

	"github.com/cosmos/cosmos-sdk/store/prefix"
	sdk "github.com/cosmos/cosmos-sdk/types"
	paramtypes "github.com/cosmos/cosmos-sdk/x/params/types"
	"github.com/ethereum/go-ethereum/common"

	clientkeeper "github.com/teleport-network/teleport/x/xibc/core/client/keeper"
	clienttypes "github.com/teleport-network/teleport/x/xibc/core/client/types"
	"github.com/teleport-network/teleport/x/xibc/core/host"
	rt "github.com/teleport-network/teleport/zzverifrt"
)

type ethErr struct{ s string }

func (e ethErr) Error() string { return e.s }

// numeric formulas (big-integer fee / difficulty arithmetic) and ethash are functions of exactly their arguments
func stubEthNumerics(assumeValid bool) {
	rt.Override("github.com/teleport-network/teleport/x/xibc/clients/light-clients/eth/types.rlpHash", func(x interface{}) common.Hash {
		if p, ok := x.(*EthHeader); ok {
			x = *p // RLP encodes a pointer like the value it points to
		}
		return common.BytesToHash([]byte(rt.UFStr("rlpHash", x)))
	})
	rt.Override("github.com/teleport-network/teleport/x/xibc/clients/light-clients/eth/types.CalcBaseFee", func(parent *Header) *big.Int {
		if assumeValid {
			return nil
		}
		b := new(big.Int).SetBytes([]byte(rt.UFStr("calcBaseFee", parent)))
		return b
	})
	rt.Override("github.com/teleport-network/teleport/x/xibc/clients/light-clients/eth/types.makeDifficultyCalculator", func(bombDelay *big.Int) func(time uint64, parent *Header) *big.Int {
		return func(time uint64, parent *Header) *big.Int {
			return new(big.Int).SetBytes([]byte(rt.UFStr("calcDifficulty", time, parent)))
		}
	})
	rt.Override("github.com/teleport-network/teleport/x/xibc/clients/light-clients/eth/types.VerifyCascadingFields", func(h Header) error {
		if assumeValid || rt.UFBool("ethashSealValid", h) {
			return nil
		}
		return ethErr{"bad seal"}
	})
	if assumeValid {
		rt.Override("github.com/teleport-network/teleport/x/xibc/clients/light-clients/eth/types.VerifyEip1559Header", func(parent, header *Header) error { return nil })
	}
}

func freshEthHeader(tag string) Header {
	return Header{ParentHash: rt.BytesN(tag+".parentHash", 32), UncleHash: rt.Bytes(tag + ".uncleHash"), Coinbase: rt.Bytes(tag + ".coinbase"), Root: rt.Bytes(tag + ".root"),
		TxHash: rt.Bytes(tag + ".txHash"), ReceiptHash: rt.Bytes(tag + ".receiptHash"), Bloom: rt.BytesN(tag+".bloom", 0), Difficulty: rt.Bytes(tag + ".difficulty"),
		Height: clienttypes.Height{RevisionNumber: 0, RevisionHeight: rt.U64(tag + ".number")}, GasLimit: rt.U64(tag + ".gasLimit"), GasUsed: rt.U64(tag + ".gasUsed"), Time: rt.U64(tag + ".time"),
		Extra: rt.Bytes(tag + ".extra"), MixDigest: rt.Bytes(tag + ".mixDigest"), Nonce: rt.U64(tag + ".nonce"), BaseFee: rt.Bytes(tag + ".baseFee")}
}

// VerifC10Header: one CheckHeaderAndUpdateState of the Ethereum client from a store holding its head and one more header.
func VerifC10Header() {
	rt.Opt("structured-keys")
	stubEthNumerics(false)
	ctx := rt.EmptyCtx()
	cdc := rt.Codec()
	store := prefix.NewStore(ctx.KVStore(rt.StoreKey(host.StoreKey)), []byte("clients/chain-e/"))
	head := freshEthHeader("head")
	other := freshEthHeader("other")
	cs := ClientState{Header: head, ChainId: rt.U64("chainID"), TrustingPeriod: rt.U64("trustingPeriod")}
	for _, h := range []Header{head, other} {
		h := h
		bz, err := cdc.MarshalInterface(&h)
		rt.Assume(err == nil)
		SetEthHeaderIndex(store, h, bz)
		SetEthConsensusRoot(store, h.Height.RevisionHeight, h.ToEthHeader().Root, h.Hash())
	}
	store.Set(host.ConsensusStateKey(head.Height), clienttypes.MustMarshalConsensusState(cdc, &ConsensusState{Timestamp: head.Time, Height: head.Height, Root: head.Root}))
	rt.Assume(head.Height != other.Height || head.Hash() != other.Hash())
	// bounds: block numbers in [1,40] (no 0x2F byte in the consensus-state keys: that is C19's subject), and the second
	// stored header is a sibling of the head or the head's parent, so the re-pointing loops run at most once
	rt.Assume(head.Height.RevisionHeight >= 1 && head.Height.RevisionHeight <= 40)
	rt.Assume(other.Height.RevisionHeight == head.Height.RevisionHeight || other.Height.RevisionHeight+1 == head.Height.RevisionHeight)
	if other.Height.RevisionHeight+1 == head.Height.RevisionHeight {
		rt.Assume(common.BytesToHash(head.ParentHash) == other.Hash())
		store.Set(host.ConsensusStateKey(other.Height), clienttypes.MustMarshalConsensusState(cdc, &ConsensusState{Timestamp: other.Time, Height: other.Height, Root: other.Root}))
	}

	hdr := freshEthHeader("new")
	newCS, newCons, err := cs.CheckHeaderAndUpdateState(ctx, cdc, store, &hdr)
	if err != nil {
		rt.Reach("rejected")
		return
	}
	rt.Reach("accepted")
	// the parent: one of the stored headers, one height below, with exactly the named hash
	var parent *Header
	for _, h := range []Header{head, other} {
		h := h
		if h.Hash() == common.BytesToHash(hdr.ParentHash) && h.Height.RevisionHeight+1 == hdr.Height.RevisionHeight {
			parent = &h
		}
	}
	rt.Assert("E1-parent-accepted-before-one-height-below", parent != nil)
	if parent == nil {
		return
	}
	rt.Assert("E2-time-after-parent", hdr.Time > parent.Time)
	rt.Assert("E2-time-not-in-future", int64(hdr.Time) <= ctx.BlockTime().Unix()+15 || hdr.Time <= uint64(ctx.BlockTime().Unix()+15))
	// gas-limit rule (EIP-1559): |parent - header| < parent/1024 and header >= 5000, caps from ValidateBasic
	diff := int64(parent.GasLimit) - int64(hdr.GasLimit)
	if diff < 0 {
		diff = -diff
	}
	rt.Assert("E3-gas-limit-rule", uint64(diff) < parent.GasLimit/1024 && hdr.GasLimit >= 5000 && hdr.GasLimit <= 0x7fffffffffffffff && hdr.GasUsed <= hdr.GasLimit)
	rt.Assert("E4-base-fee-is-the-formula's", new(big.Int).SetBytes(hdr.BaseFee).Cmp(new(big.Int).SetBytes([]byte(rt.UFStr("calcBaseFee", parent)))) == 0)
	if cs.ChainId != 4 {
		rt.Reach("not-rinkeby")
		rt.Assert("E5-difficulty-is-the-formula's", new(big.Int).SetBytes(hdr.Difficulty).Cmp(new(big.Int).SetBytes([]byte(rt.UFStr("calcDifficulty", hdr.Time, parent)))) == 0)
		rt.Assert("E5-extra-data-size", len(hdr.Extra) <= 32)
		rt.Assert("E5-proof-of-work", rt.UFBool("ethashSealValid", hdr))
	} else {
		rt.Reach("rinkeby")
	}
	rt.Assert("E6-becomes-head", newCS.(*ClientState).Header.Hash() == hdr.Hash())
	c := newCons.(*ConsensusState)
	rt.Assert("E6-consensus-state-is-the-header's", c.Timestamp == hdr.Time && c.Height == hdr.Height && rt.BytesEq(c.Root, hdr.Root))
}

var _ = clientkeeper.Keeper{}
var _ = paramtypes.Subspace{}
var _ sdk.Context

// VerifC10Forks: from an initialised client, k headers are submitted, each a valid child of an ARBITRARY header accepted
// before (so every tree shape and submission order up to k is covered). After any such history
//   F1 a valid child of any stored header is still accepted
//   F2 the consensus state kept for every height on the head's ancestry is that ancestor's state root
func VerifC10Forks() {
	rt.Opt("structured-keys")
	stubEthNumerics(true)
	ctx := rt.EmptyCtx()
	cdc := rt.Codec()
	store := prefix.NewStore(ctx.KVStore(rt.StoreKey(host.StoreKey)), []byte("clients/chain-e/"))
	now := uint64(ctx.BlockTime().Unix())
	trusting := rt.U64("trustingPeriod")

	g := freshEthHeader("genesis")
	rt.Assume(g.Height.RevisionHeight >= 1 && g.Height.RevisionHeight <= 8)
	cs := ClientState{Header: g, ChainId: rt.U64("chainID"), TrustingPeriod: trusting}
	rt.Assume(cs.Initialize(ctx, cdc, store, nil) == nil)
	store.Set(host.ConsensusStateKey(g.Height), clienttypes.MustMarshalConsensusState(cdc, &ConsensusState{Timestamp: g.Time, Height: g.Height, Root: g.Root}))
	rt.Assume(g.Time < 1<<40 && trusting < 1<<40 && g.Time+trusting >= now) // nothing expires during the history

	accepted := []Header{g}
	parentOf := []int{-1}
	k := 3 + rt.Tier()
	for i := 1; i <= k; i++ {
		pi := rt.IntRange("parentIndex", 0, len(accepted)-1)
		p := accepted[pi]
		h := freshEthHeader("h")
		rt.Assume(common.BytesToHash(h.ParentHash) == p.Hash() && h.Height.RevisionHeight == p.Height.RevisionHeight+1)
		rt.Assume(h.Time > p.Time && h.Time < 1<<40 && h.Time+trusting >= now && h.Time <= uint64(ctx.BlockTime().Unix()))
		rt.Assume(h.ValidateBasic() == nil && (cs.ChainId == 4 || len(h.Extra) <= 32))
		pp := p
		rt.Assume(new(big.Int).SetBytes(h.Difficulty).Cmp(new(big.Int).SetBytes([]byte(rt.UFStr("calcDifficulty", h.Time, &pp)))) == 0) // the difficulty rule holds
		for _, o := range accepted {
			rt.Assume(o.Hash() != h.Hash()) // a new block
		}
		head := cs.Header
		deepReorg := common.BytesToHash(h.ParentHash) != head.Hash() && !rt.BytesEq(h.ParentHash, head.ParentHash)
		rt.Known("H4-reorg-deeper-than-a-sibling-is-rejected", deepReorg)
		newCS, cons, err := cs.CheckHeaderAndUpdateState(ctx, cdc, store, &h)
		rt.Assert("F1-valid-child-of-a-stored-header-accepted", err == nil)
		if err != nil {
			return
		}
		// what the client keeper does with the result
		cs = *newCS.(*ClientState)
		store.Set(host.ConsensusStateKey(h.Height), clienttypes.MustMarshalConsensusState(cdc, cons))
		accepted = append(accepted, h)
		parentOf = append(parentOf, pi)
		rt.Assert("F1-becomes-head", cs.Header.Hash() == h.Hash())
		// F2 along the head's ancestry
		for a := len(accepted) - 1; a >= 0; a = parentOf[a] {
			st, e := GetConsensusState(store, cdc, accepted[a].Height)
			rt.Assert("F2-ancestor-state-root", e == nil && rt.BytesEq(st.Root, accepted[a].Root))
		}
	}
	rt.Reach("history-complete")
}
