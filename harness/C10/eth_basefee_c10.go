package types

// C10, the base-fee rule itself: the real CalcBaseFee against the EIP-1559 formula written out independently, for every
// parent base fee (any non-negative integer) on a grid of gas limits {3, 8, 30 000 000} and gas used {0, target-1, target,
// target+1, 2*target, limit} - concrete gas figures keep the arithmetic linear in the one unbounded quantity.
// (VerifC10Header treats CalcBaseFee as an uninterpreted function of the parent; this harness pins its numeric content.)

import (
	"math/big"

	clienttypes "github.com/teleport-network/teleport/x/xibc/core/client/types"
	rt "github.com/teleport-network/teleport/zzverifrt"
)

func specBaseFee(baseFee *big.Int, gasLimit, gasUsed uint64) *big.Int {
	target := gasLimit / 2
	if gasUsed == target {
		return baseFee
	}
	t := new(big.Int).SetUint64(target)
	if gasUsed > target {
		d := new(big.Int).Mul(baseFee, new(big.Int).SetUint64(gasUsed-target))
		d.Div(d, t)
		d.Div(d, big.NewInt(8))
		if d.Cmp(big.NewInt(1)) < 0 {
			d = big.NewInt(1)
		}
		return new(big.Int).Add(baseFee, d)
	}
	d := new(big.Int).Mul(baseFee, new(big.Int).SetUint64(target-gasUsed))
	d.Div(d, t)
	d.Div(d, big.NewInt(8))
	r := new(big.Int).Sub(baseFee, d)
	if r.Sign() < 0 {
		return big.NewInt(0)
	}
	return r
}

func VerifC10BaseFeeFormula() {
	feeBytes := rt.Bytes("parent.baseFee")
	fee := new(big.Int).SetBytes(feeBytes) // any non-negative integer
	parent := Header{ParentHash: rt.BytesN("parentHash", 32), Bloom: rt.BytesN("bloom", 0), Difficulty: []byte{1},
		Height: clienttypes.Height{RevisionHeight: rt.U64("number")}, BaseFee: feeBytes}
	parent.GasLimit = []uint64{3, 8, 30000000}[rt.IntRange("gasLimitChoice", 0, 2)]
	target := parent.GasLimit / 2
	parent.GasUsed = []uint64{0, target - 1, target, target + 1, 2 * target, parent.GasLimit}[rt.IntRange("gasUsedChoice", 0, 5)]
	got := CalcBaseFee(&parent)
	want := specBaseFee(fee, parent.GasLimit, parent.GasUsed)
	rt.Reach("computed")
	if parent.GasUsed > parent.GasLimit/2 {
		rt.Reach("above-target")
	}
	if parent.GasUsed < parent.GasLimit/2 {
		rt.Reach("below-target")
	}
	rt.Assert("E4-base-fee-formula-is-eip-1559", got.Cmp(want) == 0)
}
