package client

import (
	sdk "github.com/cosmos/cosmos-sdk/types"
	paramtypes "github.com/cosmos/cosmos-sdk/x/params/types"

	"github.com/teleport-network/teleport/x/xibc/core/client/keeper"
	"github.com/teleport-network/teleport/x/xibc/core/client/types"
	"github.com/teleport-network/teleport/x/xibc/core/host"
	rt "github.com/teleport-network/teleport/zzverifrt"
)

// VerifC06RegistryAcrossGenesis: what governance registered is what authorises, also after the registry went through a
// genesis export and import (a chain upgrade): two or three relayers with one or two chains each; for an arbitrary chain q
// every relayer is authorised for q after the round trip exactly if it was before, and the counterparty address that an
// acknowledgement would name is the same one.
func VerifC06RegistryAcrossGenesis() {
	rt.Opt("structured-keys")
	rt.RegisterInterfaces(types.RegisterInterfaces)
	k := keeper.NewKeeper(rt.Codec(), rt.StoreKey(host.StoreKey), paramtypes.Subspace{}, nil)
	src := rt.EmptyCtx()
	k.SetChainName(src, "teleport")
	n := rt.IntRange("relayers", 2, 3)
	var addrs []string
	for i := 0; i < n; i++ {
		a := sdk.AccAddress(rt.BytesN("relayer.address", 20)).String() // a real bech32 account address (also when the witness is replayed natively)
		for _, o := range addrs {
			rt.Assume(o != a)
		}
		addrs = append(addrs, a)
		var chains, cps []string
		m := rt.IntRange("relayer.chains", 1, 2)
		for j := 0; j < m; j++ {
			chains = append(chains, rt.Str("relayer.chain"))
			cps = append(cps, rt.Str("relayer.counterparty"))
		}
		// what every registered relayer satisfies: the registration proposal was validated at submission
		rt.Assume((&types.RegisterRelayerProposal{Title: "t", Description: "d", Address: a, Chains: chains, Addresses: cps}).ValidateBasic() == nil)
		k.RegisterRelayers(src, a, chains, cps)
	}
	q := rt.Str("queried.chain")
	gs := ExportGenesis(src, k)
	dst := rt.EmptyCtx()
	if rt.NoPanic("G6-import-does-not-panic", func() { InitGenesis(dst, k, gs) }) {
		return
	}
	rt.Reach("round-trip-done")
	for _, a := range addrs {
		before, after := k.AuthRelayer(src, q, a), k.AuthRelayer(dst, q, a)
		if before {
			rt.Reach("authorised-before")
		} else {
			rt.Reach("not-authorised-before")
		}
		rt.Assert("G6-round-trip-confers-no-new-chain", before || !after)
		rt.Assert("G6-round-trip-withdraws-no-chain", !before || after)
		cb, okb := k.GetRelayerAddressOnOtherChain(src, q, a)
		ca, oka := k.GetRelayerAddressOnOtherChain(dst, q, a)
		rt.Assert("G6-same-counterparty-address-after-round-trip", okb == oka && (!okb || cb == ca))
	}
}
