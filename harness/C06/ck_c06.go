package keeper

import (
	sdk "github.com/cosmos/cosmos-sdk/types"
	paramtypes "github.com/cosmos/cosmos-sdk/x/params/types"

	"github.com/teleport-network/teleport/x/xibc/core/client/types"
	"github.com/teleport-network/teleport/x/xibc/core/host"
	rt "github.com/teleport-network/teleport/zzverifrt"
)

func contains(xs []string, x string) bool {
	for _, y := range xs {
		if y == x {
			return true
		}
	}
	return false
}

func freshRelayer(tag string, maxChains int) (string, []string, []string) {
	var p types.RegisterRelayerProposal
	p.Title, p.Description = "t", "d"
	p.Address = sdk.AccAddress(rt.BytesN(tag+".address", 20)).String() // a real bech32 account address
	n := rt.IntRange(tag+".nchains", 1, maxChains)
	for i := 0; i < n; i++ {
		p.Chains = append(p.Chains, rt.StrN(tag+".chain", 3)) // structured: byte-exact comparison, letter case included
		p.Addresses = append(p.Addresses, rt.Str(tag+".addr"))
	}
	rt.Assume(p.ValidateBasic() == nil) // a registration is a governance proposal validated at submission (bech32 address, one address per chain)
	return p.Address, p.Chains, p.Addresses
}

// VerifC06Registry: the real relayer registry over a store holding up to two registered relayers.
//   G4 registering relayer r for a set of chains changes the authorisation of nobody else, and r is authorised
//      exactly for the chains listed; registration for one chain confers nothing for another
//   G6 the counterparty address returned for (chain, relayer) is the one registered at the same index
func VerifC06Registry() {
	ctx := rt.EmptyCtx()
	k := NewKeeper(rt.Codec(), rt.StoreKey(host.StoreKey), paramtypes.Subspace{}, nil)
	nPre := rt.IntRange("preRegistered", 0, 2)
	for i := 0; i < nPre; i++ {
		a, cs, as := freshRelayer("pre", 2)
		k.RegisterRelayers(ctx, a, cs, as)
	}
	c, s := rt.StrN("queryChain", 3), sdk.AccAddress(rt.BytesN("querySigner", 20)).String() // signers are account addresses (built like the registered ones, so that a witness replays natively)
	before := k.AuthRelayer(ctx, c, s)
	_, beforeFound := k.GetRelayerAddressOnOtherChain(ctx, c, s)
	rt.Assert("G6-auth-iff-address-known", before == beforeFound)

	r, chains, addrs := freshRelayer("new", 2)
	k.RegisterRelayers(ctx, r, chains, addrs)
	rt.Reach("registered")
	after := k.AuthRelayer(ctx, c, s)
	if s != r {
		rt.Reach("other-signer")
		rt.Assert("G4-others-unaffected", after == before)
	} else {
		rt.Reach("same-signer")
		rt.Assert("G4-authorised-exactly-for-listed-chains", after == contains(chains, c))
		addr, found := k.GetRelayerAddressOnOtherChain(ctx, c, s)
		rt.Assert("G6-found-iff-listed", found == contains(chains, c))
		if found {
			ok := false
			for i := range chains {
				if chains[i] == c && addrs[i] == addr {
					ok = true
				}
			}
			rt.Assert("G6-address-of-that-chain", ok)
		}
	}
}

// VerifC06ProposalShape: a register-relayer proposal that passes stateless validation has one address per chain,
// so reading the address at a chain's index cannot go out of range.
func VerifC06ProposalShape() {
	var p types.RegisterRelayerProposal
	rt.FreshOpt(&p, "proposal", 3, false)
	if p.ValidateBasic() != nil {
		return
	}
	rt.Reach("valid")
	rt.Assert("G6-one-address-per-chain", len(p.Addresses) == len(p.Chains) && len(p.Chains) > 0)
	ctx := rt.EmptyCtx()
	k := NewKeeper(rt.Codec(), rt.StoreKey(host.StoreKey), paramtypes.Subspace{}, nil)
	k.RegisterRelayers(ctx, p.Address, p.Chains, p.Addresses)
	rt.NoPanic("G6-lookup-does-not-panic", func() { k.GetRelayerAddressOnOtherChain(ctx, rt.Str("c"), p.Address) })
}
