package keeper

// C06, TSS-secured counterparty: the real TSS client state (x/xibc/clients/tss-client/types) behind the real
// message server and packet keeper. Whatever the message carries in its proof field, an update, a receive or an
// acknowledgement for that chain is accepted only when the signer is the configured TSS account.

import (
	codectypes "github.com/cosmos/cosmos-sdk/codec/types"
	sdk "github.com/cosmos/cosmos-sdk/types"

	tsstypes "github.com/teleport-network/teleport/x/xibc/clients/tss-client/types"
	clienttypes "github.com/teleport-network/teleport/x/xibc/core/client/types"
	packettypes "github.com/teleport-network/teleport/x/xibc/core/packet/types"
	rt "github.com/teleport-network/teleport/zzverifrt"
)

func tssWorld() (*xworld, *tsstypes.ClientState, string) {
	w := newXWorld(1)
	tss := &tsstypes.ClientState{TssAddress: rt.Str("tssAddress")}
	name := rt.Str("tssChain")
	rt.Assume(name != w.ck.clients[0].name)
	w.ck.real = append(w.ck.real, realClient{name: name, cs: tss})
	return w, tss, name
}

// sameAccount: two bech32 strings name the same account.
func sameAccount(a, b string) bool {
	x, err := sdk.AccAddressFromBech32(a)
	if err != nil {
		return false
	}
	y, err := sdk.AccAddressFromBech32(b)
	if err != nil {
		return false
	}
	return x.Equals(y)
}

func VerifC06TSSRecv() {
	w, tss, name := tssWorld()
	msg := &packettypes.MsgRecvPacket{Packet: rt.Bytes("packetBytes"), ProofCommitment: rt.Bytes("proof"),
		ProofHeight: clienttypes.Height{RevisionNumber: rt.U64("rev"), RevisionHeight: rt.U64("height")}, Signer: rt.Str("signer")}
	var p packettypes.Packet
	_ = p.ABIDecode(msg.Packet)
	_, err := w.k.RecvPacket(sdk.WrapSDKContext(w.ctx), msg)
	if err != nil {
		return
	}
	rt.Reach("accepted")
	if p.SrcChain == name {
		rt.Reach("from-tss-chain")
		rt.Assert("G4-tss-receive-only-from-tss-account", msg.Signer == tss.TssAddress)
	}
}

func VerifC06TSSAck() {
	w, tss, name := tssWorld()
	msg := &packettypes.MsgAcknowledgement{Packet: rt.Bytes("packetBytes"), Acknowledgement: rt.Bytes("ackBytes"), ProofAcked: rt.Bytes("proof"),
		ProofHeight: clienttypes.Height{RevisionNumber: rt.U64("rev"), RevisionHeight: rt.U64("height")}, Signer: rt.Str("signer")}
	var p packettypes.Packet
	_ = p.ABIDecode(msg.Packet)
	_, err := w.k.Acknowledgement(sdk.WrapSDKContext(w.ctx), msg)
	if err != nil {
		return
	}
	rt.Reach("accepted")
	if p.DstChain == name {
		rt.Reach("to-tss-chain")
		rt.Assert("G4-tss-ack-only-from-tss-account", msg.Signer == tss.TssAddress)
	}
}

func VerifC06TSSUpdate() {
	w, tss, name := tssWorld()
	any, err := codectypes.NewAnyWithValue(&stubHeader{})
	rt.Assume(err == nil)
	msg := &clienttypes.MsgUpdateClient{ChainName: rt.Str("chain"), Header: any, Signer: rt.Str("signer")}
	// baseapp runs ValidateBasic first, which rejects a signer that is not a bech32 account address
	_, bad := sdk.AccAddressFromBech32(msg.Signer)
	rt.Assume(bad == nil)
	_, err = w.k.UpdateClient(sdk.WrapSDKContext(w.ctx), msg)
	if err != nil {
		return
	}
	rt.Reach("accepted")
	rt.Assert("G1-authorised-for-this-chain", rt.UFBool("authRelayer", msg.ChainName, msg.Signer))
	if msg.ChainName == name {
		rt.Reach("tss-chain")
		rt.Assert("G4-tss-update-only-from-tss-account", sameAccount(msg.Signer, tss.TssAddress))
	}
}
