package keeper

import (
	"crypto/sha256"

	codectypes "github.com/cosmos/cosmos-sdk/codec/types"
	sdk "github.com/cosmos/cosmos-sdk/types"

	packetcontract "github.com/teleport-network/teleport/syscontracts/xibc_packet"
	clienttypes "github.com/teleport-network/teleport/x/xibc/core/client/types"
	packettypes "github.com/teleport-network/teleport/x/xibc/core/packet/types"
	"github.com/teleport-network/teleport/x/xibc/exported"
	rt "github.com/teleport-network/teleport/zzverifrt"
)

type stubHeader struct{ h clienttypes.Height }

func (s *stubHeader) Reset()                     {}
func (s *stubHeader) String() string             { return "stubHeader" }
func (s *stubHeader) ProtoMessage()              {}
func (s *stubHeader) ClientType() string         { return exported.Tendermint }
func (s *stubHeader) GetHeight() exported.Height { return s.h }
func (s *stubHeader) ValidateBasic() error       { return nil }

// VerifC06Update: a client update is accepted only from an account authorised for exactly that chain,
// after the client's own message check (the TSS signer check) passed.
func VerifC06Update() {
	w := newXWorld(2 + rt.Tier())
	hdr, err := codectypes.NewAnyWithValue(&stubHeader{})
	rt.Assume(err == nil)
	msg := &clienttypes.MsgUpdateClient{ChainName: rt.Str("chainName"), Header: hdr, Signer: rt.Str("signer")}

	_, err = w.k.UpdateClient(sdk.WrapSDKContext(w.ctx), msg)
	if !rt.UFBool("authRelayer", msg.ChainName, msg.Signer) {
		rt.Reach("unauthorised")
		rt.Assert("G1-unauthorised-rejected-before-update", err != nil && w.updateCalls == 0)
	}
	if err != nil {
		return
	}
	rt.Reach("accepted")
	rt.Assert("G1-authorised-for-this-chain", rt.UFBool("authRelayer", msg.ChainName, msg.Signer))
	c := w.ck.find(msg.ChainName)
	rt.Assert("G1-client-exists", c != nil)
	rt.Assert("G1-client-checked-message", c.checkMsgCalls == 1 && c.checkMsgOK && rt.SameObject(c.checkedMsg, msg))
	rt.Assert("G1-updated-once", w.updateCalls == 1)
}

// VerifC06Recv: a receive is accepted only from an account registered as relayer for the packet's source chain,
// and the fee recipient recorded in the acknowledgement is the address registered for that relayer and chain.
func VerifC06Recv() {
	w := newXWorld(2 + rt.Tier())
	msg := &packettypes.MsgRecvPacket{Packet: rt.Bytes("packetBytes"), ProofCommitment: rt.Bytes("proof"),
		ProofHeight: clienttypes.Height{RevisionNumber: rt.U64("rev"), RevisionHeight: rt.U64("height")}, Signer: rt.Str("signer")}
	var p packettypes.Packet
	_ = p.ABIDecode(msg.Packet)

	_, err := w.k.RecvPacket(sdk.WrapSDKContext(w.ctx), msg)
	if err != nil {
		return
	}
	rt.Reach("accepted")
	rt.Assert("G2-relayer-registered-for-source-chain", rt.UFBool("relayerKnown", p.SrcChain, msg.Signer))
	relayer := rt.UFStr("relayerAddr", p.SrcChain, msg.Signer)
	// module calls are made as the packet module to the packet contract
	for _, c := range w.evm.calls {
		rt.Assert("G5-called-as-module", c.from == packettypes.ModuleAddress && c.to != nil && *c.to == packetcontract.PacketContractAddress)
	}
	ackHash, has := w.k.PacketKeeper.GetPacketAcknowledgement(w.ctx, p.SrcChain, p.DstChain, p.Sequence)
	if p.DstChain == w.ck.chainName {
		rt.Reach("destination")
		rt.Assert("G2-ack-written", has)
		// the acknowledgement is one of the two the handler can build, and both name the registered address
		errAck, _ := packettypes.NewAcknowledgement(1, []byte{}, "receive packet callback failed", relayer, p.FeeOption).ABIPack()
		isErr := rt.BytesEq(ackHash, sum(errAck))
		isRes := false
		if len(w.evm.rets) > 0 {
			var result packettypes.Result
			if packetcontract.PacketContract.ABI.UnpackIntoInterface(&result, "onRecvPacket", w.evm.rets[len(w.evm.rets)-1]) == nil {
				resAck, _ := packettypes.NewAcknowledgement(result.Code, result.Result, result.Message, relayer, p.FeeOption).ABIPack()
				isRes = rt.BytesEq(ackHash, sum(resAck))
			}
		}
		rt.Assert("G2-ack-names-registered-relayer-address", isErr || isRes)
	}
}

func sum(bz []byte) []byte {
	h := sha256.Sum256(bz)
	return h[:]
}

// VerifC06Ack: every module call made while processing an acknowledgement is made as the packet module; the fee is paid
// to the teleport account registered for the relayer address named in the acknowledgement.
func VerifC06Ack() {
	w := newXWorld(2 + rt.Tier())
	msg := &packettypes.MsgAcknowledgement{Packet: rt.Bytes("packetBytes"), Acknowledgement: rt.Bytes("ackBytes"), ProofAcked: rt.Bytes("proof"),
		ProofHeight: clienttypes.Height{RevisionNumber: rt.U64("rev"), RevisionHeight: rt.U64("height")}, Signer: rt.Str("signer")}
	var p packettypes.Packet
	_ = p.ABIDecode(msg.Packet)
	var ack packettypes.Acknowledgement
	_ = ack.ABIDecode(msg.Acknowledgement)
	_, err := w.k.Acknowledgement(sdk.WrapSDKContext(w.ctx), msg)
	if err != nil {
		return
	}
	rt.Reach("accepted")
	for _, c := range w.evm.calls {
		rt.Assert("G5-called-as-module", c.from == packettypes.ModuleAddress && c.to != nil && *c.to == packetcontract.PacketContractAddress)
	}
	if p.SrcChain == w.ck.chainName {
		rt.Reach("source")
		rt.Assert("G3-fee-recipient-registered", rt.UFBool("relayerOnTeleportKnown", p.DstChain, ack.Relayer))
	}
}
