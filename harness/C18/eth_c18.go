package types

// C18, type-specific initialisation of an Ethereum client, on the empty client store its callers guarantee:
// after a successful Initialize or UpgradeState the installed header is indexed under its hash and height - what
// the next header update looks its parent up by - and the main-chain entry of its state root points to it - what
// proof verification at the installed height resolves the root through.

import (
	"github.com/ethereum/go-ethereum/common"

	clienttypes "github.com/teleport-network/teleport/x/xibc/core/client/types"
	"github.com/teleport-network/teleport/x/xibc/exported"
	rt "github.com/teleport-network/teleport/zzverifrt"
)

func VerifC18InitEth() {
	rt.Override("github.com/teleport-network/teleport/x/xibc/clients/light-clients/eth/types.rlpHash", func(x interface{}) common.Hash {
		if p, ok := x.(*EthHeader); ok {
			x = *p // RLP encodes a pointer like the value it points to
		}
		return common.BytesToHash([]byte(rt.UFStr("rlpHash", x)))
	})
	ctx := rt.EmptyCtx() // Initialize runs on the empty client store of an unused (create) or cleared (toggle) chain name
	cdc := rt.Codec()
	store := ctx.KVStore(rt.StoreKey("xibc"))
	hd := Header{ParentHash: rt.BytesN("parentHash", 32), UncleHash: rt.Bytes("uncleHash"), Coinbase: rt.Bytes("coinbase"), Root: rt.Bytes("root"),
		TxHash: rt.Bytes("txHash"), ReceiptHash: rt.Bytes("receiptHash"), Bloom: rt.BytesN("bloom", 0), Difficulty: rt.Bytes("difficulty"),
		Height: clienttypes.Height{RevisionNumber: 0, RevisionHeight: rt.U64("number")}, GasLimit: rt.U64("gasLimit"), GasUsed: rt.U64("gasUsed"), Time: rt.U64("time"),
		Extra: rt.Bytes("extra"), MixDigest: rt.Bytes("mixDigest"), Nonce: rt.U64("nonce"), BaseFee: rt.Bytes("baseFee")}
	cs := ClientState{Header: hd, ChainId: rt.U64("chainID"), TrustingPeriod: rt.U64("trustingPeriod")}
	cons := &ConsensusState{Timestamp: hd.Time, Height: hd.Height, Root: hd.Root}
	var err error
	if rt.Bool("upgrade") {
		err = cs.UpgradeState(ctx, cdc, store, cons)
	} else {
		err = cs.Initialize(ctx, cdc, store, cons)
	}
	if err != nil {
		return
	}
	rt.Reach("initialised")
	n := hd.Height.RevisionHeight
	indexed := store.Get(EthHeaderIndexKey(hd.Hash(), n))
	var back exported.Header
	rt.Assert("L3-eth-installed-header-indexed", indexed != nil && cdc.UnmarshalInterface(indexed, &back) == nil && back.(*Header).Hash() == hd.Hash())
	rt.Assert("L3-eth-root-entry-points-to-installed-header", rt.BytesEq(GetHeaderIndexKeyByEthConsensusRoot(store, hd.ToEthHeader().Root, n), EthHeaderIndexKey(hd.Hash(), n)))
}
