package types

// C18, type-specific initialisation of a BSC client: a successful Initialize (and UpgradeState, if it succeeds) happens
// only for an epoch header whose seal recovers to its coinbase, and leaves the recovered signer recorded for the
// installed height and the validator list of the header's extra data as pending set - what the first update needs.

import (
	"math/big"

	"github.com/ethereum/go-ethereum/common"

	clienttypes "github.com/teleport-network/teleport/x/xibc/core/client/types"
	rt "github.com/teleport-network/teleport/zzverifrt"
)

type c18Writer struct{ written [][]byte }

func (w *c18Writer) Write(p []byte) (int, error) { w.written = append(w.written, p); return len(p), nil }

func VerifC18InitBsc() { c18InitBsc() }

func c18InitBsc() {
	rt.Opt("structured-keys")
	rt.Opt("exact-decimal")
	rt.Override("github.com/teleport-network/teleport/x/xibc/clients/light-clients/bsc/types.sealHash", func(h Header, chainId *big.Int) common.Hash {
		w := &c18Writer{}
		encodeSigHeader(w, h, chainId)
		return common.BytesToHash([]byte(rt.UFStr("sealHash", w.written[0])))
	})
	ctx := rt.EmptyCtx()
	cdc := rt.Codec()
	store := ctx.KVStore(rt.StoreKey("xibc"))
	nvals := rt.IntRange("validatorsInExtra", 1, 2)
	hd := Header{ParentHash: rt.BytesN("parentHash", 32), UncleHash: rt.Bytes("uncleHash"), Coinbase: rt.BytesN("coinbase", 20), Root: rt.Bytes("root"),
		TxHash: rt.Bytes("txHash"), ReceiptHash: rt.Bytes("receiptHash"), Bloom: rt.BytesN("bloom", 0), Difficulty: rt.Bytes("difficulty"),
		Height: clienttypes.Height{RevisionNumber: 0, RevisionHeight: rt.U64("number")}, GasLimit: rt.U64("gasLimit"), GasUsed: rt.U64("gasUsed"), Time: rt.U64("time"),
		Extra: rt.BytesN("extra", 32+20*nvals+65), MixDigest: rt.Bytes("mixDigest"), Nonce: rt.BytesN("nonce", 8)}
	rt.Assume(hd.Height.RevisionHeight <= 9000)
	cs := ClientState{Header: hd, ChainId: rt.U64("chainID"), Epoch: rt.U64("epoch"), BlockInteval: 3, TrustingPeriod: rt.U64("trustingPeriod")}
	rt.Assume(cs.Validate() == nil)
	cons := &ConsensusState{Timestamp: hd.Time, Height: hd.Height, Root: hd.Root}
	if err := cs.Initialize(ctx, cdc, store, cons); err != nil {
		return
	}
	rt.Reach("initialised")
	rt.Assert("L3-bsc-installed-at-an-epoch-block", hd.Height.RevisionHeight%cs.Epoch == 0)
	signers, err := GetRecentSigners(store)
	rt.Assert("L3-bsc-sealer-recorded-for-installed-height", err == nil && len(signers) == 1 && signers[0].Height == hd.Height && rt.BytesEq(signers[0].Validator, hd.Coinbase))
	pend := GetPendingValidators(cdc, store)
	ok := len(pend.Validators) == nvals
	for i := 0; ok && i < nvals; i++ {
		ok = rt.BytesEq(pend.Validators[i], hd.Extra[32+20*i:32+20*(i+1)])
	}
	rt.Assert("L3-bsc-pending-validators-from-the-header", ok)
}

// VerifC18UpgradeBsc: the real BSC UpgradeState on the client store it re-uses: a stale pending validator set, up to two
// recorded signers of the old head and one stored consensus state. After a successful upgrade the store is what a fresh
// Initialize would have produced for the new header: exactly one recorded signer (the sealer of the installed height) and
// the header's own validator list as pending set - so that the next epoch switch installs the announced validators.
func VerifC18UpgradeBsc() { c18UpgradeBsc() }

func c18UpgradeBsc() {
	rt.Opt("structured-keys")
	rt.Opt("exact-decimal")
	rt.Override("github.com/teleport-network/teleport/x/xibc/clients/light-clients/bsc/types.sealHash", func(h Header, chainId *big.Int) common.Hash {
		w := &c18Writer{}
		encodeSigHeader(w, h, chainId)
		return common.BytesToHash([]byte(rt.UFStr("sealHash", w.written[0])))
	})
	ctx := rt.EmptyCtx()
	cdc := rt.Codec()
	store := ctx.KVStore(rt.StoreKey("xibc"))
	// what the previous client left behind
	SetPendingValidators(store, cdc, [][]byte{rt.BytesN("stalePending", 20)})
	nOld := rt.IntRange("staleSigners", 0, 2)
	for i := 0; i < nOld; i++ {
		h := rt.U64("staleSigner.height")
		rt.Assume(h >= 1 && h <= 9) // bound: one-digit block numbers for the stale entries
		SetSigner(store, Signer{Height: clienttypes.Height{RevisionHeight: h}, Validator: rt.BytesN("staleSigner", 20)})
	}
	nvals := rt.IntRange("validatorsInExtra", 1, 2)
	hd := Header{ParentHash: rt.BytesN("parentHash", 32), UncleHash: rt.Bytes("uncleHash"), Coinbase: rt.BytesN("coinbase", 20), Root: rt.Bytes("root"),
		TxHash: rt.Bytes("txHash"), ReceiptHash: rt.Bytes("receiptHash"), Bloom: rt.BytesN("bloom", 0), Difficulty: rt.Bytes("difficulty"),
		Height: clienttypes.Height{RevisionNumber: 0, RevisionHeight: rt.U64("number")}, GasLimit: rt.U64("gasLimit"), GasUsed: rt.U64("gasUsed"), Time: rt.U64("time"),
		Extra: rt.BytesN("extra", 32+20*nvals+65), MixDigest: rt.Bytes("mixDigest"), Nonce: rt.BytesN("nonce", 8)}
	rt.Assume(hd.Height.RevisionHeight <= 9000)
	cs := ClientState{Header: hd, ChainId: rt.U64("chainID"), Epoch: rt.U64("epoch"), BlockInteval: 3, TrustingPeriod: rt.U64("trustingPeriod")}
	rt.Assume(cs.Validate() == nil)
	cons := &ConsensusState{Timestamp: hd.Time, Height: hd.Height, Root: hd.Root}
	if err := cs.UpgradeState(ctx, cdc, store, cons); err != nil {
		return
	}
	rt.Reach("upgraded")
	rt.Assert("L3-bsc-upgraded-at-an-epoch-block", hd.Height.RevisionHeight%cs.Epoch == 0)
	signers, err := GetRecentSigners(store)
	rt.Assert("L3-bsc-upgrade-records-only-the-new-sealer", err == nil && len(signers) == 1 && signers[0].Height == hd.Height && rt.BytesEq(signers[0].Validator, hd.Coinbase))
	pend := GetPendingValidators(cdc, store)
	ok := len(pend.Validators) == nvals
	for i := 0; ok && i < nvals; i++ {
		ok = rt.BytesEq(pend.Validators[i], hd.Extra[32+20*i:32+20*(i+1)])
	}
	rt.Assert("L3-bsc-upgrade-installs-the-header's-validator-list-as-pending", ok)
}
