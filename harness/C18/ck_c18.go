package keeper

import (
	"github.com/cosmos/cosmos-sdk/codec"
	codectypes "github.com/cosmos/cosmos-sdk/codec/types"
	sdk "github.com/cosmos/cosmos-sdk/types"
	paramtypes "github.com/cosmos/cosmos-sdk/x/params/types"

	tsstypes "github.com/teleport-network/teleport/x/xibc/clients/tss-client/types"
	"github.com/teleport-network/teleport/x/xibc/core/client/types"
	"github.com/teleport-network/teleport/x/xibc/core/host"
	"github.com/teleport-network/teleport/x/xibc/exported"
	rt "github.com/teleport-network/teleport/zzverifrt"
)

type lcErr struct{ s string }

func (e lcErr) Error() string { return e.s }

// a light client of arbitrary type whose type-specific set-up leaves a mark in its client store
type lcClient struct {
	ID     uint64
	CType  string
	Latest types.Height
	log    *[]string
}

func (c *lcClient) Reset()                           {}
func (c *lcClient) String() string                   { return "lcClient" }
func (c *lcClient) ProtoMessage()                    {}
func (c *lcClient) ClientType() string               { return c.CType }
func (c *lcClient) GetLatestHeight() exported.Height { return c.Latest }
func (c *lcClient) Validate() error                  { return nil }
func (c *lcClient) GetDelayTime() uint64             { return 0 }
func (c *lcClient) GetDelayBlock() uint64            { return 0 }
func (c *lcClient) GetPrefix() exported.Prefix       { return nil }
func (c *lcClient) Initialize(ctx sdk.Context, cdc codec.BinaryCodec, store sdk.KVStore, cons exported.ConsensusState) error {
	if rt.Bool("initialize-fails") {
		return lcErr{"initialize failed"}
	}
	store.Set([]byte("setUpBy"), sdk.Uint64ToBigEndian(c.ID))
	return nil
}
func (c *lcClient) UpgradeState(ctx sdk.Context, cdc codec.BinaryCodec, store sdk.KVStore, cons exported.ConsensusState) error {
	if rt.Bool("upgrade-fails") {
		return lcErr{"upgrade failed"}
	}
	store.Set([]byte("setUpBy"), sdk.Uint64ToBigEndian(c.ID))
	return nil
}
func (c *lcClient) Status(sdk.Context, sdk.KVStore, codec.BinaryCodec) exported.Status {
	if rt.Bool("client-active") {
		return exported.Active
	}
	return exported.Expired
}
func (c *lcClient) ExportMetadata(sdk.KVStore) []exported.GenesisMetadata { return nil }
func (c *lcClient) CheckMsg(sdk.Msg) error                                { return nil }
func (c *lcClient) CheckHeaderAndUpdateState(ctx sdk.Context, cdc codec.BinaryCodec, store sdk.KVStore, h exported.Header) (exported.ClientState, exported.ConsensusState, error) {
	if rt.Bool("header-rejected") {
		return nil, nil, lcErr{"header rejected"}
	}
	n := *c
	n.Latest = h.GetHeight().(types.Height)
	return &n, &lcCons{ID: rt.U64("newConsID"), CType: c.CType}, nil
}
func (c *lcClient) VerifyPacketCommitment(sdk.Context, sdk.KVStore, codec.BinaryCodec, exported.Height, []byte, string, string, uint64, []byte) error {
	return nil
}
func (c *lcClient) VerifyPacketAcknowledgement(sdk.Context, sdk.KVStore, codec.BinaryCodec, exported.Height, []byte, string, string, uint64, []byte) error {
	return nil
}

type lcCons struct {
	ID    uint64
	CType string
}

func (c *lcCons) Reset()               {}
func (c *lcCons) String() string       { return "lcCons" }
func (c *lcCons) ProtoMessage()        {}
func (c *lcCons) ClientType() string   { return c.CType }
func (c *lcCons) GetRoot() []byte      { return nil }
func (c *lcCons) GetTimestamp() uint64 { return 0 }
func (c *lcCons) ValidateBasic() error { return nil }

type lcHeader struct{ H types.Height }

func (h *lcHeader) Reset()                     {}
func (h *lcHeader) String() string             { return "lcHeader" }
func (h *lcHeader) ProtoMessage()              {}
func (h *lcHeader) ClientType() string         { return "any" }
func (h *lcHeader) GetHeight() exported.Height { return h.H }
func (h *lcHeader) ValidateBasic() error       { return nil }

var clientKinds = []string{exported.Tendermint, exported.BSC, exported.ETH, exported.TSS}

func freshClient(tag string) (*lcClient, *lcCons) {
	kind := clientKinds[rt.IntRange(tag+".type", 0, 3)]
	return &lcClient{ID: rt.U64(tag + ".id"), CType: kind, Latest: types.Height{RevisionNumber: rt.U64(tag + ".rev"), RevisionHeight: rt.U64(tag + ".height")}},
		&lcCons{ID: rt.U64(tag + ".consID"), CType: kind}
}

// the two parts of a proposal are independent values: the consensus state may be of another type than the client state
func proposalPair(tag string) (*lcClient, *lcCons) {
	c, cons := freshClient(tag)
	cons.CType = clientKinds[rt.IntRange(tag+".consensusType", 0, 3)]
	return c, cons
}

// a successful lifecycle operation installed a consensus state of the client's own type: one of another type can never be
// read by the client (no proof at the installed height verifies) and fails genesis validation of the export (finding H19)
func sameTypeInstalled(c *lcClient, cons *lcCons, tag string) {
	if cons.CType != c.CType {
		rt.Reach(tag + "-succeeded-with-a-consensus-state-of-another-type")
	}
	rt.Assert(tag+"-installed-consensus-state-is-of-the-client's-type", cons.CType == c.CType)
}

type lcWorld struct {
	ctx   sdk.Context
	k     Keeper
	chain string
	old   *lcClient
	oldC  *lcCons
}

// newLCWorld: an explicit store with zero or one installed client under an arbitrary chain name.
func newLCWorld() *lcWorld {
	w := &lcWorld{ctx: rt.EmptyCtx(), chain: rt.Str("chainName")}
	w.k = NewKeeper(rt.Codec(), rt.StoreKey(host.StoreKey), paramtypes.Subspace{}, nil)
	if rt.Bool("client-installed") {
		w.old, w.oldC = freshClient("old")
		w.k.SetClientState(w.ctx, w.chain, w.old)
		w.k.SetClientConsensusState(w.ctx, w.chain, w.old.Latest, w.oldC)
		w.k.ClientStore(w.ctx, w.chain).Set([]byte("setUpBy"), sdk.Uint64ToBigEndian(w.old.ID))
	}
	return w
}

func (w *lcWorld) setUpBy() (uint64, bool) {
	bz := w.k.ClientStore(w.ctx, w.chain).Get([]byte("setUpBy"))
	if bz == nil {
		return 0, false
	}
	return sdk.BigEndianToUint64(bz), true
}

func (w *lcWorld) installedIs(c *lcClient, cons *lcCons, tag string) {
	got, found := w.k.GetClientState(w.ctx, w.chain)
	rt.Assert(tag+"-stored-client-is-the-proposal's", found && got.(*lcClient).ID == c.ID && got.ClientType() == c.CType)
	gc, found := w.k.GetClientConsensusState(w.ctx, w.chain, c.Latest)
	if c.CType != exported.TSS {
		rt.Assert(tag+"-stored-consensus-state-is-the-proposal's", found && gc.(*lcCons).ID == cons.ID)
	}
	by, ok := w.setUpBy()
	rt.Assert(tag+"-initialised-by-the-new-client", ok && by == c.ID)
}

func proposalAnys(c *lcClient, cons *lcCons) (*codectypes.Any, *codectypes.Any) {
	a, err := codectypes.NewAnyWithValue(c)
	rt.Assume(err == nil)
	b, err := codectypes.NewAnyWithValue(cons)
	rt.Assume(err == nil)
	return a, b
}

func VerifC18Create() {
	w := newLCWorld()
	c, cons := proposalPair("new")
	a, b := proposalAnys(c, cons)
	_, err := w.k.HandleCreateClient(w.ctx, &types.CreateClientProposal{Title: "t", Description: "d", ChainName: w.chain, ClientState: a, ConsensusState: b})
	if w.old != nil {
		rt.Reach("name-in-use")
		rt.Assert("L1-used-name-rejected", err != nil)
	}
	if err != nil {
		return // rolled back by the governance cache context (assumption A-gov-atomic)
	}
	rt.Reach("created")
	sameTypeInstalled(c, cons, "L2-create")
	w.installedIs(c, cons, "L2-create")
}

func VerifC18Upgrade() {
	w := newLCWorld()
	c, cons := proposalPair("new")
	a, b := proposalAnys(c, cons)
	_, err := w.k.HandleUpgradeClient(w.ctx, &types.UpgradeClientProposal{Title: "t", Description: "d", ChainName: w.chain, ClientState: a, ConsensusState: b})
	if w.old == nil || w.old.CType != c.CType {
		rt.Reach("not-upgradable")
		rt.Assert("L1-upgrade-keeps-the-type", err != nil)
	}
	if err != nil {
		return
	}
	rt.Reach("upgraded")
	sameTypeInstalled(c, cons, "L2-upgrade")
	w.installedIs(c, cons, "L2-upgrade")
}

func VerifC18Toggle() {
	w := newLCWorld()
	c, cons := proposalPair("new")
	a, b := proposalAnys(c, cons)
	_, err := w.k.HandleToggleClient(w.ctx, &types.ToggleClientProposal{Title: "t", Description: "d", ChainName: w.chain, ClientState: a, ConsensusState: b})
	if w.old == nil || w.old.CType == c.CType {
		rt.Reach("not-togglable")
		rt.Assert("L1-toggle-changes-the-type", err != nil)
	}
	if err != nil {
		return
	}
	rt.Reach("toggled")
	sameTypeInstalled(c, cons, "L2-toggle")
	w.installedIs(c, cons, "L2-toggle")
}

func VerifC18Update() {
	w := newLCWorld()
	hdr := &lcHeader{H: types.Height{RevisionNumber: rt.U64("hdr.rev"), RevisionHeight: rt.U64("hdr.height")}}
	var err error
	if rt.NoPanic("L5-update-does-not-panic", func() { err = w.k.UpdateClient(w.ctx, w.chain, hdr) }) {
		return
	}
	if w.old == nil {
		rt.Assert("L5-unknown-client-rejected", err != nil)
		return
	}
	if err != nil {
		return
	}
	rt.Reach("updated")
	got, found := w.k.GetClientState(w.ctx, w.chain)
	rt.Assert("L5-client-advanced-to-header-height", found && got.(*lcClient).Latest == hdr.H && got.(*lcClient).ID == w.old.ID)
	_, found = w.k.GetClientConsensusState(w.ctx, w.chain, hdr.H)
	rt.Assert("L5-consensus-state-stored-at-header-height", found)
}

// VerifC18UpdateTSS: the real TSS client. An update whose header the TSS client accepts must succeed.
func VerifC18UpdateTSS() {
	rt.RegisterInterfaces(types.RegisterInterfaces)
	rt.RegisterInterfaces(tsstypes.RegisterInterfaces)
	ctx := rt.EmptyCtx()
	k := NewKeeper(rt.Codec(), rt.StoreKey(host.StoreKey), paramtypes.Subspace{}, nil)
	chain := rt.Str("chainName")
	k.SetClientState(ctx, chain, &tsstypes.ClientState{TssAddress: rt.Str("tssAddress"), Pubkey: rt.Bytes("pubkey"), Threshold: rt.U64("threshold")})
	hdr := &tsstypes.Header{TssAddress: rt.Str("hdr.tssAddress"), Pubkey: rt.Bytes("hdr.pubkey"), Threshold: rt.U64("hdr.threshold")}
	var err error
	rt.Reach("tss-update-attempted")
	if rt.NoPanic("L5-tss-update-does-not-panic", func() { err = k.UpdateClient(ctx, chain, hdr) }) {
		return
	}
	rt.Assert("L5-valid-tss-update-succeeds", err == nil)
	got, _ := k.GetClientState(ctx, chain)
	rt.Assert("L5-tss-client-takes-the-header's-key", got.(*tsstypes.ClientState).TssAddress == hdr.TssAddress)
}

// VerifC18ToggleLeavesOtherClientsUntouched: a lifecycle operation for one chain name changes nothing under any other chain
// name: two clients under arbitrary valid names of 3 and 3..4 bytes (one name may extend the other); after a successful
// toggle of the first, the second's client state, consensus state and metadata are what they were, and its name is still in
// use.
func VerifC18ToggleLeavesOtherClientsUntouched() {
	rt.Opt("structured-keys")
	ctx := rt.EmptyCtx()
	k := NewKeeper(rt.Codec(), rt.StoreKey(host.StoreKey), paramtypes.Subspace{}, nil)
	a := rt.StrN("chainA", 3)
	b := rt.StrN("chainB", 3+rt.IntRange("chainB.extraBytes", 0, 1))
	rt.Assume(host.ClientIdentifierValidator(a) == nil && host.ClientIdentifierValidator(b) == nil && a != b)
	ca, consA := freshClient("a")
	cb, consB := freshClient("b")
	k.SetClientState(ctx, a, ca)
	k.SetClientConsensusState(ctx, a, ca.Latest, consA)
	k.SetClientState(ctx, b, cb)
	k.SetClientConsensusState(ctx, b, cb.Latest, consB)
	k.ClientStore(ctx, b).Set([]byte("setUpBy"), sdk.Uint64ToBigEndian(cb.ID))
	c, cons := freshClient("new")
	pa, pb := proposalAnys(c, cons)
	_, err := k.HandleToggleClient(ctx, &types.ToggleClientProposal{Title: "t", Description: "d", ChainName: a, ClientState: pa, ConsensusState: pb})
	if err != nil {
		return
	}
	rt.Reach("toggled")
	got, found := k.GetClientState(ctx, b)
	rt.Assert("L6-other-client-state-untouched", found && got.(*lcClient).ID == cb.ID)
	gc, found := k.GetClientConsensusState(ctx, b, cb.Latest)
	rt.Assert("L6-other-consensus-state-untouched", found && gc.(*lcCons).ID == consB.ID)
	rt.Assert("L6-other-metadata-untouched", rt.BytesEq(k.ClientStore(ctx, b).Get([]byte("setUpBy")), sdk.Uint64ToBigEndian(cb.ID)))
}
