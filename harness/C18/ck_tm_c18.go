package keeper

// C18 with the real Tendermint client behind the real keeper: a chain name that held a Tendermint client, was toggled
// to TSS and is toggled back to Tendermint - possibly at a height the first incarnation already knew - ends with the
// processed time of the installed height equal to the installation block time (the instant the delay period of proofs
// at that height is counted from), with the proposal's consensus state stored there and nothing else left over.

import (
	"time"

	paramtypes "github.com/cosmos/cosmos-sdk/x/params/types"

	tmtypes "github.com/teleport-network/teleport/x/xibc/clients/light-clients/tendermint/types"
	tsstypes "github.com/teleport-network/teleport/x/xibc/clients/tss-client/types"
	"github.com/teleport-network/teleport/x/xibc/core/client/types"
	"github.com/teleport-network/teleport/x/xibc/core/host"
	rt "github.com/teleport-network/teleport/zzverifrt"
)

func c18TM(h types.Height, tag string) (*tmtypes.ClientState, *tmtypes.ConsensusState) {
	return &tmtypes.ClientState{ChainId: "chain-a-1", TrustLevel: tmtypes.Fraction{Numerator: 1, Denominator: 3}, TrustingPeriod: time.Hour, UnbondingPeriod: 2 * time.Hour,
			MaxClockDrift: time.Second, LatestHeight: h, TimeDelay: rt.U64(tag + ".timeDelay")},
		&tmtypes.ConsensusState{Timestamp: rt.Time(tag + ".time"), Root: rt.Bytes(tag + ".root"), NextValidatorsHash: rt.Bytes(tag + ".nextVals")}
}

func VerifC18ToggleBackToTendermint() {
	rt.Opt("structured-keys")
	rt.RegisterInterfaces(types.RegisterInterfaces)
	rt.RegisterInterfaces(tsstypes.RegisterInterfaces)
	rt.RegisterInterfaces(tmtypes.RegisterInterfaces)
	k := NewKeeper(rt.Codec(), rt.StoreKey(host.StoreKey), paramtypes.Subspace{}, nil)
	chain := "chain-a"
	// three blocks with arbitrary (plausible) block times
	ctx0 := rt.EmptyCtx()
	ctx1, ctx2 := ctx0.WithBlockTime(rt.Time("block1.time")), ctx0.WithBlockTime(rt.Time("block2.time"))

	h0 := types.Height{RevisionNumber: 0, RevisionHeight: rt.U64("first.height")}
	h1 := types.Height{RevisionNumber: 0, RevisionHeight: rt.U64("second.height")}
	rt.Assume(h0.RevisionHeight >= 1 && h0.RevisionHeight <= 40 && h1.RevisionHeight >= 1 && h1.RevisionHeight <= 40)
	cs0, cons0 := c18TM(h0, "first")
	rt.Assume(k.CreateClient(ctx0, chain, cs0, cons0) == nil)
	rt.Assume(k.ToggleClient(ctx1, chain, &tsstypes.ClientState{TssAddress: rt.Str("tssAddress")}, &tsstypes.ConsensusState{}) == nil)
	cs1, cons1 := c18TM(h1, "second")
	if err := k.ToggleClient(ctx2, chain, cs1, cons1); err != nil {
		return
	}
	rt.Reach("toggled-back")
	if h0 == h1 {
		rt.Reach("same-height-as-the-first-incarnation")
	}
	store := k.ClientStore(ctx2, chain)
	pt, ok := tmtypes.GetProcessedTime(store, h1)
	rt.Assert("L3-processed-time-of-installed-height-is-the-toggle-time", ok && pt == uint64(ctx2.BlockTime().UnixNano()))
	got, found := k.GetClientConsensusState(ctx2, chain, h1)
	rt.Assert("L2-consensus-state-is-the-proposal's", found && rt.BytesEq(got.GetRoot(), cons1.Root))
	gc, found := k.GetClientState(ctx2, chain)
	rt.Assert("L2-client-is-the-proposal's", found && gc.ClientType() == cs1.ClientType() && gc.GetLatestHeight().GetRevisionHeight() == h1.RevisionHeight)
}
