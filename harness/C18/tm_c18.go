package types

// C18, type-specific initialisation of a Tendermint client on the empty client store its callers guarantee: a successful
// Initialize records the installation block time as processed time of the installed height - the instant the delay
// period of proofs at that height is counted from - and its iteration key. (The toggle path with left-overs of an
// earlier client is VerifC18ToggleBackToTendermint, through the real keeper.)

import (
	"time"

	clienttypes "github.com/teleport-network/teleport/x/xibc/core/client/types"
	rt "github.com/teleport-network/teleport/zzverifrt"
)

func VerifC18InitTendermint() {
	rt.Opt("structured-keys")
	ctx := rt.EmptyCtx() // Initialize runs on the empty client store of an unused (create) or cleared (toggle) chain name
	store := ctx.KVStore(rt.StoreKey("xibc"))
	h := clienttypes.Height{RevisionNumber: rt.U64("revision"), RevisionHeight: rt.U64("height")}
	cs := ClientState{ChainId: "chain-a-1", TrustLevel: Fraction{Numerator: 1, Denominator: 3}, TrustingPeriod: time.Hour, UnbondingPeriod: 2 * time.Hour,
		MaxClockDrift: time.Second, LatestHeight: h, TimeDelay: rt.U64("timeDelay")}
	cons := &ConsensusState{Timestamp: rt.Time("cons.time"), Root: rt.Bytes("cons.root"), NextValidatorsHash: rt.Bytes("cons.nextVals")}
	if err := cs.Initialize(ctx, rt.Codec(), store, cons); err != nil {
		return
	}
	rt.Reach("initialised")
	pt, ok := GetProcessedTime(store, h)
	rt.Assert("L3-tm-processed-time-is-the-installation-time", ok && pt == uint64(ctx.BlockTime().UnixNano()))
	rt.Assert("L3-tm-iteration-key-set", GetIterationKey(store, h) != nil)
}
