package gov

import (
	"github.com/cosmos/cosmos-sdk/baseapp"

	rt "github.com/teleport-network/teleport/zzverifrt"
)

func VerifC14GovAdapterMapOrder() {
	rt.MapOrder(0)
	a := NewHookAdapter(nil, nil, &baseapp.MsgServiceRouter{})
	rt.MapOrder(1)
	b := NewHookAdapter(nil, nil, &baseapp.MsgServiceRouter{})
	rt.MapOrder(0)
	rt.Reach("built-twice")
	rt.Assert("N1-same-number-of-handlers", len(a.handlers) == len(b.handlers) && len(a.handlers) == 2)
	for _, name := range []string{"Voted", "VotedWeighted"} {
		_, ina := a.handlers[a.abi.Events[name].ID]
		_, inb := b.handlers[b.abi.Events[name].ID]
		rt.Assert("N1-every-event-has-a-handler-in-both-orders", ina && inb)
	}
}
