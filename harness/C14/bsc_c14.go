package types

import (
	"github.com/cosmos/cosmos-sdk/store/prefix"
	sdk "github.com/cosmos/cosmos-sdk/types"

	"github.com/teleport-network/teleport/x/xibc/core/host"
	rt "github.com/teleport-network/teleport/zzverifrt"
)

// VerifC14BscSealMapOrder (2-safety): the seal check ranges over the map of recent signers; its verdict and the signer it
// records must not depend on the iteration order. Same inputs, two different orders, compared.
func VerifC14BscSealMapOrder() {
	w := newBscWorld(bscCfg{name: "c14", minVals: 2, maxVals: 3, epochs: []uint64{200}, maxPending: 1, maxRecents: 2, extraLens: []int{97}})
	hdr := freshBscHeader("new", 97)
	rt.Assume(hdr.ValidateBasic() == nil)
	rt.Assume(hdr.Height.RevisionHeight == w.cs.Header.Height.RevisionHeight+1) // the seal check runs after the parent check
	cdc := rt.Codec()
	run := func(order int) (bool, []byte) {
		cctx, _ := w.ctx.CacheContext()
		store := prefix.NewStore(cctx.KVStore(rt.StoreKey(host.StoreKey)), []byte("clients/chain-b/"))
		rt.MapOrder(order)
		cs := w.cs
		err := verifySeal(cdc, store, &cs, hdr)
		rt.MapOrder(0)
		return err == nil, store.Get(keyRecentSinger(Signer{Height: hdr.Height}))
	}
	ok1, s1 := run(0)
	ok2, s2 := run(1)
	rt.Reach("both-orders-ran")
	rt.Assert("N1-seal-verdict-independent-of-map-order", ok1 == ok2)
	rt.Assert("N1-recorded-signer-independent-of-map-order", (s1 == nil) == (s2 == nil) && (s1 == nil || rt.BytesEq(s1, s2)))
}

// VerifC14BscValidatorsMapOrder: the sorted validator list (and hence whose turn it is) does not depend on map order.
func VerifC14BscValidatorsMapOrder() {
	w := newBscWorld(bscCfg{name: "c14v", minVals: 2, maxVals: 3, epochs: []uint64{200}, maxPending: 1, maxRecents: 0, extraLens: []int{97}})
	cdc := rt.Codec()
	snap, err := w.cs.snapshot(cdc, w.store)
	rt.Assume(err == nil)
	rt.MapOrder(0)
	a := snap.validators()
	rt.MapOrder(1)
	b := snap.validators()
	rt.MapOrder(0)
	rt.Reach("sorted-twice")
	same := len(a) == len(b)
	if same {
		for i := range a {
			same = same && a[i] == b[i]
		}
	}
	rt.Assert("N1-validator-order-independent-of-map-order", same)
}

var _ sdk.Context

// VerifC14BscUpdateIndependentOfTheNode (2-safety): the verdict of a BSC header update and the head it installs are a
// function of the state, the block's context and the header - not of the executing node's wall clock or anything else it
// reads from its environment. The same update is executed twice on the same state (the environment answers independently
// each time: every time.Now() is a fresh instant) and compared.
func VerifC14BscUpdateIndependentOfTheNode() {
	w := newBscWorld(bscCfg{name: "c14clock", minVals: 2, maxVals: 2, epochs: []uint64{200}, maxPending: 1, maxRecents: 1, extraLens: []int{97}})
	hdr := freshBscHeader("new", 97)
	cdc := rt.Codec()
	run := func() (bool, uint64) {
		cctx, _ := w.ctx.CacheContext()
		store := prefix.NewStore(cctx.KVStore(rt.StoreKey(host.StoreKey)), []byte("clients/chain-b/"))
		cs := w.cs
		h := hdr
		ncs, _, err := cs.CheckHeaderAndUpdateState(cctx, cdc, store, &h)
		if err != nil {
			return false, 0
		}
		return true, ncs.GetLatestHeight().GetRevisionHeight()
	}
	ok1, h1 := run()
	ok2, h2 := run()
	rt.Reach("ran-on-two-nodes")
	if ok1 {
		rt.Reach("accepted-on-the-first-node")
	}
	rt.Assert("N5-same-verdict-and-head-on-every-node", ok1 == ok2 && h1 == h2)
}
