package staking

import (
	"github.com/cosmos/cosmos-sdk/baseapp"
	stakingkeeper "github.com/cosmos/cosmos-sdk/x/staking/keeper"

	rt "github.com/teleport-network/teleport/zzverifrt"
)

// VerifC14StakingAdapterMapOrder: the topic -> handler table is built by ranging over the ABI's event map; the table must
// not depend on the iteration order.
func VerifC14StakingAdapterMapOrder() {
	rt.MapOrder(0)
	a := NewHookAdapter(nil, &stakingkeeper.Keeper{}, nil, &baseapp.MsgServiceRouter{})
	rt.MapOrder(1)
	b := NewHookAdapter(nil, &stakingkeeper.Keeper{}, nil, &baseapp.MsgServiceRouter{})
	rt.MapOrder(0)
	rt.Reach("built-twice")
	rt.Assert("N1-same-number-of-handlers", len(a.handlers) == len(b.handlers) && len(a.handlers) == 4)
	for _, name := range []string{"Delegated", "Undelegated", "Redelegated", "Withdrew"} {
		id := a.abi.Events[name].ID
		_, ina := a.handlers[id]
		_, inb := b.handlers[b.abi.Events[name].ID]
		rt.Assert("N1-every-event-has-a-handler-in-both-orders", ina && inb)
	}
}
