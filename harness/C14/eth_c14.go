package types

import (
	ethtypes "github.com/ethereum/go-ethereum/core/types"

	rt "github.com/teleport-network/teleport/zzverifrt"
)

type c14Err struct{}

func (c14Err) Error() string { return "seal invalid" }

// VerifC14EthashEnvironment (2-safety): the proof-of-work check builds its cache in a directory of the node's local file
// system. The ethash engine (vendored) is a deterministic function of the header when it is given a FRESH PRIVATE
// directory (ioutil.TempDir / os.MkdirTemp: nothing in it); in any other directory it may find cache dumps left by
// earlier runs or other processes and use them as they are, so there its verdict is a function of the header AND of
// whatever that directory holds on this node. Every environment answer (directory names, failures, directory content)
// is arbitrary and independent in the two runs; the verdict must be the same.
func VerifC14EthashEnvironment() {
	fresh := map[string]bool{}
	tempDirFailed := []bool{}
	rt.Override("io/ioutil.TempDir", func(dir, pattern string) (string, error) {
		if rt.Bool("env: creating the temporary directory fails") {
			tempDirFailed = append(tempDirFailed, true)
			return "", c14Err{}
		}
		tempDirFailed = append(tempDirFailed, false)
		name := rt.Str("env: name of the new private directory")
		fresh[name] = true
		return name, nil
	})
	cacheDir := ""
	rt.Override("github.com/teleport-network/teleport/x/xibc/clients/light-clients/eth/types.New", func(config Config, notify []string, noverify bool) *Ethash {
		cacheDir = config.CacheDir
		return &Ethash{}
	})
	rt.Override("(*github.com/teleport-network/teleport/x/xibc/clients/light-clients/eth/types.Ethash).Close", func(e *Ethash) error { return nil })
	rt.Override("(*github.com/teleport-network/teleport/x/xibc/clients/light-clients/eth/types.Ethash).VerifySeal", func(e *Ethash, h *ethtypes.Header, fulldag bool) error {
		content := "" // a fresh private directory is empty
		if !fresh[cacheDir] {
			content = rt.Str("env: what the cache directory already holds on this node")
		}
		if rt.UFBool("ethashValid", h.ParentHash, h.Coinbase, h.Root, h.Number, h.Difficulty, h.Time, h.Extra, h.MixDigest, h.Nonce, content) {
			return nil
		}
		return c14Err{}
	})
	hdr := freshEthHeader("hdr")
	r1 := VerifyCascadingFields(hdr)
	r2 := VerifyCascadingFields(hdr)
	rt.Reach("ran-twice")
	// the recorded finding: creating the private directory fails on one node and not on the other
	failed := func(i int) bool { return i < len(tempDirFailed) && tempDirFailed[i] }
	rt.Known("H10-ethash-verdict-depends-on-tempdir", failed(0) != failed(1))
	rt.Assert("N2-verdict-independent-of-the-local-filesystem", (r1 == nil) == (r2 == nil))
}
