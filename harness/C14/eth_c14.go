package types

import (
	"math/big"

	ethtypes "github.com/ethereum/go-ethereum/core/types"

	clienttypes "github.com/teleport-network/teleport/x/xibc/core/client/types"
	rt "github.com/teleport-network/teleport/zzverifrt"
)

type c14Err struct{}

func (c14Err) Error() string { return "seal invalid" }

// VerifC14EthashEnvironment (2-safety): the proof-of-work check builds its cache in a directory of the node's local file
// system. The ethash engine (vendored) is a deterministic function of the header when it is given a FRESH PRIVATE
// directory (ioutil.TempDir / os.MkdirTemp: nothing in it); in any other directory it may find cache dumps left by
// earlier runs or other processes and use them as they are, so there its verdict is a function of the header AND of
// whatever that directory holds on this node. Every environment answer (directory names, failures, directory content)
// is arbitrary and independent in the two runs; the verdict must be the same.
func VerifC14EthashEnvironment() {
	fresh := map[string]bool{}
	tempDirFailed := []bool{}
	rt.Override("io/ioutil.TempDir", func(dir, pattern string) (string, error) {
		if rt.Bool("env: creating the temporary directory fails") {
			tempDirFailed = append(tempDirFailed, true)
			return "", c14Err{}
		}
		tempDirFailed = append(tempDirFailed, false)
		name := rt.Str("env: name of the new private directory")
		fresh[name] = true
		return name, nil
	})
	cacheDir := ""
	rt.Override("github.com/teleport-network/teleport/x/xibc/clients/light-clients/eth/types.New", func(config Config, notify []string, noverify bool) *Ethash {
		cacheDir = config.CacheDir
		return &Ethash{}
	})
	rt.Override("(*github.com/teleport-network/teleport/x/xibc/clients/light-clients/eth/types.Ethash).Close", func(e *Ethash) error { return nil })
	rt.Override("(*github.com/teleport-network/teleport/x/xibc/clients/light-clients/eth/types.Ethash).VerifySeal", func(e *Ethash, h *ethtypes.Header, fulldag bool) error {
		content := "" // a fresh private directory is empty
		if !fresh[cacheDir] {
			content = rt.Str("env: what the cache directory already holds on this node")
		}
		if rt.UFBool("ethashValid", h.ParentHash, h.Coinbase, h.Root, h.Number, h.Difficulty, h.Time, h.Extra, h.MixDigest, h.Nonce, content) {
			return nil
		}
		return c14Err{}
	})
	hdr := freshEthHeader("hdr")
	r1 := VerifyCascadingFields(hdr)
	r2 := VerifyCascadingFields(hdr)
	rt.Reach("ran-twice")
	// the recorded finding: creating the private directory fails on one node and not on the other
	failed := func(i int) bool { return i < len(tempDirFailed) && tempDirFailed[i] }
	rt.Known("H10-ethash-verdict-depends-on-tempdir", failed(0) != failed(1))
	rt.Assert("N2-verdict-independent-of-the-local-filesystem", (r1 == nil) == (r2 == nil))
}

// VerifC14DifficultyIndependentOfEarlierEvaluations (2-safety over one process's history): the expected difficulty of a header
// is a function of the header's time and its parent - evaluating the same question again after another header was evaluated
// in between gives the same answer. The solver's witness for "a slow header (>= 909 s after its parent) in between" is also
// run natively: the encoding gives big integers value semantics, so a computation that writes through a shared *big.Int
// (a package-level constant) can only be seen on the real code.
func VerifC14DifficultyIndependentOfEarlierEvaluations() {
	calc := makeDifficultyCalculator(big.NewInt(9700000))
	// only the gap of the header evaluated in between is symbolic (integer division of several symbolic operands is beyond the
	// solver budget, and the other values do not matter here)
	pt, fastGap := uint64(1600000000), uint64(5)
	slowGap := rt.U64("slow.gap")
	rt.Assume(slowGap >= 1 && slowGap <= 5000)
	parent := &Header{Height: clienttypes.Height{RevisionHeight: 1000}, Time: pt, Difficulty: big.NewInt(2000000).Bytes(), UncleHash: ethtypes.EmptyUncleHash.Bytes()}
	d1 := calc(pt+fastGap, parent)
	_ = calc(pt+slowGap, parent)
	d3 := calc(pt+fastGap, parent)
	rt.Reach("evaluated-three-times")
	if slowGap >= 909 {
		rt.Reach("a-slow-header-in-between")
	}
	rt.Assert("N6-difficulty-is-a-function-of-its-arguments", d1.Cmp(d3) == 0)
}
