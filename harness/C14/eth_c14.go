package types

import (
	ethtypes "github.com/ethereum/go-ethereum/core/types"

	rt "github.com/teleport-network/teleport/zzverifrt"
)

type c14Err struct{}

func (c14Err) Error() string { return "seal invalid" }

// VerifC14EthashEnvironment (2-safety): the proof-of-work check builds its cache in a fresh temporary directory; its
// verdict for a given header must not depend on what the local file system answers.
func VerifC14EthashEnvironment() {
	rt.Override("github.com/teleport-network/teleport/x/xibc/clients/light-clients/eth/types.New", func(config Config, notify []string, noverify bool) *Ethash { return &Ethash{} })
	rt.Override("(*github.com/teleport-network/teleport/x/xibc/clients/light-clients/eth/types.Ethash).Close", func(e *Ethash) error { return nil })
	rt.Override("(*github.com/teleport-network/teleport/x/xibc/clients/light-clients/eth/types.Ethash).VerifySeal", func(e *Ethash, h *ethtypes.Header, fulldag bool) error {
		// a deterministic function of the header (the ethash algorithm itself is the vendored dependency)
		if rt.UFBool("ethashValid", h.ParentHash, h.Coinbase, h.Root, h.Number, h.Difficulty, h.Time, h.Extra, h.MixDigest, h.Nonce) {
			return nil
		}
		return c14Err{}
	})
	hdr := freshEthHeader("hdr")
	r1 := VerifyCascadingFields(hdr) // every environment answer is arbitrary, independently in the two runs
	r2 := VerifyCascadingFields(hdr)
	rt.Reach("ran-twice")
	rt.Known("H10-ethash-verdict-depends-on-tempdir", true)
	rt.Assert("N2-verdict-independent-of-the-local-filesystem", (r1 == nil) == (r2 == nil))
}
