package rvesting

import (
	sdk "github.com/cosmos/cosmos-sdk/types"

	"github.com/teleport-network/teleport/x/rvesting/keeper"
	"github.com/teleport-network/teleport/x/rvesting/types"
	rt "github.com/teleport-network/teleport/zzverifrt"
)

// VerifC14BeginBlockerClock (2-safety): BeginBlocker reads the wall clock (time.Now, for telemetry); what it does to the
// bank must not depend on it. Same parameters and pool, two runs with independent clock readings, compared.
func VerifC14BeginBlockerClock() {
	denom := rt.StrN("denom", 3)
	rt.Assume(sdk.ValidateDenom(denom) == nil)
	reward := sdk.Coins{sdk.Coin{Denom: denom, Amount: anyInt("rewardAmount")}}
	rt.Assume(!reward[0].Amount.IsNegative())
	params := types.Params{EnableVesting: rt.Bool("enabled"), PerBlockReward: reward}
	pool := anyInt("pool")
	rt.Assume(!pool.IsNegative())
	run := func() (int, sdk.Int) {
		ctx := rt.Ctx()
		bank := &stubBank{pool: []sdk.Coin{{Denom: denom, Amount: pool}}}
		k := keeper.NewKeeper(rt.Subspace(), bank, stubAccounts{}, "fee_collector")
		k.SetParams(ctx, params)
		BeginBlocker(ctx, k)
		moved := sdk.ZeroInt()
		for _, c := range bank.moved {
			moved = moved.Add(c.Amount)
		}
		return bank.sends, moved
	}
	s1, m1 := run()
	s2, m2 := run()
	rt.Reach("ran-twice")
	rt.Assert("N2-effects-independent-of-the-wall-clock", s1 == s2 && m1.Equal(m2))
}
