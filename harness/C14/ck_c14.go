package keeper

import (
	"encoding/json"

	codectypes "github.com/cosmos/cosmos-sdk/codec/types"
	sdk "github.com/cosmos/cosmos-sdk/types"
	paramtypes "github.com/cosmos/cosmos-sdk/x/params/types"
	"github.com/gogo/protobuf/proto"

	packettypes "github.com/teleport-network/teleport/x/xibc/core/packet/types"

	"github.com/teleport-network/teleport/x/xibc/core/client/types"
	"github.com/teleport-network/teleport/x/xibc/core/host"
	rt "github.com/teleport-network/teleport/zzverifrt"
)

// VerifC14NodeLocalReads (2-safety): two node processes hold the same committed state and execute the same read in the
// same block; one of them has answered node-local reads before (a query, a simulation, CheckTx, an earlier block before a
// restart of the other). What the block's context observes - the answer and the store accesses its gas meter is charged
// for - must be the same on both, i.e. a keeper keeps nothing in process memory that changes how a later block executes.
func VerifC14NodeLocalReads() {
	rt.Opt("structured-keys")
	rt.RegisterInterfaces(types.RegisterInterfaces)
	name := rt.StrN("chainName", 3)
	chain := "chain-a"
	relayer := sdk.AccAddress(rt.BytesN("relayer", 20)).String() // a registered relayer has a bech32 account address
	which := rt.IntRange("read", 0, 3)
	registered, counterparty := rt.Bool("relayer-registered"), rt.Str("relayer.counterparty")
	node := func(answeredLocalReadsBefore bool) (string, bool, uint64) {
		k := NewKeeper(rt.Codec(), rt.StoreKey(host.StoreKey), paramtypes.Subspace{}, nil) // one process
		block := rt.EmptyCtx()                                                             // the committed state, as loaded from disk
		store := block.KVStore(rt.StoreKey(host.StoreKey))
		store.Set([]byte(types.KeyClientName), []byte(name))
		if registered {
			k.RegisterRelayers(block, relayer, []string{chain}, []string{counterparty})
		}
		before := rt.StoreAccesses(block, host.StoreKey)
		read := func() (string, bool) {
			switch which {
			case 0:
				return k.GetChainName(block), true
			case 1:
				return "", k.AuthRelayer(block, chain, relayer)
			case 2:
				a, ok := k.GetRelayerAddressOnOtherChain(block, chain, relayer)
				return a, ok
			default:
				_, ok := k.GetClientState(block, chain)
				return "", ok
			}
		}
		if answeredLocalReadsBefore {
			local, _ := block.CacheContext() // a query / simulation context over the same state, discarded afterwards
			_ = k.GetChainName(local)
			k.AuthRelayer(local, chain, relayer)
			k.GetRelayerAddressOnOtherChain(local, chain, relayer)
			k.GetClientState(local, chain)
			before = rt.StoreAccesses(block, host.StoreKey)
		}
		s, ok := read()
		return s, ok, rt.StoreAccesses(block, host.StoreKey) - before
	}
	s1, ok1, n1 := node(false)
	s2, ok2, n2 := node(true)
	rt.Reach("both-nodes-executed")
	rt.Assert("N3-same-answer-on-both-nodes", s1 == s2 && ok1 == ok2)
	rt.Assert("N3-same-store-accesses-charged-on-both-nodes", n1 == n2)
}

// VerifC14TypedEventAttributeOrder (2-safety): teleport emits its events with EventManager.EmitTypedEvent (24 call sites in
// the state machine). The cosmos-sdk version /repo builds against converts a typed event by marshalling it to JSON,
// unmarshalling that into a map and ranging over the map: the real conversion function is executed twice, with two map
// iteration orders, on an event with two fields (marshalling and JSON parsing are stubs that return the same two fields
// both times); the attribute lists must be the same.
func VerifC14TypedEventAttributeOrder() {
	rt.Override("github.com/cosmos/cosmos-sdk/codec.ProtoMarshalJSON", func(msg proto.Message, r codectypes.InterfaceRegistry) ([]byte, error) {
		return []byte(`{"src_chain":"a","sequence":"1"}`), nil
	})
	rt.Override("encoding/json.Unmarshal", func(data []byte, v interface{}) error {
		m := v.(*map[string]json.RawMessage)
		*m = map[string]json.RawMessage{"src_chain": json.RawMessage(`"a"`), "sequence": json.RawMessage(`"1"`)}
		return nil
	})
	rt.Override("github.com/gogo/protobuf/proto.MessageName", func(proto.Message) string { return "teleport.xibc.core.packet.v1.EventSendPacket" })
	ev := &packettypes.EventSendPacket{SrcChain: "a", Sequence: "1"}
	rt.MapOrder(0)
	a, errA := sdk.TypedEventToEvent(ev)
	rt.MapOrder(1)
	b, errB := sdk.TypedEventToEvent(ev)
	rt.MapOrder(0)
	rt.Assume(errA == nil && errB == nil)
	rt.Reach("converted-twice")
	same := len(a.Attributes) == len(b.Attributes)
	for i := 0; same && i < len(a.Attributes); i++ {
		same = string(a.Attributes[i].Key) == string(b.Attributes[i].Key)
	}
	rt.Known("H16-typed-event-attribute-order-follows-map-iteration", len(a.Attributes) >= 2)
	rt.Assert("N4-typed-event-attributes-in-the-same-order-on-every-node", same)
}
