package keeper

import (
	paramtypes "github.com/cosmos/cosmos-sdk/x/params/types"

	"github.com/teleport-network/teleport/x/xibc/core/client/types"
	"github.com/teleport-network/teleport/x/xibc/core/host"
	rt "github.com/teleport-network/teleport/zzverifrt"
)

// VerifC14NodeLocalReads (2-safety): two node processes hold the same committed state and execute the same read in the
// same block; one of them has answered node-local reads before (a query, a simulation, CheckTx, an earlier block before a
// restart of the other). What the block's context observes - the answer and the store accesses its gas meter is charged
// for - must be the same on both, i.e. a keeper keeps nothing in process memory that changes how a later block executes.
func VerifC14NodeLocalReads() {
	rt.Opt("structured-keys")
	rt.RegisterInterfaces(types.RegisterInterfaces)
	name := rt.StrN("chainName", 3)
	chain := "chain-a"
	relayer := rt.Str("relayer")
	which := rt.IntRange("read", 0, 3)
	registered, counterparty := rt.Bool("relayer-registered"), rt.Str("relayer.counterparty")
	node := func(answeredLocalReadsBefore bool) (string, bool, uint64) {
		k := NewKeeper(rt.Codec(), rt.StoreKey(host.StoreKey), paramtypes.Subspace{}, nil) // one process
		block := rt.EmptyCtx()                                                             // the committed state, as loaded from disk
		store := block.KVStore(rt.StoreKey(host.StoreKey))
		store.Set([]byte(types.KeyClientName), []byte(name))
		if registered {
			k.RegisterRelayers(block, relayer, []string{chain}, []string{counterparty})
		}
		before := rt.StoreAccesses(block, host.StoreKey)
		read := func() (string, bool) {
			switch which {
			case 0:
				return k.GetChainName(block), true
			case 1:
				return "", k.AuthRelayer(block, chain, relayer)
			case 2:
				a, ok := k.GetRelayerAddressOnOtherChain(block, chain, relayer)
				return a, ok
			default:
				_, ok := k.GetClientState(block, chain)
				return "", ok
			}
		}
		if answeredLocalReadsBefore {
			local, _ := block.CacheContext() // a query / simulation context over the same state, discarded afterwards
			_ = k.GetChainName(local)
			k.AuthRelayer(local, chain, relayer)
			k.GetRelayerAddressOnOtherChain(local, chain, relayer)
			k.GetClientState(local, chain)
			before = rt.StoreAccesses(block, host.StoreKey)
		}
		s, ok := read()
		return s, ok, rt.StoreAccesses(block, host.StoreKey) - before
	}
	s1, ok1, n1 := node(false)
	s2, ok2, n2 := node(true)
	rt.Reach("both-nodes-executed")
	rt.Assert("N3-same-answer-on-both-nodes", s1 == s2 && ok1 == ok2)
	rt.Assert("N3-same-store-accesses-charged-on-both-nodes", n1 == n2)
}
