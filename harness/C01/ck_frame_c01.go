package keeper

import (
	sdk "github.com/cosmos/cosmos-sdk/types"
	codectypes "github.com/cosmos/cosmos-sdk/codec/types"
	paramtypes "github.com/cosmos/cosmos-sdk/x/params/types"

	"github.com/teleport-network/teleport/x/xibc/core/client/types"
	"github.com/teleport-network/teleport/x/xibc/core/host"
	rt "github.com/teleport-network/teleport/zzverifrt"
)

// VerifC01ReceiptsSurviveClientLifecycle: the inductive step of C01 (VerifC01RecvStep) relies on receipts and
// acknowledgements never being removed. The client keeper shares the xibc store with the packet keeper, so this is the frame
// condition for its state-changing operations: whatever create / upgrade / toggle / update / relayer registration does for a
// chain, the receipt, acknowledgement, commitment and send counter recorded for any triple - also one that names that very
// chain - are still there afterwards, unchanged.
func VerifC01ReceiptsSurviveClientLifecycle() {
	rt.Opt("structured-keys")
	ctx := rt.EmptyCtx()
	storeKey := rt.StoreKey(host.StoreKey)
	k := NewKeeper(rt.Codec(), storeKey, paramtypes.Subspace{}, nil)
	names := []string{"chain-a", "chain-b", "teleport"}
	chain := names[rt.IntRange("chainName", 0, 1)]
	src, dst := names[rt.IntRange("packet.src", 0, 2)], names[rt.IntRange("packet.dst", 0, 2)]
	seq := rt.U64("packet.seq")
	if rt.Bool("client-installed") {
		old, oldC := freshClient("old")
		k.SetClientState(ctx, chain, old)
		k.SetClientConsensusState(ctx, chain, old.Latest, oldC)
	}
	store := ctx.KVStore(storeKey)
	receipt, ack, commitment := []byte{1}, rt.BytesN("ackHash", 32), rt.BytesN("commitment", 32)
	store.Set(host.PacketReceiptKey(src, dst, seq), receipt)
	store.Set(host.PacketAcknowledgementKey(src, dst, seq), ack)
	store.Set(host.PacketCommitmentKey(src, dst, seq), commitment)
	store.Set(host.NextSequenceSendKey(src, dst), []byte{0, 0, 0, 0, 0, 0, 0, 7})

	c, cons := freshClient("new")
	a, b := proposalAnys(c, cons)
	var err error
	switch rt.IntRange("operation", 0, 4) {
	case 0:
		_, err = k.HandleCreateClient(ctx, &types.CreateClientProposal{Title: "t", Description: "d", ChainName: chain, ClientState: a, ConsensusState: b})
	case 1:
		_, err = k.HandleUpgradeClient(ctx, &types.UpgradeClientProposal{Title: "t", Description: "d", ChainName: chain, ClientState: a, ConsensusState: b})
	case 2:
		_, err = k.HandleToggleClient(ctx, &types.ToggleClientProposal{Title: "t", Description: "d", ChainName: chain, ClientState: a, ConsensusState: b})
		if err == nil {
			rt.Reach("toggled")
		}
	case 3:
		err = k.UpdateClient(ctx, chain, &lcHeader{H: types.Height{RevisionNumber: rt.U64("hdr.rev"), RevisionHeight: rt.U64("hdr.height")}})
	case 4:
		k.RegisterRelayers(ctx, sdk.AccAddress(rt.BytesN("relayer", 20)).String(), []string{chain}, []string{rt.Str("relayer.counterparty")}) // a registered relayer has a bech32 address
	}
	if err != nil {
		return // rolled back as a whole
	}
	rt.Reach("operation-done")
	rt.Assert("O6-receipt-survives-client-lifecycle", rt.BytesEq(store.Get(host.PacketReceiptKey(src, dst, seq)), receipt))
	rt.Assert("O6-acknowledgement-survives-client-lifecycle", rt.BytesEq(store.Get(host.PacketAcknowledgementKey(src, dst, seq)), ack))
	rt.Assert("O6-commitment-survives-client-lifecycle", rt.BytesEq(store.Get(host.PacketCommitmentKey(src, dst, seq)), commitment))
	rt.Assert("O6-send-counter-survives-client-lifecycle", rt.BytesEq(store.Get(host.NextSequenceSendKey(src, dst)), []byte{0, 0, 0, 0, 0, 0, 0, 7}))
}

var _ codectypes.Any
