package keeper

import (
	sdk "github.com/cosmos/cosmos-sdk/types"

	clienttypes "github.com/teleport-network/teleport/x/xibc/core/client/types"
	packettypes "github.com/teleport-network/teleport/x/xibc/core/packet/types"
	rt "github.com/teleport-network/teleport/zzverifrt"
)

// VerifC01MsgServer: the whole MsgRecvPacket handler. Whatever path it takes (delivered, callback failed, relayed on,
// unknown destination), a message that succeeds leaves the receipt of the decoded triple in the transaction's state,
// and a second message for the same triple - other bytes, proof, height, signer - is then rejected.
func VerifC01MsgServer() {
	w := newXWorld(2 + rt.Tier())
	msg := &packettypes.MsgRecvPacket{Packet: rt.Bytes("packetBytes"), ProofCommitment: rt.Bytes("proof"),
		ProofHeight: clienttypes.Height{RevisionNumber: rt.U64("rev"), RevisionHeight: rt.U64("height")}, Signer: rt.Str("signer")}
	var p packettypes.Packet
	_ = p.ABIDecode(msg.Packet)
	_, had := w.k.PacketKeeper.GetPacketReceipt(w.ctx, p.SrcChain, p.DstChain, p.Sequence)

	_, err := w.k.RecvPacket(sdk.WrapSDKContext(w.ctx), msg)
	if had {
		rt.Reach("duplicate")
		rt.Assert("O4-duplicate-rejected-by-the-handler", err != nil)
	}
	if err != nil {
		return
	}
	rt.Reach("accepted")
	rt.Assert("O4-receipt-committed-with-the-message", w.k.PacketKeeper.HasPacketReceipt(w.ctx, p.SrcChain, p.DstChain, p.Sequence))
	msg2 := &packettypes.MsgRecvPacket{Packet: rt.Bytes("packetBytes2"), ProofCommitment: rt.Bytes("proof2"),
		ProofHeight: clienttypes.Height{RevisionNumber: rt.U64("rev2"), RevisionHeight: rt.U64("height2")}, Signer: rt.Str("signer2")}
	var p2 packettypes.Packet
	e2 := p2.ABIDecode(msg2.Packet)
	rt.Assume(e2 == nil && p2.SrcChain == p.SrcChain && p2.DstChain == p.DstChain && p2.Sequence == p.Sequence)
	calls := len(w.evm.calls)
	_, err2 := w.k.RecvPacket(sdk.WrapSDKContext(w.ctx), msg2)
	rt.Assert("O5-second-receive-of-the-triple-rejected", err2 != nil)
	rt.Assert("O5-no-second-callback", len(w.evm.calls) == calls)
}
