package keeper

import (
	clienttypes "github.com/teleport-network/teleport/x/xibc/core/client/types"
	"github.com/teleport-network/teleport/x/xibc/core/packet/types"
	rt "github.com/teleport-network/teleport/zzverifrt"
)

// VerifC01RecvStep: one RecvPacket from an arbitrary store.
//   O1 a receipt already present for the decoded triple => error and nothing written
//   O2 nil => the receipt was absent before and is present afterwards under the decoded triple
func VerifC01RecvStep() {
	w := newWorld(2 + rt.Tier())
	msg := &types.MsgRecvPacket{Packet: rt.Bytes("packetBytes"), ProofCommitment: rt.Bytes("proof"),
		ProofHeight: clienttypes.Height{RevisionNumber: rt.U64("rev"), RevisionHeight: rt.U64("height")}, Signer: rt.Str("signer")}
	var decoded types.Packet
	decErr := decoded.ABIDecode(msg.Packet)
	_, had := w.k.GetPacketReceipt(w.ctx, decoded.SrcChain, decoded.DstChain, decoded.Sequence)

	err := w.k.RecvPacket(w.ctx, msg)

	if had && (decErr == nil || decoded.Sequence != 0) {
		rt.Reach("duplicate")
		rt.Assert("O1-duplicate-rejected", err != nil)
	}
	if err != nil {
		rt.Reach("rejected") // rolled back by baseapp (assumption A-atomic)
	} else {
		rt.Reach("accepted")
		rt.Assert("O2-receipt-absent-before", !had)
		_, has := w.k.GetPacketReceipt(w.ctx, decoded.SrcChain, decoded.DstChain, decoded.Sequence)
		rt.Assert("O2-receipt-present-after", has)
	}
}

// VerifC01TwoMessages: two different messages (bytes, proof, height, signer all unrelated) that decode to the same
// triple: after the first is accepted the second is rejected (exactly-once across re-encodings).
func VerifC01TwoMessages() {
	w := newWorld(2 + rt.Tier())
	m1 := &types.MsgRecvPacket{Packet: rt.Bytes("packetBytes1"), ProofCommitment: rt.Bytes("proof1"),
		ProofHeight: clienttypes.Height{RevisionNumber: rt.U64("rev1"), RevisionHeight: rt.U64("height1")}, Signer: rt.Str("signer1")}
	m2 := &types.MsgRecvPacket{Packet: rt.Bytes("packetBytes2"), ProofCommitment: rt.Bytes("proof2"),
		ProofHeight: clienttypes.Height{RevisionNumber: rt.U64("rev2"), RevisionHeight: rt.U64("height2")}, Signer: rt.Str("signer2")}
	var p1, p2 types.Packet
	e1 := p1.ABIDecode(m1.Packet)
	e2 := p2.ABIDecode(m2.Packet)
	rt.Assume(e1 == nil && e2 == nil)
	rt.Assume(p1.SrcChain == p2.SrcChain && p1.DstChain == p2.DstChain && p1.Sequence == p2.Sequence)
	if w.k.RecvPacket(w.ctx, m1) == nil {
		rt.Reach("first-accepted")
		rt.Assert("O5-second-rejected", w.k.RecvPacket(w.ctx, m2) != nil)
	}
}

// VerifC01ReceiptsSurvivePacketOps: the frame condition of the inductive step for the packet keeper's own operations: from
// an arbitrary store that holds a receipt and an acknowledgement for an arbitrary triple T, one receive / send /
// acknowledgement-write / acknowledgement-processing with arbitrary arguments (also for T itself) never removes or
// overwrites them.
func VerifC01ReceiptsSurvivePacketOps() {
	w := newWorld(2)
	src, dst, seq := rt.Str("T.src"), rt.Str("T.dst"), rt.U64("T.seq")
	_, hadReceipt := w.k.GetPacketReceipt(w.ctx, src, dst, seq)
	ackBefore, hadAck := w.k.GetPacketAcknowledgement(w.ctx, src, dst, seq)
	rt.Assume(hadReceipt && hadAck)
	height := clienttypes.Height{RevisionNumber: rt.U64("rev"), RevisionHeight: rt.U64("height")}
	var err error
	switch rt.IntRange("operation", 0, 3) {
	case 0:
		err = w.k.RecvPacket(w.ctx, &types.MsgRecvPacket{Packet: rt.Bytes("packetBytes"), ProofCommitment: rt.Bytes("proof"), ProofHeight: height, Signer: rt.Str("signer")})
	case 1:
		var p types.Packet
		rt.Assume(p.ABIDecode(rt.Bytes("sentPacketBytes")) == nil)
		err = w.k.SendPacket(w.ctx, &p)
		// invariant I1 (used below): a commitment is only ever stored for a packet whose source is this chain
		rt.Assert("I1-commitments-only-for-own-sends", err != nil || p.SrcChain == w.ck.chainName)
	case 2:
		var p types.Packet
		rt.Assume(p.ABIDecode(rt.Bytes("receivedPacketBytes")) == nil)
		err = w.k.WriteAcknowledgement(w.ctx, &p, rt.Bytes("ackBytes"))
	case 3:
		// pre-state invariant I1: SendPacket is the only writer of commitments and stores them for own sends only
		var acked types.Packet
		pb := rt.Bytes("ackedPacketBytes")
		if acked.ABIDecode(pb) == nil && w.k.HasPacketCommitment(w.ctx, acked.SrcChain, acked.DstChain, acked.Sequence) {
			rt.Assume(acked.SrcChain == w.ck.chainName)
		}
		err = w.k.AcknowledgePacket(w.ctx, &types.MsgAcknowledgement{Packet: pb, Acknowledgement: rt.Bytes("ackBytes"), ProofAcked: rt.Bytes("proof"), ProofHeight: height, Signer: rt.Str("signer")})
	}
	if err != nil {
		return
	}
	rt.Reach("operation-done")
	_, has := w.k.GetPacketReceipt(w.ctx, src, dst, seq)
	rt.Assert("O7-receipt-survives-packet-operations", has)
	ackAfter, hasAck := w.k.GetPacketAcknowledgement(w.ctx, src, dst, seq)
	rt.Assert("O7-acknowledgement-survives-packet-operations", hasAck && rt.BytesEq(ackAfter, ackBefore))
}
