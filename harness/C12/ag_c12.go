package keeper

import (
	"context"

	sdk "github.com/cosmos/cosmos-sdk/types"
	banktypes "github.com/cosmos/cosmos-sdk/x/bank/types"
	"github.com/ethereum/go-ethereum/common"
	"github.com/ethereum/go-ethereum/core"
	"github.com/ethereum/go-ethereum/core/vm"
	"github.com/tharsis/ethermint/x/evm/statedb"
	evmtypes "github.com/tharsis/ethermint/x/evm/types"

	"github.com/teleport-network/teleport/x/aggregate/types"
	rt "github.com/teleport-network/teleport/zzverifrt"
)

type stubErr struct{ s string }

func (e stubErr) Error() string { return e.s }

// ---- collaborators: arbitrary but deterministic answers ----

type regBank struct{ metaSets int }

func (b *regBank) SendCoinsFromModuleToAccount(sdk.Context, string, sdk.AccAddress, sdk.Coins) error {
	return nil
}
func (b *regBank) SendCoinsFromAccountToModule(sdk.Context, sdk.AccAddress, string, sdk.Coins) error {
	return nil
}
func (b *regBank) MintCoins(sdk.Context, string, sdk.Coins) error { return nil }
func (b *regBank) BurnCoins(sdk.Context, string, sdk.Coins) error { return nil }
func (b *regBank) IsSendEnabledCoin(ctx sdk.Context, c sdk.Coin) bool {
	return rt.UFBool("sendEnabled", c.Denom)
}
func (b *regBank) BlockedAddr(a sdk.AccAddress) bool { return rt.UFBool("blocked", []byte(a)) }
func (b *regBank) GetDenomMetaData(ctx sdk.Context, denom string) (banktypes.Metadata, bool) {
	if !rt.UFBool("hasMetadata", denom) {
		return banktypes.Metadata{}, false
	}
	var m banktypes.Metadata
	rt.Fresh(&m, "storedMetadata")
	return m, true
}
func (b *regBank) SetDenomMetaData(ctx sdk.Context, m banktypes.Metadata) { b.metaSets++ }
func (b *regBank) HasSupply(ctx sdk.Context, denom string) bool            { return rt.UFBool("hasSupply", denom) }
func (b *regBank) GetBalance(ctx sdk.Context, a sdk.AccAddress, d string) sdk.Coin {
	return sdk.Coin{Denom: d, Amount: sdk.ZeroInt()}
}

type regEVM struct{ evmDenom string }

func (e *regEVM) GetParams(ctx sdk.Context) evmtypes.Params { return evmtypes.Params{EvmDenom: e.evmDenom} }
func (e *regEVM) GetAccountWithoutBalance(ctx sdk.Context, addr common.Address) *statedb.Account {
	return nil
}
func (e *regEVM) EstimateGas(context.Context, *evmtypes.EthCallRequest) (*evmtypes.EstimateGasResponse, error) {
	return nil, nil
}
func (e *regEVM) ApplyMessage(sdk.Context, core.Message, vm.EVMLogger, bool) (*evmtypes.MsgEthereumTxResponse, error) {
	return nil, stubErr{"unexpected EVM call"}
}

// ---- registry model ----

type reg struct {
	ctx   sdk.Context
	k     *Keeper
	pairs []types.TokenPair
}

func freshAddr(tag string) common.Address { return common.BytesToAddress(rt.BytesN(tag, 20)) }

// newRegistry builds a consistent registry with up to maxPairs pairs of 1..2 denominations each, through the keeper's own setters.
func newRegistry(maxPairs int) *reg {
	r := &reg{ctx: rt.EmptyCtx()}
	r.k = NewKeeper(rt.StoreKey(types.StoreKey), rt.Codec(), rt.Subspace(), nil, &regBank{}, &regEVM{evmDenom: rt.Str("evmDenom")})
	r.k.SetParams(r.ctx, types.Params{EnableAggregate: true, EnableEVMHook: true})
	n := rt.IntRange("npairs", 0, maxPairs)
	for i := 0; i < n; i++ {
		addr := freshAddr("pairAddr")
		nd := 1
		if i == 0 {
			nd = rt.IntRange("ndenoms", 1, 2) // the first pair may list two denominations
		}
		var denoms []string
		for j := 0; j < nd; j++ {
			denoms = append(denoms, rt.Str("pairDenom"))
		}
		owner := types.Owner(rt.U32("owner"))
		rt.Assume(owner == types.OWNER_MODULE || owner == types.OWNER_EXTERNAL)
		p := types.NewTokenPair(addr, denoms, rt.Bool("pairEnabled"), owner)
		// no sharing: addresses and denominations are pairwise distinct
		for _, q := range r.pairs {
			rt.Assume(q.GetERC20Contract() != addr)
			for _, d := range q.Denoms {
				for _, e := range denoms {
					rt.Assume(d != e)
				}
			}
		}
		if nd == 2 {
			rt.Assume(denoms[0] != denoms[1])
		}
		for _, d := range denoms {
			rt.Assume(d != "") // invariant: a registered denomination passed the metadata validation of its proposal (never empty)
		}
		r.k.SetTokenPair(r.ctx, p)
		r.k.SetDenomsMap(r.ctx, p.Denoms, p.GetID())
		r.k.SetERC20Map(r.ctx, p.GetERC20Contract(), p.GetID())
		r.pairs = append(r.pairs, p)
	}
	return r
}

func lists(p types.TokenPair, denom string) bool {
	for _, d := range p.Denoms {
		if d == denom {
			return true
		}
	}
	return false
}

// consistentFor checks the registry from the point of view of one arbitrary denomination and one arbitrary address
// (both solver variables, so the check covers every entry): an index entry points to a stored pair that lists it,
// and a stored pair reached one way is reached the other ways too.
func (r *reg) consistentFor(tag string, denom string, addr common.Address) {
	if id := r.k.GetDenomMap(r.ctx, denom); len(id) != 0 {
		p, found := r.k.GetTokenPair(r.ctx, id)
		rt.Assert(tag+"-denom-entry-points-to-stored-pair", found)
		if found {
			rt.Assert(tag+"-pair-lists-the-denomination", lists(p, denom))
			rt.Assert(tag+"-pair-id-matches", rt.BytesEq(p.GetID(), id))
			rt.Assert(tag+"-pair-found-by-its-address", rt.BytesEq(r.k.GetERC20Map(r.ctx, p.GetERC20Contract()), id))
			for _, d := range p.Denoms {
				rt.Assert(tag+"-pair-found-by-each-denomination", rt.BytesEq(r.k.GetDenomMap(r.ctx, d), id))
				// ... also through the lookup the conversions and proposals use (token = denomination or contract address)
				// (a denomination that has the form of a hex address - 40 hex digits - is read as a contract address by
				// GetTokenPairID; such denominations are outside this claim, see checks.json)
				if !common.IsHexAddress(d) {
					rt.Assert(tag+"-lookup-by-denomination-finds-the-pair", rt.BytesEq(r.k.GetTokenPairID(r.ctx, d), id))
				}
			}
			rt.Assert(tag+"-lookup-by-contract-finds-the-pair", rt.BytesEq(r.k.GetTokenPairID(r.ctx, p.ERC20Address), id))
		}
	}
	if id := r.k.GetERC20Map(r.ctx, addr); len(id) != 0 {
		p, found := r.k.GetTokenPair(r.ctx, id)
		rt.Assert(tag+"-address-entry-points-to-stored-pair", found)
		if found {
			rt.Assert(tag+"-pair-has-the-address", p.GetERC20Contract() == addr)
			for _, d := range p.Denoms {
				rt.Assert(tag+"-pair-found-by-each-denomination", rt.BytesEq(r.k.GetDenomMap(r.ctx, d), id))
			}
		}
	}
}

// convertible: a coin of this denomination finds its pair (the registry part of MintingEnabled).
func (r *reg) convertible(denom string) bool {
	if common.IsHexAddress(denom) {
		return false // outside the claim (see consistentFor)
	}
	id := r.k.GetTokenPairID(r.ctx, denom)
	if len(id) == 0 {
		return false
	}
	p, found := r.k.GetTokenPair(r.ctx, id)
	return found && lists(p, denom)
}

func freshMetadata() banktypes.Metadata {
	m := freshMetadataAny()
	rt.Assume(m.Base != "") // the proposal's ValidateBasic runs Metadata.Validate: the base is a valid, hence non-empty, denomination
	return m
}

func freshMetadataAny() banktypes.Metadata {
	return banktypes.Metadata{Description: rt.Str("md.Description"), Base: rt.Str("md.Base"), Display: rt.Str("md.Display"), Name: rt.Str("md.Name"), Symbol: rt.Str("md.Symbol"),
		DenomUnits: []*banktypes.DenomUnit{{Denom: rt.Str("md.unit"), Exponent: rt.U32("md.exponent")}}}
}

func (r *reg) stubContracts() {
	rt.Override("(github.com/teleport-network/teleport/x/aggregate/keeper.Keeper).DeployERC20Contract", func(_ Keeper, _ sdk.Context, m banktypes.Metadata) (common.Address, error) {
		if rt.Bool("deploy-fails") {
			return common.Address{}, stubErr{"deploy failed"}
		}
		a := freshAddr("deployedAddr")
		// a freshly created contract address collides with no registered contract
		for _, p := range r.pairs {
			rt.Assume(p.GetERC20Contract() != a)
		}
		return a, nil
	})
	rt.Override("(github.com/teleport-network/teleport/x/aggregate/keeper.Keeper).QueryERC20", func(_ Keeper, _ sdk.Context, c common.Address) (types.ERC20Data, error) {
		if rt.Bool("query-fails") {
			return types.ERC20Data{}, stubErr{"query failed"}
		}
		return types.ERC20Data{Name: rt.Str("erc20Name"), Symbol: rt.Str("erc20Symbol"), Decimals: rt.U8("erc20Decimals")}, nil
	})
	rt.Abstract("(github.com/cosmos/cosmos-sdk/x/bank/types.Metadata).Validate")
	// whether the bank already holds equal metadata is irrelevant to the registry: arbitrary outcome
	rt.Override("(github.com/teleport-network/teleport/x/aggregate/keeper.Keeper).verifyMetadata", func(_ Keeper, _ sdk.Context, m banktypes.Metadata) error {
		if rt.Bool("metadata-mismatch") {
			return stubErr{"metadata mismatch"}
		}
		return nil
	})
}

func (r *reg) probeAndAct(tag string, act func() bool) {
	denom, addr := rt.Str("probeDenom"), freshAddr("probeAddr")
	was := r.convertible(denom)
	if !act() {
		return
	}
	rt.Reach(tag + "-done")
	r.consistentFor(tag, denom, addr)
	if was {
		rt.Reach(tag + "-was-convertible")
		rt.Assert(tag+"-still-convertible", r.convertible(denom))
	}
}

// VerifC12PreState: sanity of the harness itself - the registry it constructs is consistent.
func VerifC12PreState() {
	r := newRegistry(2)
	rt.Reach("built")
	r.consistentFor("pre", rt.Str("probeDenom"), freshAddr("probeAddr"))
}

func VerifC12RegisterCoin() {
	r := newRegistry(2)
	r.stubContracts()
	m := freshMetadata()
	taken := false
	for _, p := range r.pairs {
		taken = taken || lists(p, m.Base)
	}
	rt.Known("H7-register-coin-checks-name-not-base", taken)
	r.probeAndAct("register-coin", func() bool { _, err := r.k.RegisterCoin(r.ctx, m); return err == nil })
}

func VerifC12AddCoin() {
	r := newRegistry(2)
	r.stubContracts()
	m := freshMetadata()
	taken := false
	for _, p := range r.pairs {
		taken = taken || lists(p, m.Base)
	}
	rt.Known("H7-add-coin-checks-name-not-base", taken)
	contract := freshAddr("targetAddr").Hex()
	r.probeAndAct("add-coin", func() bool { _, err := r.k.AddCoin(r.ctx, m, contract); return err == nil })
}

func VerifC12RegisterERC20() {
	r := newRegistry(2)
	r.stubContracts()
	c := freshAddr("newContract")
	r.probeAndAct("register-erc20", func() bool { _, err := r.k.RegisterERC20(r.ctx, c); return err == nil })
}

func VerifC12Toggle() {
	r := newRegistry(2)
	tok := rt.Str("token")
	r.probeAndAct("toggle", func() bool { _, err := r.k.ToggleRelay(r.ctx, tok); return err == nil })
}

func VerifC12UpdateERC20() {
	r := newRegistry(1 + rt.Tier())
	r.stubContracts()
	old, nw := freshAddr("oldAddr"), freshAddr("newAddr")
	// the replacement contract may be any address, the pair's own included (a degenerate update); an address that belongs
	// to ANOTHER pair is the subject of VerifC12UpdateERC20Collision (kept apart so that the costs add)
	for _, p := range r.pairs {
		rt.Assume(p.GetERC20Contract() != nw || p.GetERC20Contract() == old)
	}
	if nw == old {
		rt.Reach("update-to-the-same-address")
	}
	multi := false
	for _, p := range r.pairs {
		if p.GetERC20Contract() == old && len(p.Denoms) > 1 {
			multi = true
		}
	}
	rt.Known("H6-update-erc20-drops-extra-denominations", multi)
	r.probeAndAct("update-erc20", func() bool { _, err := r.k.UpdateTokenPairERC20(r.ctx, old, nw); return err == nil })
}

// VerifC12UpdateERC20Collision: two registered pairs; an update of one pair's contract to the address of the other
// must leave the registry consistent (no two pairs share an address).
func VerifC12UpdateERC20Collision() {
	r := newRegistry(2)
	if len(r.pairs) < 2 {
		return
	}
	r.stubContracts()
	old, nw := r.pairs[0].GetERC20Contract(), r.pairs[1].GetERC20Contract()
	if rt.Bool("second-to-first") {
		old, nw = nw, old
	}
	rt.Reach("collision-attempted")
	r.probeAndAct("update-erc20", func() bool { _, err := r.k.UpdateTokenPairERC20(r.ctx, old, nw); return err == nil })
}

func VerifC12Delete() {
	r := newRegistry(2)
	if len(r.pairs) == 0 {
		return
	}
	victim := r.pairs[rt.IntRange("victim", 0, len(r.pairs)-1)]
	denom, addr := rt.Str("probeDenom"), freshAddr("probeAddr")
	was := r.convertible(denom)
	r.k.DeleteTokenPair(r.ctx, victim)
	rt.Reach("delete-done")
	r.consistentFor("delete", denom, addr)
	if was && !lists(victim, denom) {
		rt.Assert("delete-others-still-convertible", r.convertible(denom))
	}
	for _, d := range victim.Denoms {
		rt.Assert("delete-removes-every-denomination-entry", len(r.k.GetDenomMap(r.ctx, d)) == 0)
	}
	rt.Assert("delete-removes-address-entry", len(r.k.GetERC20Map(r.ctx, victim.GetERC20Contract())) == 0)
}
