package aggregate

// VerifC12RegistryAcrossGenesis (shared with the C13 check): a consistent registry exported and imported into a fresh store
// is consistent again - every pair is found by its contract and by each of its denominations after the round trip.
func VerifC12RegistryAcrossGenesis() { c13AggregateGenesis() }
