package aggregate

import (
	sdk "github.com/cosmos/cosmos-sdk/types"
	authkeeper "github.com/cosmos/cosmos-sdk/x/auth/keeper"
	authtypes "github.com/cosmos/cosmos-sdk/x/auth/types"

	"github.com/teleport-network/teleport/x/aggregate/keeper"
	"github.com/teleport-network/teleport/x/aggregate/types"
	rt "github.com/teleport-network/teleport/zzverifrt"
)

// VerifC12RegistryAcrossGenesis (shared with the C13 check): a consistent registry exported and imported into a fresh store
// is consistent again - every pair is found by its contract and by each of its denominations after the round trip.
func VerifC12RegistryAcrossGenesis() { c13AggregateGenesis() }

// VerifC12ValidatedGenesisImportIsConsistent: the registry a fresh chain starts with. A genesis state is written by hand or
// by another tool, so the contract address of a pair is ANY spelling the module's own validation accepts (not only the
// checksummed one the proposals write) and the pairs are any list it accepts. After InitGenesis of a validated state with
// one or two pairs, every pair is found by its contract and by each of its denominations, the record it is found under is
// that pair, and no contract or denomination leads to another pair.
func VerifC12ValidatedGenesisImportIsConsistent() { c12ValidatedGenesis() }

func c12ValidatedGenesis() {
	rt.Override("(github.com/cosmos/cosmos-sdk/x/auth/keeper.AccountKeeper).GetModuleAccount", func(_ authkeeper.AccountKeeper, _ sdk.Context, name string) authtypes.ModuleAccountI {
		return &authtypes.ModuleAccount{Name: name}
	})
	k := keeper.NewKeeper(rt.StoreKey(types.StoreKey), rt.Codec(), rt.Subspace(), nil, nil, nil)
	n := rt.IntRange("pairs", 1, 2)
	var pairs []types.TokenPair
	for i := 0; i < n; i++ {
		var denoms []string // a genesis file may list a pair without any denomination: validation has to refuse it
		for j, nd := 0, rt.IntRange("ndenoms", 0, 2); j < nd; j++ {
			denoms = append(denoms, rt.Str("denom"))
		}
		addr := rt.Str("erc20Address")
		rt.Assume(len(addr) == 42) // bound: 0x-prefixed spellings (any letter case); the 40-digit spelling without prefix is outside
		pairs = append(pairs, types.TokenPair{ERC20Address: addr, Denoms: denoms, Enabled: rt.Bool("pairEnabled"), ContractOwner: types.Owner(rt.U32("owner"))})
	}
	gs := types.GenesisState{Params: types.Params{EnableAggregate: rt.Bool("enableAggregate"), EnableEVMHook: rt.Bool("enableEVMHook")}, TokenPairs: pairs}
	var verr error
	if rt.Panics(func() { verr = gs.Validate() }) {
		return // a validation that panics does not accept the state
	}
	rt.Assume(verr == nil)
	dst := rt.EmptyCtx()
	if rt.NoPanic("R6-validated-genesis-is-imported-without-panic", func() { InitGenesis(dst, *k, authkeeper.AccountKeeper{}, gs) }) {
		return
	}
	rt.Reach("imported")
	if n == 2 {
		rt.Reach("two-pairs")
	}
	for _, pair := range pairs {
		contract := pair.GetERC20Contract()
		id := k.GetERC20Map(dst, contract)
		rt.Assert("R6-pair-found-by-its-contract", id != nil)
		got, found := k.GetTokenPair(dst, id)
		rt.Assert("R6-contract-entry-points-to-an-existing-pair", found)
		same := found && got.GetERC20Contract() == contract && len(got.Denoms) == len(pair.Denoms)
		for j := 0; same && j < len(pair.Denoms); j++ {
			same = got.Denoms[j] == pair.Denoms[j]
		}
		rt.Assert("R6-that-pair-is-the-genesis-pair", same)
		for _, d := range pair.Denoms {
			did := k.GetDenomMap(dst, d)
			rt.Assert("R6-pair-found-by-each-denomination", did != nil && rt.BytesEq(did, id))
		}
	}
}
