package types

// Shared with the C18 check: the first validator-set switch after a client is created, toggled or upgraded installs the
// list the trusted epoch header itself announces - Initialize / UpgradeState record that list as the pending set (and the
// header's sealer as the only recent signer).
func VerifC09InitialPendingSet()       { c18InitBsc() }
func VerifC09PendingSetAfterUpgrade() { c18UpgradeBsc() }
