package types

import (
	"bytes"
	"math/big"

	"github.com/cosmos/cosmos-sdk/store/prefix"
	sdk "github.com/cosmos/cosmos-sdk/types"
	"github.com/ethereum/go-ethereum/common"

	clienttypes "github.com/teleport-network/teleport/x/xibc/core/client/types"
	"github.com/teleport-network/teleport/x/xibc/core/host"
	rt "github.com/teleport-network/teleport/zzverifrt"
)

type hashWriter struct{ written [][]byte }

func (w *hashWriter) Write(p []byte) (int, error) { w.written = append(w.written, p); return len(p), nil }

func stubBscHashing() {
	rt.Override("github.com/teleport-network/teleport/x/xibc/clients/light-clients/bsc/types.rlpHash", func(x interface{}) common.Hash {
		return common.BytesToHash([]byte(rt.UFStr("rlpHash", x)))
	})
	rt.Override("github.com/teleport-network/teleport/x/xibc/clients/light-clients/bsc/types.sealHash", func(h Header, chainId *big.Int) common.Hash {
		w := &hashWriter{}
		encodeSigHeader(w, h, chainId) // the real field list of the signed pre-image
		return common.BytesToHash([]byte(rt.UFStr("sealHash", w.written[0])))
	})
}

type bscWorld struct {
	ctx   sdk.Context
	store sdk.KVStore
	cs    ClientState
	vals  []common.Address
	rec   map[uint64]common.Address
}

func freshBscHeader(tag string, extraLen int) Header {
	return Header{ParentHash: rt.BytesN(tag+".parentHash", 32), UncleHash: rt.Bytes(tag + ".uncleHash"), Coinbase: rt.BytesN(tag+".coinbase", 20), Root: rt.Bytes(tag + ".root"),
		TxHash: rt.Bytes(tag + ".txHash"), ReceiptHash: rt.Bytes(tag + ".receiptHash"), Bloom: rt.BytesN(tag+".bloom", 0), Difficulty: rt.Bytes(tag + ".difficulty"),
		Height: clienttypes.Height{RevisionNumber: 0, RevisionHeight: rt.U64(tag + ".number")}, GasLimit: rt.U64(tag + ".gasLimit"), GasUsed: rt.U64(tag + ".gasUsed"), Time: rt.U64(tag + ".time"),
		Extra: rt.BytesN(tag+".extra", extraLen), MixDigest: rt.Bytes(tag + ".mixDigest"), Nonce: rt.BytesN(tag+".nonce", 8)}
}

// newBscWorld: a BSC client at an arbitrary head with N validators and up to N recorded recent signers.
type bscCfg struct {
	name             string
	minVals, maxVals int
	epochs           []uint64
	maxPending       int
	maxRecents       int
	extraLens        []int
	minHead, maxHead uint64 // 0: head block numbers 1..8
}

func newBscWorld(cfg bscCfg) *bscWorld {
	rt.Opt("structured-keys")
	rt.Opt("exact-decimal")
	stubBscHashing()
	w := &bscWorld{ctx: rt.EmptyCtx(), rec: map[uint64]common.Address{}}
	w.store = prefix.NewStore(w.ctx.KVStore(rt.StoreKey(host.StoreKey)), []byte("clients/chain-b/"))
	n := rt.IntRange("validators", cfg.minVals, cfg.maxVals)
	var vbytes [][]byte
	for i := 0; i < n; i++ {
		a := common.BytesToAddress(rt.BytesN("validator", 20))
		for _, o := range w.vals {
			rt.Assume(bytes.Compare(o[:], a[:]) < 0) // distinct, listed in ascending order (the client uses them as a set)
		}
		w.vals = append(w.vals, a)
		vbytes = append(vbytes, a.Bytes())
	}
	head := freshBscHeader("head", 97)
	maxHead := uint64(8)
	if cfg.maxHead != 0 {
		maxHead = cfg.maxHead
	}
	minHead := uint64(1)
	if cfg.minHead != 0 {
		minHead = cfg.minHead
	}
	rt.Assume(head.Height.RevisionHeight >= minHead && head.Height.RevisionHeight <= maxHead) // bound on block numbers (one decimal digit in signer keys)
	epoch := cfg.epochs[rt.IntRange("epochChoice", 0, len(cfg.epochs)-1)]
	w.cs = ClientState{Header: head, ChainId: rt.U64("chainID"), Epoch: epoch, BlockInteval: 3, Validators: vbytes, TrustingPeriod: rt.U64("trustingPeriod")}
	cdc := rt.Codec()
	w.store.Set(host.ConsensusStateKey(head.Height), clienttypes.MustMarshalConsensusState(cdc, &ConsensusState{Timestamp: head.Time, Height: head.Height, Root: head.Root}))
	// nothing expires (pruning is exercised in the Tendermint check)
	rt.Assume(head.Time < 1<<40 && w.cs.TrustingPeriod < 1<<40 && head.Time+w.cs.TrustingPeriod >= uint64(w.ctx.BlockTime().Unix()))
	// recent signers: heights at or below the head, distinct
	// the pending set recorded by Initialize / the last epoch block (always present on an initialised client)
	var pending [][]byte
	np := rt.IntRange("pendingValidators", 1, cfg.maxPending)
	for i := 0; i < np; i++ {
		pv := rt.BytesN("pendingValidator", 20)
		for _, o := range pending {
			rt.Assume(!bytes.Equal(o, pv)) // an epoch header lists each validator once
		}
		pending = append(pending, pv)
	}
	SetPendingValidators(w.store, cdc, pending)
	k := rt.IntRange("recents", 0, cfg.maxRecents)
	for i := 0; i < k; i++ {
		h := rt.U64("recent.height")
		rt.Assume(h >= 1 && h <= head.Height.RevisionHeight)
		if cfg.minHead > 1 {
			rt.Assume(h+4 > head.Height.RevisionHeight) // high block numbers: only entries near the window (older ones are pruned)
		}
		if _, dup := w.rec[h]; dup {
			rt.Assume(false)
		}
		who := common.BytesToAddress(rt.BytesN("recent.signer", 20))
		w.rec[h] = who
		SetSigner(w.store, Signer{Height: clienttypes.Height{RevisionHeight: h}, Validator: who.Bytes()})
	}
	return w
}

func sortedVals(vs []common.Address) []common.Address {
	out := append([]common.Address(nil), vs...)
	for i := 1; i < len(out); i++ {
		for j := i; j > 0 && bytes.Compare(out[j][:], out[j-1][:]) < 0; j-- {
			out[j], out[j-1] = out[j-1], out[j]
		}
	}
	return out
}

// Three sweeps of the same check (same code, same assertions) over different slices of the configuration space, so that
// their costs add instead of multiplying.

// VerifC09Seal: validator sets of 2..3 (thorough 4) with up to 2 (thorough 3) recent signers, ordinary (non-epoch) blocks.
func VerifC09Seal() {
	c09Header(bscCfg{name: "seal", minVals: 2, maxVals: 3 + rt.Tier(), epochs: []uint64{200}, maxPending: 1, maxRecents: 1 + 2*rt.Tier(), extraLens: []int{97}})
}

// VerifC09SealYoungChain: four validators (window of 3) at head 1..2 with one recent signer: the first blocks of a chain, where
// the window reaches below block 0 (the recorded finding H9 lives here and nowhere else).
func VerifC09SealYoungChain() {
	c09Header(bscCfg{name: "young", minVals: 4, maxVals: 4, epochs: []uint64{200}, maxPending: 1, maxRecents: 1, extraLens: []int{97}, maxHead: 2})
}

// VerifC09SealDecimalBoundary: four validators at heads 8..11 with one recent signer: block numbers whose decimal rendering
// in the recent-signer keys changes length (9 -> 10), where numeric order and key order differ.
func VerifC09SealDecimalBoundary() {
	c09Header(bscCfg{name: "decimal", minVals: 4, maxVals: 4, epochs: []uint64{200}, maxPending: 1, maxRecents: 1, extraLens: []int{97}, minHead: 8, maxHead: 11})
}

// VerifC09Structure: extra-data shapes against epoch / non-epoch blocks.
func VerifC09Structure() {
	c09Header(bscCfg{name: "structure", minVals: 2, maxVals: 2, epochs: []uint64{2, 3, 200}, maxPending: 1, maxRecents: 0, extraLens: []int{96, 97, 98, 117, 118, 137}})
}

// VerifC09Epoch: epoch blocks carrying 0..2 addresses and the delayed validator-set switch.
func VerifC09Epoch() {
	c09Header(bscCfg{name: "epoch", minVals: 2, maxVals: 2 + rt.Tier(), epochs: []uint64{2, 3}[:1+rt.Tier()], maxPending: 2, maxRecents: 0, extraLens: []int{97, 117, 137}})
}

// VerifC09Recents: the recorded recent signers across the delayed validator-set switch, with growing and shrinking sets.
func VerifC09Recents() {
	c09Header(bscCfg{name: "recents", minVals: 2, maxVals: 2 + rt.Tier(), epochs: []uint64{2}, maxPending: 4, maxRecents: 1 + rt.Tier(), extraLens: []int{97}})
}

func c09Header(cfg bscCfg) {
	w := newBscWorld(cfg)
	cdc := rt.Codec()
	extraLen := cfg.extraLens[rt.IntRange("extraLenChoice", 0, len(cfg.extraLens)-1)]
	hdr := freshBscHeader("new", extraLen)
	head := w.cs.Header
	n := len(w.vals)

	newCS, newCons, err := w.cs.CheckHeaderAndUpdateState(w.ctx, cdc, w.store, &hdr)
	if err != nil {
		rt.Reach("rejected")
		return
	}
	rt.Reach("accepted")
	number := hdr.Height.RevisionHeight
	rt.Assert("B1-direct-child-of-head", number == head.Height.RevisionHeight+1 && common.BytesToHash(hdr.ParentHash) == head.Hash())
	isEpoch := number%w.cs.Epoch == 0
	rt.Assert("B2-extra-data-shape", extraLen >= 97 && (isEpoch && (extraLen-97)%20 == 0 || !isEpoch && extraLen == 97))
	rt.Assert("B2-zero-mix-digest-and-no-uncles", common.BytesToHash(hdr.MixDigest) == (common.Hash{}) && common.BytesToHash(hdr.UncleHash) == uncleHash)
	diff := int64(head.GasLimit) - int64(hdr.GasLimit)
	if diff < 0 {
		diff = -diff
	}
	rt.Assert("B2-gas-bounds", hdr.GasLimit <= 0x7fffffffffffffff && hdr.GasUsed <= hdr.GasLimit && uint64(diff) < head.GasLimit/256 && hdr.GasLimit >= 5000)
	// the seal: recovered signer is the coinbase, a current validator, not among the last floor(N/2) signers
	signer, e := ecrecover(hdr, big.NewInt(int64(w.cs.ChainId)))
	rt.Assert("B3-sealed-by-coinbase", e == nil && signer == common.BytesToAddress(hdr.Coinbase))
	isVal := false
	for _, v := range w.vals {
		isVal = isVal || v == signer
	}
	rt.Assert("B3-signer-is-a-validator", isVal)
	limit := uint64(n/2 + 1)
	for h, who := range w.rec {
		if who == signer {
			// recently signed means: within the last limit-1 blocks, in mathematical integers
			recent := h+limit > number
			rt.Known("H9-recents-window-wraps-below-limit", number < limit)
			rt.Assert("B3-not-a-recent-signer", !recent)
		}
	}
	sv := sortedVals(w.vals)
	inturn := sv[(head.Height.RevisionHeight+1)%uint64(n)] == signer
	d := new(big.Int).SetBytes(hdr.Difficulty)
	if inturn {
		rt.Reach(cfg.name + "-in-turn")
		rt.Assert("B4-in-turn-difficulty", d.Cmp(big.NewInt(2)) == 0)
	} else {
		rt.Reach(cfg.name + "-out-of-turn")
		rt.Assert("B4-out-of-turn-difficulty", d.Cmp(big.NewInt(1)) == 0)
	}
	// the update
	ncs := newCS.(*ClientState)
	c := newCons.(*ConsensusState)
	rt.Assert("B5-consensus-state-is-the-header's", c.Timestamp == hdr.Time && c.Height == hdr.Height && rt.BytesEq(c.Root, hdr.Root))
	rt.Assert("B5-becomes-head", ncs.Header.Hash() == hdr.Hash())
	if isEpoch {
		rt.Reach(cfg.name + "-epoch-block")
		pv := GetPendingValidators(cdc, w.store).Validators
		want, _ := ParseValidators(hdr.Extra)
		same := len(pv) == len(want)
		if same {
			for i := range pv {
				same = same && bytes.Equal(pv[i], want[i])
			}
		}
		rt.Assert("B6-pending-set-is-the-epoch-header's-list", same)
	}
	// B7: which recorded signers are forgotten: exactly the one leaving the (new) window, plus on a shrinking switch the
	// ones between the old and the new window; everything else stays
	limitOld, limitNew := n/2+1, len(ncs.Validators)/2+1
	for h := range w.rec {
		if h == number {
			continue
		}
		forgotten := number >= uint64(limitNew) && h == number-uint64(limitNew)
		if number%w.cs.Epoch == uint64(n/2) && limitNew < limitOld {
			for i := 0; i < limitOld-limitNew; i++ {
				forgotten = forgotten || h+uint64(limitNew)+uint64(i) == number
			}
		}
		present := w.store.Get(keyRecentSinger(Signer{Height: clienttypes.Height{RevisionHeight: h}})) != nil
		rt.Assert("B7-recent-signers-forgotten-exactly-as-the-window-moves", present == !forgotten)
	}
	if number%w.cs.Epoch != uint64(n/2) {
		same := len(ncs.Validators) == n
		if same {
			for i := range ncs.Validators {
				same = same && bytes.Equal(ncs.Validators[i], w.vals[i].Bytes())
			}
		}
		rt.Assert("B6-validator-set-changes-only-at-the-offset", same)
	} else {
		rt.Reach(cfg.name + "-switch-block")
	}
}
