package app

// C17, last clause: "coins burned by staking or governance go to the fee collector". The override of BurnCoins
// (adapter/bank) only acts if the application hands THAT bank keeper to the staking and governance keepers. The real
// constructor NewTeleport is executed symbolically with every dependency constructor abstracted (arbitrary results), and
// the two keeper constructors replaced by recorders of the bank keeper they are given.

import (
	"github.com/cosmos/cosmos-sdk/codec"
	"github.com/cosmos/cosmos-sdk/simapp"
	sdk "github.com/cosmos/cosmos-sdk/types"
	govkeeper "github.com/cosmos/cosmos-sdk/x/gov/keeper"
	govtypes "github.com/cosmos/cosmos-sdk/x/gov/types"
	paramtypes "github.com/cosmos/cosmos-sdk/x/params/types"
	stakingkeeper "github.com/cosmos/cosmos-sdk/x/staking/keeper"
	stakingtypes "github.com/cosmos/cosmos-sdk/x/staking/types"
	"github.com/tendermint/tendermint/libs/log"
	"github.com/tharsis/ethermint/encoding"

	bankadapter "github.com/teleport-network/teleport/adapter/bank"
	rt "github.com/teleport-network/teleport/zzverifrt"
)

func VerifC17BurnWiring() {
	rt.Opt("abstract-all-dependencies")
	var govBank govtypes.BankKeeper
	var stakingBank stakingtypes.BankKeeper
	rt.Override("github.com/cosmos/cosmos-sdk/x/gov/keeper.NewKeeper", func(cdc codec.BinaryCodec, key sdk.StoreKey, ps govtypes.ParamSubspace, ak govtypes.AccountKeeper,
		bk govtypes.BankKeeper, sk govtypes.StakingKeeper, rtr govtypes.Router) govkeeper.Keeper {
		govBank = bk
		return govkeeper.Keeper{}
	})
	rt.Override("github.com/cosmos/cosmos-sdk/x/staking/keeper.NewKeeper", func(cdc codec.BinaryCodec, key sdk.StoreKey, ak stakingtypes.AccountKeeper,
		bk stakingtypes.BankKeeper, ps paramtypes.Subspace) stakingkeeper.Keeper {
		stakingBank = bk
		return stakingkeeper.Keeper{}
	})
	cfg := encoding.MakeConfig(ModuleBasics) // abstracted: arbitrary codec, registry and tx configuration
	if rt.Panics(func() {
		NewTeleport(log.NewNopLogger(), nil, nil, false, map[int64]bool{}, "", 0, cfg, simapp.EmptyAppOptions{})
	}) {
		return // an abstracted dependency refused its configuration: the node does not start
	}
	rt.Reach("application-constructed")
	_, okGov := govBank.(bankadapter.OverwriteBankKeeper)
	_, okStaking := stakingBank.(bankadapter.OverwriteBankKeeper)
	rt.Assert("D5-governance-burns-through-the-fee-collector-override", okGov)
	rt.Assert("D5-staking-burns-through-the-fee-collector-override", okStaking)
}
