package gov

import (
	"math/big"

	"github.com/cosmos/cosmos-sdk/baseapp"
	sdk "github.com/cosmos/cosmos-sdk/types"
	"github.com/cosmos/cosmos-sdk/types/bech32"
	govtypes "github.com/cosmos/cosmos-sdk/x/gov/types"

	ethabi "github.com/ethereum/go-ethereum/accounts/abi"
	"github.com/ethereum/go-ethereum/common"
	ethtypes "github.com/ethereum/go-ethereum/core/types"

	"github.com/teleport-network/teleport/syscontracts"
	govcontract "github.com/teleport-network/teleport/syscontracts/gov"
	rt "github.com/teleport-network/teleport/zzverifrt"
)

type stubErr struct{}

func (stubErr) Error() string { return "native action failed" }

// VerifC17Gov: the governance hook routes exactly one vote per Voted/VotedWeighted log of the governance contract,
// for the event's voter, proposal and options; a failing vote fails the hook.
func VerifC17Gov() {
	router := &baseapp.MsgServiceRouter{}
	h := NewHookAdapter(nil, nil, router)
	ctx := rt.Ctx()
	// stateless validation of the native message (the only place it happens for a message built by the hook): arbitrary outcome, counted
	validated := 0
	vb := func() error {
		if rt.Bool("message-fails-stateless-validation") {
			return stubErr{}
		}
		validated++
		return nil
	}
	rt.Override("(github.com/cosmos/cosmos-sdk/x/gov/types.MsgVote).ValidateBasic", func(govtypes.MsgVote) error { return vb() })
	rt.Override("(github.com/cosmos/cosmos-sdk/x/gov/types.MsgVoteWeighted).ValidateBasic", func(govtypes.MsgVoteWeighted) error { return vb() })
	var routed []sdk.Msg
	var routedOK []bool
	rt.Override("(*github.com/cosmos/cosmos-sdk/baseapp.MsgServiceRouter).Handler", func(_ *baseapp.MsgServiceRouter, msg sdk.Msg) baseapp.MsgServiceHandler {
		return func(ctx sdk.Context, req sdk.Msg) (*sdk.Result, error) {
			rt.Assert("D6-an-executed-vote-passed-its-stateless-validation", validated > len(routed))
			routed = append(routed, req)
			ok := rt.Bool("vote-succeeds")
			routedOK = append(routedOK, ok)
			if !ok {
				return nil, stubErr{}
			}
			return &sdk.Result{}, nil
		}
	})
	var voted []*govcontract.GovVoted
	var weighted []*govcontract.GovVotedWeighted
	var order []int // 0 = plain, 1 = weighted
	rt.Override("github.com/teleport-network/teleport/syscontracts.ParseLog", func(out interface{}, abi *ethabi.ABI, log *ethtypes.Log, event string) error {
		if log.Topics[0] != abi.Events[event].ID {
			return stubErr{}
		}
		if rt.Bool("log-undecodable") {
			return stubErr{}
		}
		rt.Fresh(out, "event")
		switch e := out.(type) {
		case *govcontract.GovVoted:
			voted = append(voted, e)
			order = append(order, 0)
		case *govcontract.GovVotedWeighted:
			weighted = append(weighted, e)
			order = append(order, 1)
		}
		return nil
	})
	names := []string{"Voted", "VotedWeighted"}
	n := rt.IntRange("nlogs", 1, 2)
	receipt := &ethtypes.Receipt{}
	nFrom := 0
	fromContract := make([]bool, n)
	for i := 0; i < n; i++ {
		l := &ethtypes.Log{Data: rt.Bytes("logdata")}
		if rt.Bool("from-gov-contract") {
			nFrom++
			fromContract[i] = true
			l.Address = common.HexToAddress(syscontracts.GovContractAddress)
		} else {
			l.Address = common.BytesToAddress(rt.BytesN("otheraddr", 20))
			rt.Assume(l.Address != common.HexToAddress(syscontracts.GovContractAddress))
		}
		which := rt.IntRange("topic", 0, 2)
		if which < 2 {
			l.Topics = []common.Hash{h.abi.Events[names[which]].ID}
		} else {
			l.Topics = []common.Hash{common.BytesToHash(rt.BytesN("othertopic", 32))}
		}
		receipt.Logs = append(receipt.Logs, l)
	}

	// the receipt is shared: the same object is handed to every hook of the chain (staking, gov, aggregate, xibc) in turn
	handed := append([]*ethtypes.Log(nil), receipt.Logs...)

	err := h.PostTxProcessing(ctx, anyTxMessage(), receipt)

	rt.Reach("hook-returned")
	unchanged := len(receipt.Logs) == len(handed)
	for i := 0; unchanged && i < len(handed); i++ {
		unchanged = receipt.Logs[i] == handed[i]
	}
	rt.Assert("D7-the-hook-leaves-the-shared-receipt's-logs-as-they-were", unchanged)
	rt.Assert("D1-at-most-one-vote-per-contract-log", len(routed) <= nFrom)
	if nFrom == 0 {
		rt.Assert("D1-foreign-logs-do-nothing", err == nil && len(routed) == 0)
	}
	for i, ok := range routedOK {
		if !ok {
			rt.Reach("vote-failed")
			rt.Assert("D3-failed-vote-fails-transaction", err != nil && i == len(routedOK)-1)
		}
	}
	if err == nil {
		handled := 0
		for i, l := range receipt.Logs {
			if _, ok := h.handlers[l.Topics[0]]; ok && fromContract[i] {
				handled++
			}
		}
		if handled == 2 {
			rt.Reach("two-handled-events")
		}
		rt.Assert("D2-every-handled-event-executed-once", len(routed) == handled)
	}
	iv, iw := 0, 0
	_ = order
	for _, m := range routed {
		switch msg := m.(type) {
		case *govtypes.MsgVote:
			rt.Reach("vote")
			e := voted[iv]
			iv++
			who, _ := bech32.ConvertAndEncode("teleport", e.Voter.Bytes())
			rt.Assert("D2-vote", msg.Voter == who && msg.ProposalId == e.ProposalID && uint32(msg.Option) == e.VoteOption)
		case *govtypes.MsgVoteWeighted:
			rt.Reach("weighted-vote")
			e := weighted[iw]
			iw++
			who, _ := bech32.ConvertAndEncode("teleport", e.Voter.Bytes())
			okAll := msg.Voter == who && msg.ProposalId == e.ProposalID && len(msg.Options) == len(e.Options)
			if okAll {
				for j := range e.Options {
					okAll = okAll && uint32(msg.Options[j].Option) == uint32(e.Options[j].Option) && msg.Options[j].Weight.Equal(sdk.NewDecWithPrec(int64(e.Options[j].Weight), 2))
				}
			}
			rt.Assert("D2-weighted-vote", okAll)
		default:
			rt.Assert("D2-known-message-type", false)
		}
	}
}

// anyTxMessage: the EVM transaction whose receipt is processed - any sender, any recipient (an externally owned account
// calling the system contract directly, a user contract that calls it in a nested call, a contract creation), any call data.
func anyTxMessage() ethtypes.Message {
	var to *common.Address
	if rt.Bool("tx.has-recipient") {
		a := common.BytesToAddress(rt.BytesN("tx.to", 20))
		to = &a
	}
	return ethtypes.NewMessage(common.BytesToAddress(rt.BytesN("tx.from", 20)), to, rt.U64("tx.nonce"), big.NewInt(0), rt.U64("tx.gas"), big.NewInt(0), big.NewInt(0), big.NewInt(0), rt.Bytes("tx.data"), nil, false)
}
