package staking

import (
	"math/big"

	"github.com/cosmos/cosmos-sdk/baseapp"
	sdk "github.com/cosmos/cosmos-sdk/types"
	"github.com/cosmos/cosmos-sdk/types/bech32"
	distypes "github.com/cosmos/cosmos-sdk/x/distribution/types"
	stakingkeeper "github.com/cosmos/cosmos-sdk/x/staking/keeper"
	stakingtypes "github.com/cosmos/cosmos-sdk/x/staking/types"

	ethabi "github.com/ethereum/go-ethereum/accounts/abi"
	"github.com/ethereum/go-ethereum/common"
	ethtypes "github.com/ethereum/go-ethereum/core/types"

	"github.com/teleport-network/teleport/syscontracts"
	stakingcontract "github.com/teleport-network/teleport/syscontracts/staking"
	rt "github.com/teleport-network/teleport/zzverifrt"
)

type stubErr struct{}

func (stubErr) Error() string { return "native action failed" }

type parsed struct {
	event     string
	delegator common.Address
	validator string
	valDst    string
	amount    *big.Int
}

// VerifC17Staking: the staking hook over a receipt with up to two logs.
//
//	D1 only logs whose address is the staking system contract lead to a native action
//	D2 each such log leads to exactly one routed message, in order, for exactly the event's account, validator(s), amount
//	D3 a failing native action fails the hook (so Ethermint reverts the whole EVM transaction)
func VerifC17Staking() {
	router := &baseapp.MsgServiceRouter{}
	h := NewHookAdapter(nil, &stakingkeeper.Keeper{}, nil, router)
	ctx := rt.Ctx()
	bond := "atele"
	rt.Override("(github.com/cosmos/cosmos-sdk/x/staking/keeper.Keeper).BondDenom", func(_ stakingkeeper.Keeper, _ sdk.Context) string { return bond })
	// stateless validation of the native message (the SDK runs ValidateBasic only for the messages of a transaction, so for a
	// message built by the hook this call is the only one): arbitrary outcome, counted
	validated := 0
	vb := func() error {
		if rt.Bool("message-fails-stateless-validation") {
			return stubErr{}
		}
		validated++
		return nil
	}
	rt.Override("(github.com/cosmos/cosmos-sdk/x/staking/types.MsgDelegate).ValidateBasic", func(stakingtypes.MsgDelegate) error { return vb() })
	rt.Override("(github.com/cosmos/cosmos-sdk/x/staking/types.MsgUndelegate).ValidateBasic", func(stakingtypes.MsgUndelegate) error { return vb() })
	rt.Override("(github.com/cosmos/cosmos-sdk/x/staking/types.MsgBeginRedelegate).ValidateBasic", func(stakingtypes.MsgBeginRedelegate) error { return vb() })
	rt.Override("(github.com/cosmos/cosmos-sdk/x/distribution/types.MsgWithdrawDelegatorReward).ValidateBasic", func(distypes.MsgWithdrawDelegatorReward) error { return vb() })
	var routed []sdk.Msg
	var routedOK []bool
	rt.Override("(*github.com/cosmos/cosmos-sdk/baseapp.MsgServiceRouter).Handler", func(_ *baseapp.MsgServiceRouter, msg sdk.Msg) baseapp.MsgServiceHandler {
		return func(ctx sdk.Context, req sdk.Msg) (*sdk.Result, error) {
			rt.Assert("D6-an-executed-message-passed-its-stateless-validation", validated > len(routed))
			routed = append(routed, req)
			ok := rt.Bool("native-action-succeeds")
			routedOK = append(routedOK, ok)
			if !ok {
				return nil, stubErr{}
			}
			return &sdk.Result{}, nil
		}
	})
	// the log decoder (go-ethereum reflection) is replaced by: the real signature check, then arbitrary decoded fields
	var decoded []parsed
	rt.Override("github.com/teleport-network/teleport/syscontracts.ParseLog", func(out interface{}, abi *ethabi.ABI, log *ethtypes.Log, event string) error {
		if log.Topics[0] != abi.Events[event].ID {
			return stubErr{}
		}
		if rt.Bool("log-undecodable") {
			return stubErr{}
		}
		rt.Fresh(out, "event")
		p := parsed{event: event}
		switch e := out.(type) {
		case *stakingcontract.StakingDelegated:
			p.delegator, p.validator, p.amount = e.Delegator, e.Validator, e.Amount
		case *stakingcontract.StakingUndelegated:
			p.delegator, p.validator, p.amount = e.Delegator, e.Validator, e.Amount
		case *stakingcontract.StakingRedelegated:
			p.delegator, p.validator, p.valDst, p.amount = e.Delegator, e.ValidatorSrc, e.ValidatorDest, e.Amount
		case *stakingcontract.StakingWithdrew:
			p.delegator, p.validator = e.Delegator, e.Validator
		}
		if p.amount != nil {
			rt.Assume(p.amount.Sign() >= 0 && p.amount.BitLen() <= 255) // uint256 event field within sdk.Int's range
		}
		decoded = append(decoded, p)
		return nil
	})

	names := []string{"Delegated", "Undelegated", "Redelegated", "Withdrew"}
	n := rt.IntRange("nlogs", 1, 2)
	receipt := &ethtypes.Receipt{}
	fromContract := make([]bool, n)
	for i := 0; i < n; i++ {
		l := &ethtypes.Log{Data: rt.Bytes("logdata")}
		fromContract[i] = rt.Bool("from-staking-contract")
		if fromContract[i] {
			l.Address = common.HexToAddress(syscontracts.StakingContractAddress)
		} else {
			l.Address = common.BytesToAddress(rt.BytesN("otheraddr", 20))
			rt.Assume(l.Address != common.HexToAddress(syscontracts.StakingContractAddress))
		}
		which := rt.IntRange("topic", 0, 4)
		if which < 4 {
			l.Topics = []common.Hash{h.abi.Events[names[which]].ID}
		} else {
			l.Topics = []common.Hash{common.BytesToHash(rt.BytesN("othertopic", 32))}
		}
		receipt.Logs = append(receipt.Logs, l)
	}

	// the receipt is shared: the same object is handed to every hook of the chain (staking, gov, aggregate, xibc) in turn
	handed := append([]*ethtypes.Log(nil), receipt.Logs...)

	err := h.PostTxProcessing(ctx, anyTxMessage(), receipt)

	rt.Reach("hook-returned")
	unchanged := len(receipt.Logs) == len(handed)
	for i := 0; unchanged && i < len(handed); i++ {
		unchanged = receipt.Logs[i] == handed[i]
	}
	rt.Assert("D7-the-hook-leaves-the-shared-receipt's-logs-as-they-were", unchanged)
	nFrom := 0
	for _, b := range fromContract {
		if b {
			nFrom++
		}
	}
	rt.Assert("D1-at-most-one-action-per-contract-log", len(routed) <= nFrom && len(decoded) <= nFrom)
	if nFrom == 0 {
		rt.Reach("foreign-only")
		rt.Assert("D1-foreign-logs-do-nothing", err == nil && len(routed) == 0)
	}
	for i, ok := range routedOK {
		if !ok {
			rt.Reach("action-failed")
			rt.Assert("D3-failed-action-fails-transaction", err != nil && i == len(routedOK)-1)
		}
	}
	rt.Assert("D2-one-message-per-decoded-event", len(routed) <= len(decoded))
	if err == nil {
		// success of the hook means every event of the staking contract that has a handler was executed, exactly once
		handled := 0
		for i, l := range receipt.Logs {
			if _, ok := h.handlers[l.Topics[0]]; ok && fromContract[i] {
				handled++
			}
		}
		if handled == 2 {
			rt.Reach("two-handled-events")
		}
		rt.Assert("D2-every-handled-event-executed-once", len(routed) == handled)
	}
	for i, m := range routed {
		p := decoded[i]
		who, _ := bech32.ConvertAndEncode("teleport", p.delegator.Bytes())
		switch msg := m.(type) {
		case *stakingtypes.MsgDelegate:
			rt.Reach("delegate")
			rt.Assert("D2-delegate", p.event == "Delegated" && msg.DelegatorAddress == who && msg.ValidatorAddress == p.validator && msg.Amount.Denom == bond && msg.Amount.Amount.BigInt().Cmp(p.amount) == 0)
		case *stakingtypes.MsgUndelegate:
			rt.Reach("undelegate")
			rt.Assert("D2-undelegate", p.event == "Undelegated" && msg.DelegatorAddress == who && msg.ValidatorAddress == p.validator && msg.Amount.Denom == bond && msg.Amount.Amount.BigInt().Cmp(p.amount) == 0)
		case *stakingtypes.MsgBeginRedelegate:
			rt.Reach("redelegate")
			rt.Assert("D2-redelegate", p.event == "Redelegated" && msg.DelegatorAddress == who && msg.ValidatorSrcAddress == p.validator && msg.ValidatorDstAddress == p.valDst && msg.Amount.Denom == bond && msg.Amount.Amount.BigInt().Cmp(p.amount) == 0)
		case *distypes.MsgWithdrawDelegatorReward:
			rt.Reach("withdraw")
			rt.Assert("D2-withdraw", p.event == "Withdrew" && msg.DelegatorAddress == who && msg.ValidatorAddress == p.validator)
		default:
			rt.Assert("D2-known-message-type", false)
		}
	}
}

// anyTxMessage: the EVM transaction whose receipt is processed - any sender, any recipient (an externally owned account
// calling the system contract directly, a user contract that calls it in a nested call, a contract creation), any call data.
func anyTxMessage() ethtypes.Message {
	var to *common.Address
	if rt.Bool("tx.has-recipient") {
		a := common.BytesToAddress(rt.BytesN("tx.to", 20))
		to = &a
	}
	return ethtypes.NewMessage(common.BytesToAddress(rt.BytesN("tx.from", 20)), to, rt.U64("tx.nonce"), big.NewInt(0), rt.U64("tx.gas"), big.NewInt(0), big.NewInt(0), big.NewInt(0), rt.Bytes("tx.data"), nil, false)
}
