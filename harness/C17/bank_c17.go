package bank

import (
	sdk "github.com/cosmos/cosmos-sdk/types"
	authtypes "github.com/cosmos/cosmos-sdk/x/auth/types"
	bk "github.com/cosmos/cosmos-sdk/x/bank/keeper"

	rt "github.com/teleport-network/teleport/zzverifrt"
)

type stubErr struct{}

func (stubErr) Error() string { return "send failed" }

// VerifC17Burn: "burning" through the overwritten bank keeper is exactly one module-to-module send of the same coins
// to the fee collector (total supply is untouched), and its result is returned.
func VerifC17Burn() {
	ctx := rt.Ctx()
	calls := 0
	var from, to string
	var sent sdk.Coins
	fails := false
	rt.Override("(github.com/cosmos/cosmos-sdk/x/bank/keeper.BaseKeeper).SendCoinsFromModuleToModule", func(_ bk.BaseKeeper, _ sdk.Context, f, t string, amt sdk.Coins) error {
		calls++
		from, to, sent = f, t, amt
		fails = rt.Bool("send-fails")
		if fails {
			return stubErr{}
		}
		return nil
	})
	rt.Override("(github.com/cosmos/cosmos-sdk/x/bank/keeper.BaseKeeper).BurnCoins", func(_ bk.BaseKeeper, _ sdk.Context, m string, amt sdk.Coins) error {
		rt.Assert("D4-real-burn-never-reached", false)
		return nil
	})
	k := NewOverwriteBankKeeper(bk.BaseKeeper{})
	module := rt.Str("module")
	var amounts sdk.Coins
	n := rt.IntRange("ncoins", 0, 2)
	for i := 0; i < n; i++ {
		b := rt.BigInt("amount")
		rt.Assume(b.BitLen() <= 255)
		amounts = append(amounts, sdk.Coin{Denom: rt.Str("denom"), Amount: sdk.NewIntFromBigInt(b)})
	}
	err := k.BurnCoins(ctx, module, amounts)
	rt.Reach("burned")
	rt.Assert("D4-one-send", calls == 1)
	rt.Assert("D4-from-module-to-fee-collector", from == module && to == authtypes.FeeCollectorName)
	same := len(sent) == len(amounts)
	if same {
		for i := range sent {
			same = same && sent[i].Denom == amounts[i].Denom && sent[i].Amount.Equal(amounts[i].Amount)
		}
	}
	rt.Assert("D4-same-coins", same)
	rt.Assert("D4-result-propagated", (err != nil) == fails)
}
