package types

import (
	ics23 "github.com/confio/ics23/go"

	"github.com/teleport-network/teleport/x/xibc/core/host"
	"github.com/teleport-network/teleport/x/xibc/exported"
)

type specT = ics23.ProofSpec

func consensusKey(h exported.Height) []byte { return host.ConsensusStateKey(h) }
