package types

import (
	"time"

	"github.com/cosmos/cosmos-sdk/store/prefix"
	sdk "github.com/cosmos/cosmos-sdk/types"
	tmmath "github.com/tendermint/tendermint/libs/math"
	tmproto "github.com/tendermint/tendermint/proto/tendermint/types"
	tmtypes "github.com/tendermint/tendermint/types"

	clienttypes "github.com/teleport-network/teleport/x/xibc/core/client/types"
	commitmenttypes "github.com/teleport-network/teleport/x/xibc/core/commitment/types"
	"github.com/teleport-network/teleport/x/xibc/core/host"
	"github.com/teleport-network/teleport/x/xibc/exported"
	rt "github.com/teleport-network/teleport/zzverifrt"
)

type tmErr struct{ s string }

func (e tmErr) Error() string { return e.s }

type stored struct {
	h  clienttypes.Height
	cs *ConsensusState
	pt uint64 // processed time
}

type lvCall struct {
	chainID   string
	height    int64
	t         time.Time
	nextVals  []byte
	tvals     *tmtypes.ValidatorSet
	untrusted *tmtypes.SignedHeader
	uvals     *tmtypes.ValidatorSet
	period    time.Duration
	now       time.Time
	drift     time.Duration
	level     tmmath.Fraction
	ok        bool
}

type tmWorld struct {
	ctx    sdk.Context
	store  sdk.KVStore
	cs     ClientState
	states []stored
	// conversions performed by the (stubbed) tendermint library, by identity
	valsets map[*tmtypes.ValidatorSet]*tmproto.ValidatorSet
	headers map[*tmtypes.SignedHeader]*tmproto.SignedHeader
	lv      []lvCall
}

func freshHeight(tag string) clienttypes.Height {
	return clienttypes.Height{RevisionNumber: rt.U64(tag + ".revision"), RevisionHeight: rt.U64(tag + ".height")}
}

// newTMWorld: a client store holding up to n consensus states with their metadata, written by the client's own setters.
func newTMWorld(n int) *tmWorld {
	rt.Opt("structured-keys")
	w := &tmWorld{ctx: rt.EmptyCtx(), valsets: map[*tmtypes.ValidatorSet]*tmproto.ValidatorSet{}, headers: map[*tmtypes.SignedHeader]*tmproto.SignedHeader{}}
	w.store = prefix.NewStore(w.ctx.KVStore(rt.StoreKey("xibc")), []byte("clients/chain-a/"))
	w.cs = ClientState{ChainId: rt.Str("cs.chainID"), TrustLevel: Fraction{Numerator: rt.U64("cs.trustNum"), Denominator: rt.U64("cs.trustDen")},
		TrustingPeriod: time.Duration(rt.I64("cs.trustingPeriod")), UnbondingPeriod: time.Duration(rt.I64("cs.unbonding")), MaxClockDrift: time.Duration(rt.I64("cs.drift")),
		LatestHeight: freshHeight("cs.latest"), MerklePrefix: commitmenttypes.MerklePrefix{KeyPrefix: rt.Bytes("cs.prefix")}, TimeDelay: rt.U64("cs.timeDelay")}
	cdc := rt.Codec()
	k := rt.IntRange("storedStates", 0, n)
	for i := 0; i < k; i++ {
		s := stored{h: freshHeight("stored"), cs: &ConsensusState{Timestamp: rt.Time("stored.time"), Root: rt.Bytes("stored.root"), NextValidatorsHash: rt.Bytes("stored.nextVals")}, pt: rt.U64("stored.processedTime")}
		for _, o := range w.states {
			rt.Assume(o.h != s.h)
		}
		w.store.Set(hostConsensusKey(s.h), clienttypes.MustMarshalConsensusState(cdc, s.cs))
		setConsensusMetadataWithValues(w.store, s.h, clienttypes.ZeroHeight(), s.pt)
		w.states = append(w.states, s)
	}
	w.stubTendermint()
	return w
}

func (w *tmWorld) find(h clienttypes.Height) *stored {
	for i := range w.states {
		if w.states[i].h == h {
			return &w.states[i]
		}
	}
	return nil
}

// stubTendermint replaces the tendermint library (proto conversion, validator-set hash, light.Verify) and the chain-id
// string utilities by deterministic uninterpreted functions of exactly the arguments they are given.
func (w *tmWorld) stubTendermint() {
	rt.Override("github.com/tendermint/tendermint/types.ValidatorSetFromProto", func(p *tmproto.ValidatorSet) (*tmtypes.ValidatorSet, error) {
		if p == nil || !rt.UFBool("valsetConverts", p) {
			return nil, tmErr{"bad validator set"}
		}
		for v, q := range w.valsets {
			if q == p {
				return v, nil
			}
		}
		v := &tmtypes.ValidatorSet{}
		w.valsets[v] = p
		return v, nil
	})
	rt.Override("(*github.com/tendermint/tendermint/types.ValidatorSet).Hash", func(v *tmtypes.ValidatorSet) []byte {
		return []byte(rt.UFStr("valsetHash", w.valsets[v]))
	})
	rt.Override("github.com/tendermint/tendermint/types.SignedHeaderFromProto", func(p *tmproto.SignedHeader) (*tmtypes.SignedHeader, error) {
		if p == nil || !rt.UFBool("headerConverts", p) {
			return nil, tmErr{"bad signed header"}
		}
		h := &tmtypes.SignedHeader{}
		w.headers[h] = p
		return h, nil
	})
	rt.Override("github.com/tendermint/tendermint/light.Verify", func(trusted *tmtypes.SignedHeader, tvals *tmtypes.ValidatorSet, untrusted *tmtypes.SignedHeader, uvals *tmtypes.ValidatorSet,
		period time.Duration, now time.Time, drift time.Duration, level tmmath.Fraction) error {
		c := lvCall{chainID: trusted.ChainID, height: trusted.Height, t: trusted.Time, nextVals: trusted.NextValidatorsHash, tvals: tvals, untrusted: untrusted, uvals: uvals,
			period: period, now: now, drift: drift, level: level}
		c.ok = rt.UFBool("lightVerify", c.chainID, c.height, c.t, c.nextVals, w.valsets[tvals], w.headers[untrusted], w.valsets[uvals], period, now, drift, level.Numerator, level.Denominator)
		w.lv = append(w.lv, c)
		if !c.ok {
			return tmErr{"light client verification failed"}
		}
		return nil
	})
	rt.Override("github.com/teleport-network/teleport/x/xibc/core/client/types.ParseChainID", func(id string) uint64 { return rt.UFU64("revisionOfChainID", id) })
	rt.Override("github.com/teleport-network/teleport/x/xibc/core/client/types.SetRevisionNumber", func(id string, rev uint64) (string, error) {
		return rt.UFStr("withRevision", id, rev), nil
	})
}

func freshHeader() *Header {
	return &Header{
		SignedHeader: &tmproto.SignedHeader{Header: &tmproto.Header{ChainID: rt.Str("hdr.chainID"), Height: rt.I64("hdr.height"), Time: rt.Time("hdr.time"),
			AppHash: rt.Bytes("hdr.appHash"), NextValidatorsHash: rt.Bytes("hdr.nextVals"), ValidatorsHash: rt.Bytes("hdr.valsHash")}, Commit: &tmproto.Commit{Height: rt.I64("hdr.commitHeight")}},
		ValidatorSet:      &tmproto.ValidatorSet{TotalVotingPower: rt.I64("hdr.valset.power")},
		TrustedHeight:     freshHeight("hdr.trusted"),
		TrustedValidators: &tmproto.ValidatorSet{TotalVotingPower: rt.I64("hdr.trustedVals.power")},
	}
}

// VerifC07Update: one CheckHeaderAndUpdateState from a store with up to 2 (thorough: 3) consensus states.
func VerifC07Update() {
	w := newTMWorld(2 + rt.Tier())
	hdr := freshHeader()
	latestBefore := w.cs.LatestHeight
	cdc := rt.Codec()

	newCS, newCons, err := w.cs.CheckHeaderAndUpdateState(w.ctx, cdc, w.store, hdr)
	if err != nil {
		rt.Reach("rejected")
		return
	}
	rt.Reach("accepted")
	// T1: what was trusted
	tr := w.find(hdr.TrustedHeight)
	rt.Assert("T1-trusted-state-stored-at-trusted-height", tr != nil)
	hh := hdr.GetHeight().(clienttypes.Height)
	rt.Assert("T1-same-revision", hh.RevisionNumber == hdr.TrustedHeight.RevisionNumber)
	rt.Assert("T1-newer-than-trusted", hh.RevisionHeight > hdr.TrustedHeight.RevisionHeight)
	rt.Assert("T1-verified-once", len(w.lv) == 1 && w.lv[0].ok)
	if tr != nil && len(w.lv) == 1 {
		c := w.lv[0]
		rt.Assert("T1-trusted-validators-hash-to-stored-next-hash", rt.BytesEq([]byte(rt.UFStr("valsetHash", hdr.TrustedValidators)), tr.cs.NextValidatorsHash))
		wantChain := w.cs.ChainId
		if clienttypes.IsRevisionFormat(wantChain) {
			wantChain, _ = clienttypes.SetRevisionNumber(wantChain, hh.RevisionNumber)
		}
		rt.Assert("T1-trusted-chain-id", c.chainID == wantChain)
		rt.Assert("T1-trusted-height", c.height == int64(hdr.TrustedHeight.RevisionHeight))
		rt.Assert("T1-trusted-time-from-stored-state", c.t.Equal(tr.cs.Timestamp))
		rt.Assert("T1-trusted-next-validators-from-stored-state", rt.BytesEq(c.nextVals, tr.cs.NextValidatorsHash))
		rt.Assert("T1-untrusted-data-from-message", w.valsets[c.tvals] == hdr.TrustedValidators && w.headers[c.untrusted] == hdr.SignedHeader && w.valsets[c.uvals] == hdr.ValidatorSet)
		rt.Assert("T1-client-parameters", c.period == w.cs.TrustingPeriod && c.drift == w.cs.MaxClockDrift && c.level.Numerator == w.cs.TrustLevel.Numerator && c.level.Denominator == w.cs.TrustLevel.Denominator && c.now.Equal(w.ctx.BlockTime()))
	}
	// T2: what was stored
	ncs := newCS.(*ClientState)
	ncons := newCons.(*ConsensusState)
	rt.Assert("T2-consensus-state-is-the-header's", ncons.Timestamp.Equal(hdr.Header.Time) && rt.BytesEq(ncons.Root, hdr.Header.AppHash) && rt.BytesEq(ncons.NextValidatorsHash, hdr.Header.NextValidatorsHash))
	wantLatest := latestBefore
	if hh.GT(latestBefore) {
		wantLatest = hh
	}
	rt.Assert("T2-latest-height-never-lowered", ncs.LatestHeight == wantLatest)
	pt, ok := GetProcessedTime(w.store, hh)
	rt.Assert("T2-processed-time-recorded", ok && pt == uint64(w.ctx.BlockTime().UnixNano()))
	rt.Assert("T2-iteration-key-recorded", GetIterationKey(w.store, hh) != nil)
	// T5: pruning removes at most the oldest stored state, only if it expired, and then all of it
	var oldest *stored
	for i := range w.states {
		if oldest == nil || w.states[i].h.LT(oldest.h) {
			oldest = &w.states[i]
		}
	}
	for i := range w.states {
		s := &w.states[i]
		if s.h == hh {
			continue // overwritten by the update's own metadata
		}
		_, e := GetConsensusState(w.store, cdc, s.h)
		_, hasPT := GetProcessedTime(w.store, s.h)
		hasIK := GetIterationKey(w.store, s.h) != nil
		if e == nil {
			rt.Assert("T5-kept-state-keeps-metadata", hasPT && hasIK)
		} else {
			rt.Reach("pruned")
			rt.Assert("T5-only-oldest-pruned", s == oldest)
			rt.Assert("T5-only-if-expired", !s.cs.Timestamp.Add(w.cs.TrustingPeriod).After(w.ctx.BlockTime()))
			rt.Assert("T5-pruned-with-metadata", !hasPT && !hasIK)
		}
	}
}

// VerifC07Proof: a proof is honoured only against a stored height not above the latest and only after the delay, and what
// is proved is membership of exactly the given value under exactly the commitment (resp. acknowledgement) path of
// (src, dst, seq) below the client's prefix, against the root stored for the proof height.
func VerifC07Proof() { c07Proof() }

func c07Proof() {
	w := newTMWorld(2)
	h := freshHeight("proofHeight")
	verified := 0
	var usedRoot, usedValue []byte
	var usedPath commitmenttypes.MerklePath
	rt.Override("(github.com/teleport-network/teleport/x/xibc/core/commitment/types.MerkleProof).VerifyMembership", func(p commitmenttypes.MerkleProof, specs []*specT, root []byte, path exported.Path, value []byte) error {
		verified++
		usedRoot, usedValue = root, value
		usedPath, _ = path.(commitmenttypes.MerklePath)
		if rt.Bool("membership-holds") {
			return nil
		}
		return tmErr{"membership proof failed"}
	})
	src, dst, seq, value := rt.Str("src"), rt.Str("dst"), rt.U64("seq"), rt.Bytes("value")
	isAck := rt.Bool("acknowledgement")
	var err error
	var wantPath string
	if isAck {
		err = w.cs.VerifyPacketAcknowledgement(w.ctx, w.store, rt.Codec(), h, rt.Bytes("proof"), src, dst, seq, value)
		wantPath = host.PacketAcknowledgementPath(src, dst, seq)
	} else {
		err = w.cs.VerifyPacketCommitment(w.ctx, w.store, rt.Codec(), h, rt.Bytes("proof"), src, dst, seq, value)
		wantPath = host.PacketCommitmentPath(src, dst, seq)
	}
	if err != nil {
		return
	}
	if isAck {
		rt.Reach("acknowledgement-accepted")
	}
	rt.Reach("accepted")
	s := w.find(h)
	rt.Assert("T4-height-not-above-latest", !w.cs.LatestHeight.LT(h))
	rt.Assert("T4-consensus-state-stored-at-proof-height", s != nil)
	rt.Assert("T4-membership-checked-once", verified == 1)
	rt.Assert("T4-membership-of-exactly-this-path", len(usedPath.KeyPath) == 2 && usedPath.KeyPath[0] == string(w.cs.GetPrefix().Bytes()) && usedPath.KeyPath[1] == wantPath)
	rt.Assert("T4-membership-of-exactly-this-value", rt.BytesEq(usedValue, value))
	if s != nil {
		rt.Assert("T4-root-of-that-height", rt.BytesEq(usedRoot, s.cs.Root))
		now := uint64(w.ctx.BlockTime().UnixNano())
		// the delay has passed, in mathematical integers (no wrap-around)
		wraps := s.pt+w.cs.TimeDelay < s.pt
		rt.Known("H9-delay-sum-wraps", wraps)
		rt.Assert("T4-delay-passed", !wraps && s.pt+w.cs.TimeDelay <= now)
	}
}

func hostConsensusKey(h exported.Height) []byte { return consensusKey(h) }
