package keeper

import (
	"crypto/sha256"

	sdk "github.com/cosmos/cosmos-sdk/types"
	"github.com/ethereum/go-ethereum/common"

	packetcontract "github.com/teleport-network/teleport/syscontracts/xibc_packet"
	clienttypes "github.com/teleport-network/teleport/x/xibc/core/client/types"
	packettypes "github.com/teleport-network/teleport/x/xibc/core/packet/types"
	rt "github.com/teleport-network/teleport/zzverifrt"
)

func hashOf(bz []byte) []byte {
	h := sha256.Sum256(bz)
	return h[:]
}

func recvMsg() *packettypes.MsgRecvPacket {
	return &packettypes.MsgRecvPacket{Packet: rt.Bytes("packetBytes"), ProofCommitment: rt.Bytes("proof"),
		ProofHeight: clienttypes.Height{RevisionNumber: rt.U64("rev"), RevisionHeight: rt.U64("height")}, Signer: rt.Str("signer")}
}

// VerifC03RecvOutcome: on the destination, a receive ends in exactly one of
//   delivered  - the callback ran once, its effects are committed once, the ack carries the contract's result
//   refunded   - an error acknowledgement, and then NO effect of the callback is left committed
func VerifC03RecvOutcome() { recvOutcome() }

func recvOutcome() {
	w := newXWorld(2 + rt.Tier())
	msg := recvMsg()
	var p packettypes.Packet
	_ = p.ABIDecode(msg.Packet)
	rt.Assume(p.DstChain == w.ck.chainName) // this chain is the destination

	_, err := w.k.RecvPacket(sdk.WrapSDKContext(w.ctx), msg)
	if err != nil {
		return // rejected: rolled back as a whole (assumption A-atomic)
	}
	rt.Reach("accepted")
	ack, hasAck := w.k.PacketKeeper.GetPacketAcknowledgement(w.ctx, p.SrcChain, p.DstChain, p.Sequence)
	rt.Assert("R0-ack-written", hasAck)
	relayer, _ := w.ck.GetRelayerAddressOnOtherChain(w.ctx, p.SrcChain, msg.Signer)
	errAck, e := packettypes.NewAcknowledgement(1, []byte{}, "receive packet callback failed", relayer, p.FeeOption).ABIPack()
	rt.Assume(e == nil)
	committed := rt.StoreWrites(w.ctx, "evm")

	// which calls did the module make into the EVM?
	ncb := 0
	for _, c := range w.evm.calls {
		if rt.CallMethod(packetcontract.PacketContract.ABI, c.data) == "onRecvPacket" {
			ncb++
		}
	}
	rt.Assert("R2-callback-at-most-once", ncb <= 1)

	// the handler declares the callback failed exactly when the EVM call errored, reverted, or a post-tx hook failed
	callbackFailed := w.evm.failures+w.evm.hookFails > 0
	if callbackFailed {
		rt.Reach("refund-path")
		rt.Assert("R1-failed-callback-gets-the-error-ack", rt.BytesEq(ack, hashOf(errAck)))
		rt.Known("H1-callback-effects-survive-error-ack", committed != 0)
		rt.Assert("R1-error-ack-leaves-no-effect", committed == 0)
	} else {
		var result packettypes.Result
		rt.Assume(len(w.evm.rets) == 1 && packetcontract.PacketContract.ABI.UnpackIntoInterface(&result, "onRecvPacket", w.evm.rets[0]) == nil)
		resAck, e2 := packettypes.NewAcknowledgement(result.Code, result.Result, result.Message, relayer, p.FeeOption).ABIPack()
		rt.Assume(e2 == nil)
		rt.Assert("R2-ack-carries-the-contract's-result", rt.BytesEq(ack, hashOf(resAck)))
		if result.Code != 0 {
			// the contract answered with a failure code and no EVM error: the source refunds on every non-zero code
			// (VerifC03AckOutcome A1), so whatever the callback did before it gave up must not be committed
			rt.Reach("refund-by-result-code")
			rt.Assert("R1-failure-code-leaves-no-effect", committed == 0)
		} else {
			rt.Reach("delivered-path")
			rt.Assert("R2-delivered-effects-committed-once", committed == 1 && ncb == 1)
		}
	}
}

// VerifC03AckOutcome: on the source, the acknowledgement's code alone decides delivered (status 1) or refunded (status 2),
// exactly one of them, followed by one fee payment and one callback.
func VerifC03AckOutcome() { ackOutcome() }

func ackOutcome() {
	w := newXWorld(2 + rt.Tier())
	msg := &packettypes.MsgAcknowledgement{Packet: rt.Bytes("packetBytes"), Acknowledgement: rt.Bytes("ackBytes"), ProofAcked: rt.Bytes("proof"),
		ProofHeight: clienttypes.Height{RevisionNumber: rt.U64("rev"), RevisionHeight: rt.U64("height")}, Signer: rt.Str("signer")}
	var p packettypes.Packet
	_ = p.ABIDecode(msg.Packet)
	var ack packettypes.Acknowledgement
	_ = ack.ABIDecode(msg.Acknowledgement)
	rt.Assume(p.SrcChain == w.ck.chainName)

	_, err := w.k.Acknowledgement(sdk.WrapSDKContext(w.ctx), msg)
	if err != nil {
		return
	}
	rt.Reach("accepted")
	abi := packetcontract.PacketContract.ABI
	var methods []string
	for _, c := range w.evm.calls {
		methods = append(methods, rt.CallMethod(abi, c.data))
	}
	rt.Assert("A1-three-calls-in-order", len(methods) == 3 && methods[0] == "setAckStatus" && methods[1] == "sendPacketFeeToRelayer" && methods[2] == "OnAcknowledgePacket")
	args := rt.CallArgs(abi, w.evm.calls[0].data)
	rt.Assert("A1-status-args", len(args) == 3 && args[0].(string) == p.DstChain && args[1].(uint64) == p.Sequence)
	status := args[2].(uint8)
	if ack.Code == 0 {
		rt.Reach("delivered")
		rt.Assert("A1-success-status", status == 1)
	} else {
		rt.Reach("refunded")
		rt.Assert("A1-refund-status", status == 2)
	}
	// the fee of exactly this packet goes to the Teleport account registered for the relayer named in the acknowledgement
	fee := rt.CallArgs(abi, w.evm.calls[1].data)
	isReg := rt.UFBool("relayerOnTeleportKnown", p.DstChain, ack.Relayer) // the registry's answers (uninterpreted, see newXWorld)
	regd := rt.UFStr("relayerOnTeleport", p.DstChain, ack.Relayer)
	acc, accErr := sdk.AccAddressFromBech32(regd)
	rt.Assert("A1-fee-paid-for-this-packet-to-the-registered-relayer", len(fee) == 3 && fee[0].(string) == p.DstChain && fee[1].(uint64) == p.Sequence &&
		isReg && accErr == nil && fee[2].(common.Address) == common.BytesToAddress(acc))
	rt.Assert("A2-commitment-gone", !w.k.PacketKeeper.HasPacketCommitment(w.ctx, p.SrcChain, p.DstChain, p.Sequence))
	cb := rt.CallArgs(abi, w.evm.calls[2].data)
	rt.Assert("A3-callback-gets-this-packet-and-ack", len(cb) == 2 && cb[0].(packettypes.Packet).Sequence == p.Sequence && cb[0].(packettypes.Packet).DstChain == p.DstChain && cb[1].(packettypes.Acknowledgement).Code == ack.Code)
}
