package keeper

// VerifC03OnlyEscrowedSendsAreCommitted (shared with the C04 check): a commitment - the counterparty's licence to mint or
// release - is written only for a PacketSent log of the packet contract itself, which emits it only after the endpoint
// contract has taken the tokens; a log of any other contract, whatever its topic and data, commits nothing.
func VerifC03OnlyEscrowedSendsAreCommitted() { c04Hook() }
