package keeper

// VerifC05AckProcessedOnce: on the sending chain an accepted acknowledgement is processed completely and once - the
// commitment is gone, the outcome is recorded (one setAckStatus), the relayer fee of exactly this packet is paid out
// (one sendPacketFeeToRelayer, to the account registered for the relayer the acknowledgement names) and the sender's
// callback runs once (one OnAcknowledgePacket), in this order and with nothing else; any failing step fails the message
// (shared with the C03 check, harness/C03/xk_c03.go).
func VerifC05AckProcessedOnce() { ackOutcome() }

// VerifC05FailedCallbackGetsTheErrorAck (shared with the C03 check): an accepted receive whose callback fails at any stage -
// the EVM call errors, reverts, or a post-transaction hook rejects what the callback did - commits the error
// acknowledgement (and none of the callback's effects); only a callback that went through commits its result.
func VerifC05FailedCallbackGetsTheErrorAck() { recvOutcome() }
