package keeper

import (
	clienttypes "github.com/teleport-network/teleport/x/xibc/core/client/types"
	"github.com/teleport-network/teleport/x/xibc/core/packet/types"
	rt "github.com/teleport-network/teleport/zzverifrt"
)

// VerifC05WriteAck: an acknowledgement is written at most once per packet and never overwritten.
func VerifC05WriteAck() {
	w := newWorld(2 + rt.Tier())
	var p types.Packet
	rt.Fresh(&p, "packet")
	ack := rt.Bytes("ack")
	_, had := w.k.GetPacketAcknowledgement(w.ctx, p.SrcChain, p.DstChain, p.Sequence)

	err := w.k.WriteAcknowledgement(w.ctx, &p, ack)

	if had {
		rt.Reach("already-acked")
		rt.Assert("W1-existing-ack-not-overwritten", err != nil)
	}
	if err != nil {
		return // rejected: the transaction is rolled back by baseapp (assumption A-atomic)
	}
	rt.Reach("written")
	rt.Assert("W1-no-ack-before", !had)
	now, has := w.k.GetPacketAcknowledgement(w.ctx, p.SrcChain, p.DstChain, p.Sequence)
	rt.Assert("W1-ack-is-hash-of-bytes", has && rt.BytesEq(now, specHash5(ack)))
	rt.Assert("W1-single-write", rt.StoreWrites(w.ctx, "xibc") == 1)
	// a second write for the same packet must fail whatever the bytes
	rt.Assert("W2-second-write-fails", w.k.WriteAcknowledgement(w.ctx, &p, rt.Bytes("ack2")) != nil)
}

// VerifC05AckPacket: a commitment is removed only by an accepted acknowledgement of exactly that packet, once.
func VerifC05AckPacket() {
	w := newWorld(2 + rt.Tier())
	msg := &types.MsgAcknowledgement{Packet: rt.Bytes("packetBytes"), Acknowledgement: rt.Bytes("ackBytes"), ProofAcked: rt.Bytes("proof"),
		ProofHeight: clienttypes.Height{RevisionNumber: rt.U64("rev"), RevisionHeight: rt.U64("height")}, Signer: rt.Str("signer")}
	var p types.Packet
	decErr := p.ABIDecode(msg.Packet)
	had := w.k.HasPacketCommitment(w.ctx, p.SrcChain, p.DstChain, p.Sequence)

	err := w.k.AcknowledgePacket(w.ctx, msg)

	if !had || decErr != nil {
		rt.Reach("no-commitment")
		rt.Assert("K2-absent-commitment-rejected", err != nil)
	}
	if err != nil {
		return // rejected: rolled back by baseapp (assumption A-atomic)
	}
	rt.Reach("acknowledged")
	rt.Assert("K1-commitment-removed", !w.k.HasPacketCommitment(w.ctx, p.SrcChain, p.DstChain, p.Sequence))
	n, vc, _ := w.verifierCalls()
	rt.Assert("K1-verified", n == 1 && vc.returnedOK)
	// processed at most once: the same or any other acknowledgement message for this packet now fails
	msg2 := &types.MsgAcknowledgement{Packet: msg.Packet, Acknowledgement: rt.Bytes("ackBytes2"), ProofAcked: rt.Bytes("proof2"),
		ProofHeight: clienttypes.Height{RevisionNumber: rt.U64("rev2"), RevisionHeight: rt.U64("height2")}, Signer: rt.Str("signer2")}
	rt.Assert("K3-second-ack-fails", w.k.AcknowledgePacket(w.ctx, msg2) != nil)
}

// VerifC05AckOfExactlyThatPacket (shared with the C02 check): an acknowledgement is accepted only if this chain still holds
// the commitment of exactly the packet the message carries - the stored value equals sha256 of the ABI encoding of the decoded
// packet - and the counterparty provably stored the hash of exactly those acknowledgement bytes; the commitment is deleted then.
func VerifC05AckOfExactlyThatPacket() { c02Ack() }
