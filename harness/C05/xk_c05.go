package keeper

import (
	sdk "github.com/cosmos/cosmos-sdk/types"

	clienttypes "github.com/teleport-network/teleport/x/xibc/core/client/types"
	packettypes "github.com/teleport-network/teleport/x/xibc/core/packet/types"
	rt "github.com/teleport-network/teleport/zzverifrt"
)

// VerifC05RecvWritesOneAck: every accepted receive of a packet addressed to this chain leaves exactly one
// acknowledgement for it in the transaction's state - whether the callback succeeded or failed.
func VerifC05RecvWritesOneAck() {
	w := newXWorld(2 + rt.Tier())
	msg := &packettypes.MsgRecvPacket{Packet: rt.Bytes("packetBytes"), ProofCommitment: rt.Bytes("proof"),
		ProofHeight: clienttypes.Height{RevisionNumber: rt.U64("rev"), RevisionHeight: rt.U64("height")}, Signer: rt.Str("signer")}
	var p packettypes.Packet
	_ = p.ABIDecode(msg.Packet)
	rt.Assume(p.DstChain == w.ck.chainName)
	_, hadAck := w.k.PacketKeeper.GetPacketAcknowledgement(w.ctx, p.SrcChain, p.DstChain, p.Sequence)

	_, err := w.k.RecvPacket(sdk.WrapSDKContext(w.ctx), msg)
	if err != nil {
		return
	}
	rt.Reach("accepted")
	rt.Assert("W3-no-ack-before", !hadAck)
	_, has := w.k.PacketKeeper.GetPacketAcknowledgement(w.ctx, p.SrcChain, p.DstChain, p.Sequence)
	rt.Assert("W3-ack-committed-with-the-message", has)
	if w.evm.failures+w.evm.hookFails > 0 {
		rt.Reach("callback-failed")
	} else {
		rt.Reach("callback-ok")
	}
	// writes of this message: receipt + acknowledgement (nothing else in the xibc store)
	rt.Assert("W3-exactly-receipt-and-one-ack-written", rt.StoreWrites(w.ctx, "xibc") == 2)
}
