package keeper

import (
	"math/big"

	"github.com/ethereum/go-ethereum/common"
	ethtypes "github.com/ethereum/go-ethereum/core/types"

	packetcontract "github.com/teleport-network/teleport/syscontracts/xibc_packet"
	"github.com/teleport-network/teleport/x/xibc/core/host"
	"github.com/teleport-network/teleport/x/xibc/core/packet/types"
	rt "github.com/teleport-network/teleport/zzverifrt"
)

// invariant I2: a stored counter was written by SetNextSequenceSend (8 bytes)
func (w *world) assumeCounterWellFormed(src, dst string) {
	bz := w.ctx.KVStore(w.key).Get(host.NextSequenceSendKey(src, dst))
	rt.Assume(bz == nil || len(bz) == 8)
}

// VerifC04Send: one SendPacket from an arbitrary store.
func VerifC04Send() {
	w := newWorld(2 + rt.Tier())
	var p types.Packet
	rt.Fresh(&p, "packet")
	w.assumeCounterWellFormed(p.SrcChain, p.DstChain)
	next := w.k.GetNextSequenceSend(w.ctx, p.SrcChain, p.DstChain)
	rt.Assume(next != ^uint64(0)) // invariant I3: the counter is below 2^64-1
	hadCommit := w.k.HasPacketCommitment(w.ctx, p.SrcChain, p.DstChain, p.Sequence)

	err := w.k.SendPacket(w.ctx, &p)
	if err != nil {
		rt.Reach("send-rejected")
		return // rolled back with the EVM transaction (see VerifC04Hook)
	}
	rt.Reach("sent")
	rt.Assert("S1-source-is-this-chain", p.SrcChain == w.ck.chainName)
	rt.Assert("S1-destination-client-exists", w.ck.find(p.DstChain) != nil)
	rt.Assert("S1-sequence-is-next", p.Sequence == next)
	rt.Assert("S1-counter-incremented", w.k.GetNextSequenceSend(w.ctx, p.SrcChain, p.DstChain) == next+1)
	rt.Assert("S1-commitment-is-hash-of-packet", rt.BytesEq(w.k.GetPacketCommitment(w.ctx, p.SrcChain, p.DstChain, p.Sequence), specCommit(p)))
	_ = hadCommit
	// the contract-side counter is set to the same value by exactly one module call
	rt.Assert("S1-one-contract-call", len(w.evm.calls) == 1)
	c := w.evm.calls[0]
	args := rt.CallArgs(packetcontract.PacketContract.ABI, c.data)
	rt.Assert("S1-setSequence", rt.CallMethod(packetcontract.PacketContract.ABI, c.data) == "setSequence" && len(args) == 2 && args[0].(string) == p.DstChain && args[1].(uint64) == next+1)
	rt.Assert("S1-called-as-module", c.from == types.ModuleAddress && c.to != nil && *c.to == packetcontract.PacketContractAddress && c.commit)
	// exactly two keys changed: the counter and the commitment
	rt.Assert("S1-two-writes", rt.StoreWrites(w.ctx, "xibc") == 2)
}

// VerifC04TwoSends: two consecutive sends to the same destination get consecutive numbers; a repeat of the first fails.
func VerifC04TwoSends() {
	w := newWorld(1)
	var p1, p2 types.Packet
	rt.Fresh(&p1, "packet1")
	rt.Fresh(&p2, "packet2")
	rt.Assume(p1.DstChain == p2.DstChain)
	w.assumeCounterWellFormed(p1.SrcChain, p1.DstChain)
	next := w.k.GetNextSequenceSend(w.ctx, p1.SrcChain, p1.DstChain)
	rt.Assume(next < ^uint64(0)-1)
	if w.k.SendPacket(w.ctx, &p1) != nil {
		return
	}
	if w.k.SendPacket(w.ctx, &p2) != nil {
		return
	}
	rt.Reach("two-sent")
	rt.Assert("S4-consecutive", p1.Sequence == next && p2.Sequence == next+1)
	rt.Assert("S4-both-commitments", w.k.HasPacketCommitment(w.ctx, p1.SrcChain, p1.DstChain, next) && w.k.HasPacketCommitment(w.ctx, p1.SrcChain, p1.DstChain, next+1))
	rt.Assert("S4-no-repeat", w.k.SendPacket(w.ctx, &p1) != nil)
}

// VerifC04Hook: the post-transaction hook turns PacketSent logs of the packet contract into sends and fails the
// transaction if any of them fails; logs of other addresses or other events cause nothing.
func VerifC04Hook() { c04Hook() }

func c04Hook() {
	w := newWorld(1)
	n := rt.IntRange("nlogs", 0, 2+rt.Tier())
	receipt := &ethtypes.Receipt{}
	fromContract := make([]bool, n)
	for i := 0; i < n; i++ {
		l := &ethtypes.Log{Data: rt.Bytes("logdata")}
		fromContract[i] = rt.Bool("from-packet-contract")
		if fromContract[i] {
			l.Address = packetcontract.PacketContractAddress
		} else {
			l.Address = common.BytesToAddress(rt.BytesN("otheraddr", 20))
			rt.Assume(l.Address != packetcontract.PacketContractAddress)
		}
		if rt.Bool("has-topic") {
			l.Topics = []common.Hash{common.BytesToHash(rt.BytesN("topic", 32))}
		}
		receipt.Logs = append(receipt.Logs, l)
	}
	anyFromContract := false
	for _, b := range fromContract {
		anyFromContract = anyFromContract || b
	}
	sendErrs, sendCalls := 0, 0
	rt.Override("(github.com/teleport-network/teleport/x/xibc/core/packet/keeper.Keeper).SendPacket", func(k Keeper, ctx sdkContext, packet packetI) error {
		sendCalls++
		err := k.SendPacket(ctx, packet)
		if err != nil {
			sendErrs++
		}
		return err
	})
	err := w.k.Hooks().PostTxProcessing(w.ctx, anyTxMessage(), receipt)
	if !anyFromContract {
		rt.Reach("foreign-logs-only")
		rt.Assert("S3-foreign-logs-do-nothing", err == nil && rt.StoreWrites(w.ctx, "xibc") == 0 && len(w.evm.calls) == 0)
	}
	if sendErrs > 0 {
		rt.Reach("send-failed")
		rt.Assert("S2-send-failure-fails-transaction", err != nil)
	}
	if err == nil {
		// every PacketSent log of the packet contract in the receipt became exactly one send
		qualifying := 0
		for i, l := range receipt.Logs {
			if !fromContract[i] || len(l.Topics) == 0 {
				continue
			}
			ev, e := packetcontract.PacketContract.ABI.EventByID(l.Topics[0])
			if e == nil && ev.Name == types.PacketSendEvent {
				qualifying++
			}
		}
		rt.Assert("S5-one-send-per-PacketSent-log", sendCalls == qualifying)
		rt.Reach("hook-ok")
		// every commitment written belongs to one successful send: writes come in pairs (counter, commitment)
		rt.Assert("S2-writes-paired", rt.StoreWrites(w.ctx, "xibc") == 2*len(w.evm.calls))
	}
}

// VerifC04ChainInitiatedCall: a send nested in an EVM call the chain itself makes (receive callback, acknowledgement
// callback) is turned into a commitment by the post-transaction hooks that CallEVMWithData runs by hand. ApplyMessage has
// already committed the EVM half into the context by then, so a failing hook (a rejected send) must surface as an error of
// the call - the only thing that makes the caller drop that context; and hooks never run for a failed execution.
func VerifC04ChainInitiatedCall() {
	w := newWorld(1)
	to := common.BytesToAddress(rt.BytesN("contract", 20))
	res, err := w.k.CallEVMWithData(w.ctx, common.BytesToAddress(rt.BytesN("from", 20)), &to, rt.Bytes("calldata"))
	rt.Reach("returned")
	if w.evm.hookFails > 0 {
		rt.Reach("post-processing-failed")
		rt.Assert("S6-failed-post-processing-fails-the-call", err != nil && res == nil)
	}
	if w.evm.failures > 0 {
		rt.Reach("execution-failed")
		rt.Assert("S6-failed-execution-fails-the-call-without-hooks", err != nil && w.evm.hookCalls == 0)
	}
	if err == nil {
		rt.Reach("succeeded")
		rt.Assert("S6-success-ran-the-hooks-once", w.evm.hookCalls == 1 && w.evm.hookFails == 0 && w.evm.failures == 0)
	}
}

// anyTxMessage: the EVM transaction whose receipt is processed - any sender, any or no recipient (a direct call of the
// endpoint contract, a user contract calling it in a nested call, a chain-initiated call), any call data.
func anyTxMessage() ethtypes.Message {
	var to *common.Address
	if rt.Bool("tx.has-recipient") {
		a := common.BytesToAddress(rt.BytesN("tx.to", 20))
		to = &a
	}
	return ethtypes.NewMessage(common.BytesToAddress(rt.BytesN("tx.from", 20)), to, rt.U64("tx.nonce"), big.NewInt(0), rt.U64("tx.gas"), big.NewInt(0), big.NewInt(0), big.NewInt(0), rt.Bytes("tx.data"), nil, false)
}

// VerifC04SendLeavesOtherPathsUntouched (S5, frame condition): sequences are per destination - a send to one destination
// leaves the send counter and every commitment of any OTHER destination as they were (destination names are structured byte
// strings of 2 bytes each, so "other" means different in at least one byte, letter case included).
func VerifC04SendLeavesOtherPathsUntouched() {
	w := newWorld(2)
	var p types.Packet
	rt.Fresh(&p, "packet")
	p.DstChain = rt.StrN("dst", 2)
	other := rt.StrN("otherDst", 2)
	seq := rt.U64("otherSeq")
	rt.Assume(other != p.DstChain)
	w.assumeCounterWellFormed(p.SrcChain, p.DstChain)
	w.assumeCounterWellFormed(p.SrcChain, other)
	counter := w.k.GetNextSequenceSend(w.ctx, p.SrcChain, other)
	commit := w.k.GetPacketCommitment(w.ctx, p.SrcChain, other, seq)
	if w.k.SendPacket(w.ctx, &p) != nil {
		return
	}
	rt.Reach("sent")
	rt.Assert("S5-other-destination's-counter-untouched", w.k.GetNextSequenceSend(w.ctx, p.SrcChain, other) == counter)
	rt.Assert("S5-other-destination's-commitments-untouched", rt.BytesEq(w.k.GetPacketCommitment(w.ctx, p.SrcChain, other, seq), commit))
}
