package client

import ics23 "github.com/confio/ics23/go"

func tmProofSpecs() []*ics23.ProofSpec { return []*ics23.ProofSpec{{}} }
