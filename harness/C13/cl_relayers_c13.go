package client

import (
	sdk "github.com/cosmos/cosmos-sdk/types"
	"github.com/teleport-network/teleport/x/xibc/core/client/types"
	rt "github.com/teleport-network/teleport/zzverifrt"
)

func sameStrings(a, b []string) bool {
	if len(a) != len(b) {
		return false
	}
	for i := range a {
		if a[i] != b[i] {
			return false
		}
	}
	return true
}

// VerifC13Relayers: a registry of two or three relayers (arbitrary 8-byte addresses in any order, one or two chains each) is
// exported record by record as registered, imported into an empty store as the same records, and exported again identically.
func VerifC13Relayers() {
	rt.Opt("structured-keys")
	rt.RegisterInterfaces(types.RegisterInterfaces)
	k := genesisKeeper()
	src := rt.EmptyCtx()
	k.SetChainName(src, "teleport")
	n := rt.IntRange("relayers", 2, 3)
	var regs []types.IdentifiedRelayer
	for i := 0; i < n; i++ {
		r := types.IdentifiedRelayer{Address: sdk.AccAddress(rt.BytesN("relayer.address", 20)).String()} // real bech32 account addresses, in any order
		for _, o := range regs {
			rt.Assume(o.Address != r.Address)
		}
		m := rt.IntRange("relayer.chains", 1, 2)
		for j := 0; j < m; j++ {
			r.Chains = append(r.Chains, rt.Str("relayer.chain"))
			r.Addresses = append(r.Addresses, rt.Str("relayer.counterparty"))
		}
		regs = append(regs, r)
		c13AssumeRegistrable(r.Address, r.Chains, r.Addresses)
		k.RegisterRelayers(src, r.Address, r.Chains, r.Addresses)
	}
	gs := ExportGenesis(src, k)
	rt.Reach("exported")
	rt.Assert("G1-export-passes-validation", gs.Validate() == nil)
	rt.Assert("G1-one-exported-record-per-relayer", len(gs.Relayers) == n)
	for _, r := range regs {
		found := false
		for _, e := range gs.Relayers {
			if e.Address == r.Address {
				found = true
				rt.Assert("G1-exported-record-is-the-registered-one", sameStrings(e.Chains, r.Chains) && sameStrings(e.Addresses, r.Addresses))
			}
		}
		rt.Assert("G1-relayer-exported", found)
	}
	dst := rt.EmptyCtx()
	if rt.NoPanic("G2-import-does-not-panic", func() { InitGenesis(dst, k, gs) }) {
		return
	}
	rt.Reach("imported")
	for _, r := range regs {
		got, ok := k.GetRelayer(dst, r.Address)
		rt.Assert("G2-relayer-record-preserved", ok && got.Address == r.Address && sameStrings(got.Chains, r.Chains) && sameStrings(got.Addresses, r.Addresses))
	}
	gs2 := ExportGenesis(dst, k)
	same := len(gs2.Relayers) == len(gs.Relayers)
	for i := 0; same && i < len(gs.Relayers); i++ {
		same = gs2.Relayers[i].Address == gs.Relayers[i].Address && sameStrings(gs2.Relayers[i].Chains, gs.Relayers[i].Chains) && sameStrings(gs2.Relayers[i].Addresses, gs.Relayers[i].Addresses)
	}
	rt.Assert("G3-re-export-gives-the-same-relayers", same)
}
