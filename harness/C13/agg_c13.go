package aggregate

// C13 for the aggregate module: the genesis carries parameters and token pairs; InitGenesis must rebuild the pair table
// and BOTH indexes (contract -> pair, every denomination -> pair), so that the imported module answers every lookup as
// the exporting one did, and exporting again gives the same genesis.

import (
	sdk "github.com/cosmos/cosmos-sdk/types"
	authkeeper "github.com/cosmos/cosmos-sdk/x/auth/keeper"
	authtypes "github.com/cosmos/cosmos-sdk/x/auth/types"
	banktypes "github.com/cosmos/cosmos-sdk/x/bank/types"
	"github.com/ethereum/go-ethereum/common"

	"github.com/teleport-network/teleport/x/aggregate/keeper"
	"github.com/teleport-network/teleport/x/aggregate/types"
	rt "github.com/teleport-network/teleport/zzverifrt"
)

func VerifC13AggregateGenesis() { c13AggregateGenesis() }

func c13AggregateGenesis() {
	rt.Override("(github.com/cosmos/cosmos-sdk/x/auth/keeper.AccountKeeper).GetModuleAccount", func(_ authkeeper.AccountKeeper, _ sdk.Context, name string) authtypes.ModuleAccountI {
		return &authtypes.ModuleAccount{Name: name} // the module account exists (it is created by the auth genesis)
	})
	k := keeper.NewKeeper(rt.StoreKey(types.StoreKey), rt.Codec(), rt.Subspace(), nil, nil, nil)
	src := rt.EmptyCtx()
	params := types.Params{EnableAggregate: rt.Bool("enableAggregate"), EnableEVMHook: rt.Bool("enableEVMHook")}
	k.SetParams(src, params)
	var pair types.TokenPair
	registered := rt.Bool("pairRegistered")
	if registered {
		addr := common.BytesToAddress(rt.BytesN("pairAddr", 20))
		denoms := []string{rt.Str("denom0")}
		if rt.Bool("twoDenoms") {
			denoms = append(denoms, rt.Str("denom1"))
			rt.Assume(denoms[0] != denoms[1])
		}
		owner := types.Owner(rt.U32("owner"))
		rt.Assume(owner == types.OWNER_MODULE || owner == types.OWNER_EXTERNAL)
		pair = types.NewTokenPair(addr, denoms, rt.Bool("pairEnabled"), owner)
		rt.Assume(pair.Validate() == nil) // what the registration proposals guarantee
		k.SetTokenPair(src, pair)
		k.SetDenomsMap(src, pair.Denoms, pair.GetID())
		k.SetERC20Map(src, pair.GetERC20Contract(), pair.GetID())
	}

	gs := ExportGenesis(src, *k)
	rt.Reach("exported")
	rt.Assert("G1-aggregate-export-passes-validation", gs.Validate() == nil)
	dst := rt.EmptyCtx()
	if rt.NoPanic("G2-aggregate-import-does-not-panic", func() { InitGenesis(dst, *k, authkeeper.AccountKeeper{}, *gs) }) {
		return
	}
	rt.Reach("imported")
	got := k.GetParams(dst)
	rt.Assert("G2-aggregate-params-preserved", got.EnableAggregate == params.EnableAggregate && got.EnableEVMHook == params.EnableEVMHook)
	// every lookup answers as before: the pair's own keys, and an arbitrary other denomination / contract
	probeDenom, probeAddr := rt.Str("probeDenom"), common.BytesToAddress(rt.BytesN("probeAddr", 20))
	rt.Assert("G2-aggregate-denomination-lookup-preserved", rt.BytesEq(k.GetDenomMap(dst, probeDenom), k.GetDenomMap(src, probeDenom)))
	rt.Assert("G2-aggregate-contract-lookup-preserved", rt.BytesEq(k.GetERC20Map(dst, probeAddr), k.GetERC20Map(src, probeAddr)))
	if registered {
		rt.Reach("pair")
		if len(pair.Denoms) == 2 {
			rt.Reach("two-denominations")
		}
		for _, d := range pair.Denoms {
			rt.Assert("G2-aggregate-every-denomination-indexed", rt.BytesEq(k.GetDenomMap(dst, d), pair.GetID()))
		}
		rt.Assert("G2-aggregate-contract-indexed", rt.BytesEq(k.GetERC20Map(dst, pair.GetERC20Contract()), pair.GetID()))
		p2, found := k.GetTokenPair(dst, pair.GetID())
		same := found && p2.ERC20Address == pair.ERC20Address && p2.Enabled == pair.Enabled && p2.ContractOwner == pair.ContractOwner && len(p2.Denoms) == len(pair.Denoms)
		for i := 0; same && i < len(pair.Denoms); i++ {
			same = p2.Denoms[i] == pair.Denoms[i]
		}
		rt.Assert("G2-aggregate-pair-preserved", same)
	}
	gs2 := ExportGenesis(dst, *k)
	rt.Assert("G3-aggregate-re-export-same", len(gs2.TokenPairs) == len(gs.TokenPairs) && gs2.Params.EnableAggregate == gs.Params.EnableAggregate && gs2.Params.EnableEVMHook == gs.Params.EnableEVMHook)
}

// a bank that answers the metadata question UpdateTokenPairERC20 asks in a way that lets the update go through
type c13Bank struct{ md banktypes.Metadata }

func (c13Bank) SendCoinsFromModuleToAccount(sdk.Context, string, sdk.AccAddress, sdk.Coins) error { return nil }
func (c13Bank) SendCoinsFromAccountToModule(sdk.Context, sdk.AccAddress, string, sdk.Coins) error { return nil }
func (c13Bank) MintCoins(sdk.Context, string, sdk.Coins) error                                    { return nil }
func (c13Bank) BurnCoins(sdk.Context, string, sdk.Coins) error                                    { return nil }
func (c13Bank) IsSendEnabledCoin(sdk.Context, sdk.Coin) bool                                      { return true }
func (c13Bank) BlockedAddr(sdk.AccAddress) bool                                                   { return false }
func (b c13Bank) GetDenomMetaData(sdk.Context, string) (banktypes.Metadata, bool)                 { return b.md, true }
func (c13Bank) SetDenomMetaData(sdk.Context, banktypes.Metadata)                                  {}
func (c13Bank) HasSupply(sdk.Context, string) bool                                                { return true }
func (c13Bank) GetBalance(_ sdk.Context, _ sdk.AccAddress, d string) sdk.Coin                     { return sdk.Coin{Denom: d, Amount: sdk.ZeroInt()} }

// VerifC13AggregateAfterUpdate: a pair that was re-pointed to another contract by the real UpdateTokenPairERC20 before the
// export: after the import the pair record and both index entries sit under the same keys with the same values as in the
// exporting store (the key of a pair record is its id; the index values are ids).
func VerifC13AggregateAfterUpdate() {
	rt.Override("(github.com/cosmos/cosmos-sdk/x/auth/keeper.AccountKeeper).GetModuleAccount", func(_ authkeeper.AccountKeeper, _ sdk.Context, name string) authtypes.ModuleAccountI {
		return &authtypes.ModuleAccount{Name: name}
	})
	oldAddr, newAddr := common.BytesToAddress(rt.BytesN("oldAddr", 20)), common.BytesToAddress(rt.BytesN("newAddr", 20))
	rt.Assume(oldAddr != newAddr)
	data := types.ERC20Data{Name: rt.Str("erc20Name"), Symbol: rt.Str("erc20Symbol"), Decimals: rt.U8("erc20Decimals")}
	rt.Override("(github.com/teleport-network/teleport/x/aggregate/keeper.Keeper).QueryERC20", func(_ keeper.Keeper, _ sdk.Context, c common.Address) (types.ERC20Data, error) {
		return data, nil
	})
	md := banktypes.Metadata{Description: types.CreateDenomDescription(oldAddr.String()), Display: data.Name, Symbol: data.Symbol,
		DenomUnits: []*banktypes.DenomUnit{{Denom: data.Name, Exponent: uint32(data.Decimals)}}}
	k := keeper.NewKeeper(rt.StoreKey(types.StoreKey), rt.Codec(), rt.Subspace(), nil, c13Bank{md: md}, nil)
	src := rt.EmptyCtx()
	k.SetParams(src, types.Params{EnableAggregate: true, EnableEVMHook: true})
	denom := rt.Str("denom0")
	pair := types.NewTokenPair(oldAddr, []string{denom}, true, types.OWNER_EXTERNAL)
	rt.Assume(pair.Validate() == nil)
	k.SetTokenPair(src, pair)
	k.SetDenomsMap(src, pair.Denoms, pair.GetID())
	k.SetERC20Map(src, pair.GetERC20Contract(), pair.GetID())
	_, err := k.UpdateTokenPairERC20(src, oldAddr, newAddr)
	rt.Assume(err == nil)
	rt.Reach("pair-re-pointed")

	gs := ExportGenesis(src, *k)
	rt.Assert("G1-aggregate-export-after-update-passes-validation", gs.Validate() == nil)
	dst := rt.EmptyCtx()
	if rt.NoPanic("G2-aggregate-import-does-not-panic", func() { InitGenesis(dst, *k, authkeeper.AccountKeeper{}, *gs) }) {
		return
	}
	rt.Reach("imported")
	idSrc, idDst := k.GetERC20Map(src, newAddr), k.GetERC20Map(dst, newAddr)
	rt.Assert("G2-aggregate-contract-index-entry-identical", len(idSrc) != 0 && rt.BytesEq(idSrc, idDst))
	rt.Assert("G2-aggregate-denomination-index-entry-identical", rt.BytesEq(k.GetDenomMap(src, denom), k.GetDenomMap(dst, denom)))
	_, okSrc := k.GetTokenPair(src, idSrc)
	_, okDst := k.GetTokenPair(dst, idSrc)
	rt.Assert("G2-aggregate-pair-record-under-the-same-key", okSrc && okDst)
	rt.Assert("G2-aggregate-old-contract-gone-in-both", len(k.GetERC20Map(src, oldAddr)) == 0 && len(k.GetERC20Map(dst, oldAddr)) == 0)
}
