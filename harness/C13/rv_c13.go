package rvesting

// C13 for the reward-vesting module: its genesis carries the parameters (the pool itself is a bank balance and travels with
// the bank genesis). Whatever parameters the params store holds - everything the registered validators accept - the export
// passes the module's own genesis validation, the import into a fresh chain does not panic and leaves the same parameters,
// and exporting again yields the same genesis. Uses the stubs of the C20 harness (same package).

import (
	sdk "github.com/cosmos/cosmos-sdk/types"

	"github.com/teleport-network/teleport/x/rvesting/keeper"
	"github.com/teleport-network/teleport/x/rvesting/types"
	rt "github.com/teleport-network/teleport/zzverifrt"
)

func sameCoins(a, b sdk.Coins) bool {
	if len(a) != len(b) {
		return false
	}
	for i := range a {
		if a[i].Denom != b[i].Denom || !a[i].Amount.Equal(b[i].Amount) {
			return false
		}
	}
	return true
}

func VerifC13VestingGenesis() {
	n := rt.IntRange("rewardCoins", 1, 2)
	var reward sdk.Coins
	for i := 0; i < n; i++ {
		reward = append(reward, sdk.Coin{Denom: rt.StrN("denom", 3), Amount: anyInt("rewardAmount")})
	}
	params := types.Params{EnableVesting: rt.Bool("enabled"), PerBlockReward: reward}
	pairs := (&params).ParamSetPairs()
	rt.Assume(pairs[0].ValidatorFn(params.EnableVesting) == nil)
	rt.Assume(pairs[1].ValidatorFn(params.PerBlockReward) == nil) // what the params store accepts (SetParams, parameter-change proposals)
	src, dst := rt.Ctx(), rt.Ctx()
	k1 := keeper.NewKeeper(rt.Subspace(), &stubBank{}, stubAccounts{}, "fee_collector")
	k2 := keeper.NewKeeper(rt.Subspace(), &stubBank{}, stubAccounts{}, "fee_collector") // the fresh chain: its own params store
	k1.SetParams(src, params)
	if n == 2 {
		rt.Reach("two-reward-entries")
	}
	gs := k1.ExportGenesis(src)
	rt.Assert("G1-vesting-export-passes-validation", types.ValidateGenesis(gs) == nil)
	if rt.NoPanic("G2-vesting-import-does-not-panic", func() { k2.InitGenesis(dst, gs) }) {
		return
	}
	rt.Reach("imported")
	got := k2.GetParams(dst)
	rt.Assert("G2-vesting-parameters-preserved", got.EnableVesting == params.EnableVesting && sameCoins(got.PerBlockReward, params.PerBlockReward))
	gs2 := k2.ExportGenesis(dst)
	rt.Assert("G3-vesting-re-export-same", gs2.Params.EnableVesting == gs.Params.EnableVesting && sameCoins(gs2.Params.PerBlockReward, gs.Params.PerBlockReward) && gs2.From == gs.From && sameCoins(gs2.InitReward, gs.InitReward))
}
