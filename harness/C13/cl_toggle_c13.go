package client

import (
	"time"

	ethtypes "github.com/teleport-network/teleport/x/xibc/clients/light-clients/eth/types"
	tmtypes "github.com/teleport-network/teleport/x/xibc/clients/light-clients/tendermint/types"
	tsstypes "github.com/teleport-network/teleport/x/xibc/clients/tss-client/types"
	"github.com/teleport-network/teleport/x/xibc/core/client/types"
	"github.com/teleport-network/teleport/x/xibc/exported"
	rt "github.com/teleport-network/teleport/zzverifrt"
)

func c13Client(kind int, tag string) (exported.ClientState, exported.ConsensusState) {
	h := types.Height{RevisionNumber: 0, RevisionHeight: rt.U64(tag + ".height")}
	rt.Assume(h.RevisionHeight >= 1 && h.RevisionHeight <= 40) // no 0x2F byte: that is the subject of the known finding H3
	switch kind {
	case 0:
		return &tmtypes.ClientState{ChainId: "chain-a-1", TrustLevel: tmtypes.Fraction{Numerator: 1, Denominator: 3}, TrustingPeriod: time.Hour, UnbondingPeriod: 2 * time.Hour,
				MaxClockDrift: time.Second, LatestHeight: h, ProofSpecs: tmProofSpecs()},
			&tmtypes.ConsensusState{Timestamp: rt.Time(tag + ".time"), Root: rt.Bytes(tag + ".root"), NextValidatorsHash: rt.Bytes(tag + ".nextVals")}
	case 1:
		return &ethtypes.ClientState{Header: ethtypes.Header{Height: h, GasLimit: 100, GasUsed: 1, Difficulty: []byte{1}}, ChainId: 1},
			&ethtypes.ConsensusState{Timestamp: rt.U64(tag + ".time"), Height: h, Root: rt.Bytes(tag + ".root")}
	}
	return &tsstypes.ClientState{TssAddress: rt.Str(tag + ".tssAddress")}, &tsstypes.ConsensusState{}
}

// VerifC13AfterToggle: a chain name whose client was created as one type and toggled to another (both through the keeper's
// own CreateClient / ToggleClient): the export passes the module's genesis validation and survives the round trip.
func VerifC13AfterToggle() {
	rt.Opt("structured-keys")
	rt.RegisterInterfaces(types.RegisterInterfaces)
	rt.RegisterInterfaces(tsstypes.RegisterInterfaces)
	rt.RegisterInterfaces(tmtypes.RegisterInterfaces)
	rt.RegisterInterfaces(ethtypes.RegisterInterfaces)
	k := genesisKeeper()
	src := rt.EmptyCtx()
	chain := "chain-a"
	k.SetChainName(src, "teleport")
	// Tendermint <-> TSS (the Ethereum / BSC clients index headers under hash-derived keys whose iteration order is not encodable)
	oldKind, newKind := rt.IntRange("oldType", 0, 2), rt.IntRange("newType", 0, 2)
	rt.Assume(oldKind != newKind && oldKind != 1 && newKind != 1)
	cs0, cons0 := c13Client(oldKind, "old")
	cs1, cons1 := c13Client(newKind, "new")
	rt.Assume(cs0.Validate() == nil && cons0.ValidateBasic() == nil && cs1.Validate() == nil && cons1.ValidateBasic() == nil)
	rt.Assume(k.CreateClient(src, chain, cs0, cons0) == nil)
	rt.Assume(k.ToggleClient(src, chain, cs1, cons1) == nil)
	rt.Reach("toggled")
	switch oldKind*3 + newKind {
	case 2:
		rt.Reach("tendermint-to-tss")
	case 6:
		rt.Reach("tss-to-tendermint")
	}

	gs := ExportGenesis(src, k)
	rt.Assert("G1-export-after-toggle-passes-validation", gs.Validate() == nil)
	dst := rt.EmptyCtx()
	if rt.NoPanic("G2-import-after-toggle-does-not-panic", func() { InitGenesis(dst, k, gs) }) {
		return
	}
	got, found := k.GetClientState(dst, chain)
	rt.Assert("G2-toggled-client-preserved", found && got.ClientType() == cs1.ClientType())
}

// VerifC13AfterUpgrade: a client created and then upgraded (same type, both through the keeper's own CreateClient /
// UpgradeClient): the export passes the module's genesis validation and survives the round trip.
func VerifC13AfterUpgrade() {
	rt.Opt("structured-keys")
	rt.RegisterInterfaces(types.RegisterInterfaces)
	rt.RegisterInterfaces(tsstypes.RegisterInterfaces)
	rt.RegisterInterfaces(tmtypes.RegisterInterfaces)
	rt.RegisterInterfaces(ethtypes.RegisterInterfaces)
	k := genesisKeeper()
	src := rt.EmptyCtx()
	chain := "chain-a"
	k.SetChainName(src, "teleport")
	kind := rt.IntRange("type", 0, 2)
	rt.Assume(kind != 1) // Tendermint and TSS (see VerifC13AfterToggle)
	cs0, cons0 := c13Client(kind, "old")
	cs1, cons1 := c13Client(kind, "new")
	rt.Assume(cs0.Validate() == nil && cons0.ValidateBasic() == nil && cs1.Validate() == nil && cons1.ValidateBasic() == nil)
	rt.Assume(k.CreateClient(src, chain, cs0, cons0) == nil)
	rt.Assume(k.UpgradeClient(src, chain, cs1, cons1) == nil)
	if kind == 2 {
		rt.Reach("tss-upgraded")
	} else {
		rt.Reach("tendermint-upgraded")
	}
	gs := ExportGenesis(src, k)
	rt.Assert("G1-export-after-upgrade-passes-validation", gs.Validate() == nil)
	dst := rt.EmptyCtx()
	if rt.NoPanic("G2-import-after-upgrade-does-not-panic", func() { InitGenesis(dst, k, gs) }) {
		return
	}
	got, found := k.GetClientState(dst, chain)
	rt.Assert("G2-upgraded-client-preserved", found && got.ClientType() == cs1.ClientType())
}

// VerifC13TwoConsensusStates: a Tendermint client that holds two consensus states (created at one height, updated to
// another, both written with the metadata an update writes): both are exported, the export validates, and both are there
// after the import - every consensus state at every height, not only the first ones an export happens to read.
func VerifC13TwoConsensusStates() {
	rt.Opt("structured-keys")
	rt.RegisterInterfaces(types.RegisterInterfaces)
	rt.RegisterInterfaces(tmtypes.RegisterInterfaces)
	k := genesisKeeper()
	src := rt.EmptyCtx()
	chain := "chain-a"
	k.SetChainName(src, "teleport")
	cs, cons1 := c13Client(0, "first")
	rt.Assume(cs.Validate() == nil && cons1.ValidateBasic() == nil)
	rt.Assume(k.CreateClient(src, chain, cs, cons1) == nil)
	h1 := cs.GetLatestHeight().(types.Height)
	h2 := types.Height{RevisionNumber: 0, RevisionHeight: rt.U64("second.height")}
	rt.Assume(h2.RevisionHeight >= 1 && h2.RevisionHeight <= 40 && h2 != h1)
	cons2 := &tmtypes.ConsensusState{Timestamp: rt.Time("second.time"), Root: rt.Bytes("second.root"), NextValidatorsHash: rt.Bytes("second.nextVals")}
	rt.Assume(cons2.ValidateBasic() == nil)
	k.SetClientConsensusState(src, chain, h2, cons2)
	store := k.ClientStore(src, chain)
	tmtypes.SetProcessedTime(store, h2, rt.U64("second.processedTime"))
	tmtypes.SetIterationKey(store, h2)

	gs := ExportGenesis(src, k)
	rt.Reach("exported")
	rt.Assert("G1-export-passes-validation", gs.Validate() == nil)
	n := 0
	for _, cc := range gs.ClientsConsensus {
		if cc.ChainName == chain {
			n += len(cc.ConsensusStates)
		}
	}
	rt.Assert("G1-every-consensus-state-exported", n == 2)
	dst := rt.EmptyCtx()
	if rt.NoPanic("G2-import-does-not-panic", func() { InitGenesis(dst, k, gs) }) {
		return
	}
	rt.Reach("imported")
	_, ok1 := k.GetClientConsensusState(dst, chain, h1)
	_, ok2 := k.GetClientConsensusState(dst, chain, h2)
	rt.Assert("G2-both-consensus-states-preserved", ok1 && ok2)
}

// VerifC13AfterLifecycleWithAnyConsensusState: the two parts of a lifecycle proposal are independent values - the consensus
// state may belong to another client type than the client state (ValidateBasic looks at the client state only). Whatever a
// SUCCESSFUL CreateClient / UpgradeClient leaves behind for such a pair is a reachable module state, so its export must pass
// the module's own genesis validation (which demands that a consensus state is of its client's type).
func VerifC13AfterLifecycleWithAnyConsensusState() {
	rt.Opt("structured-keys")
	rt.RegisterInterfaces(types.RegisterInterfaces)
	rt.RegisterInterfaces(tsstypes.RegisterInterfaces)
	rt.RegisterInterfaces(tmtypes.RegisterInterfaces)
	rt.RegisterInterfaces(ethtypes.RegisterInterfaces)
	k := genesisKeeper()
	src := rt.EmptyCtx()
	chain := "chain-a"
	k.SetChainName(src, "teleport")
	kind := rt.IntRange("type", 0, 2)
	rt.Assume(kind != 1) // Tendermint and TSS client states (see VerifC13AfterToggle); the consensus state is of any of the three types
	cs, own := c13Client(kind, "new")
	cons := own
	if consKind := rt.IntRange("consensusType", 0, 2); consKind != kind {
		_, cons = c13Client(consKind, "foreign")
		rt.Reach("consensus-state-of-another-client-type")
	}
	rt.Assume(cs.Validate() == nil && cons.ValidateBasic() == nil)
	if rt.Bool("upgrade") {
		cs0, cons0 := c13Client(kind, "old")
		rt.Assume(cs0.Validate() == nil && cons0.ValidateBasic() == nil)
		rt.Assume(k.CreateClient(src, chain, cs0, cons0) == nil)
		if k.UpgradeClient(src, chain, cs, cons) != nil {
			return // a refused proposal is rolled back by the governance cache context
		}
		rt.Reach("upgraded")
	} else {
		if k.CreateClient(src, chain, cs, cons) != nil {
			return
		}
		rt.Reach("created")
	}
	gs := ExportGenesis(src, k)
	rt.Assert("G1-export-after-a-successful-lifecycle-proposal-passes-validation", gs.Validate() == nil)
}
