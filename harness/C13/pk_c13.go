package packet

import (
	authtypes "github.com/cosmos/cosmos-sdk/x/auth/types"
	sdk "github.com/cosmos/cosmos-sdk/types"

	"github.com/teleport-network/teleport/x/xibc/core/host"
	"github.com/teleport-network/teleport/x/xibc/core/packet/keeper"
	rt "github.com/teleport-network/teleport/zzverifrt"
)

type gAccounts struct{}

func (gAccounts) GetModuleAddress(string) sdk.AccAddress                      { return nil }
func (gAccounts) GetSequence(sdk.Context, sdk.AccAddress) (uint64, error)     { return 0, nil }
func (gAccounts) GetModuleAccount(sdk.Context, string) authtypes.ModuleAccountI {
	return authtypes.NewEmptyModuleAccount("packet")
}

func vName(tag string) string {
	s := rt.StrN(tag, 3)
	rt.Assume(host.SrcChainValidator(s) == nil)
	return s
}

// VerifC13PacketGenesis: one entry of each packet-state family survives export -> validate -> import -> export.
func VerifC13PacketGenesis() { c13PacketGenesis() }

func c13PacketGenesis() {
	rt.Opt("exact-decimal")
	rt.Opt("structured-keys")
	rt.Abstract("github.com/cosmos/cosmos-sdk/x/auth/types.NewEmptyModuleAccount")
	k := keeper.NewKeeper(rt.Codec(), rt.StoreKey(host.StoreKey), nil, gAccounts{}, nil)
	src := rt.EmptyCtx()
	s, d := vName("src"), vName("dst")
	q := rt.U64("seq")
	rt.Assume(q >= 1 && q < 1000)
	hash := rt.BytesN("hash", 4)
	k.SetPacketCommitment(src, s, d, q, hash)
	k.SetPacketAcknowledgement(src, d, s, q, hash)
	k.SetPacketReceipt(src, d, s, q)
	k.SetNextSequenceSend(src, s, d, q+1)

	gs := ExportGenesis(src, k)
	rt.Reach("exported")
	rt.Assert("G1-export-passes-validation", gs.Validate() == nil)
	dst := rt.EmptyCtx()
	if rt.NoPanic("G2-import-does-not-panic", func() { InitGenesis(dst, k, gs) }) {
		return
	}
	rt.Assert("G2-commitment-preserved", rt.BytesEq(k.GetPacketCommitment(dst, s, d, q), hash))
	ack, okA := k.GetPacketAcknowledgement(dst, d, s, q)
	rt.Assert("G2-ack-preserved", okA && rt.BytesEq(ack, hash))
	rt.Assert("G2-receipt-preserved", k.HasPacketReceipt(dst, d, s, q))
	rt.Assert("G2-send-sequence-preserved", k.GetNextSequenceSend(dst, s, d) == q+1)
	gs2 := ExportGenesis(dst, k)
	rt.Assert("G3-re-export-same-shape", len(gs2.Commitments) == 1 && len(gs2.Acknowledgements) == 1 && len(gs2.Receipts) == 1 && len(gs2.SendSequences) == 1)
}
