package client

import (
	"time"

	sdk "github.com/cosmos/cosmos-sdk/types"
	paramtypes "github.com/cosmos/cosmos-sdk/x/params/types"

	ethtypes "github.com/teleport-network/teleport/x/xibc/clients/light-clients/eth/types"
	tmtypes "github.com/teleport-network/teleport/x/xibc/clients/light-clients/tendermint/types"
	tsstypes "github.com/teleport-network/teleport/x/xibc/clients/tss-client/types"
	"github.com/teleport-network/teleport/x/xibc/core/client/keeper"
	"github.com/teleport-network/teleport/x/xibc/core/client/types"
	"github.com/teleport-network/teleport/x/xibc/core/host"
	"github.com/teleport-network/teleport/x/xibc/exported"
	rt "github.com/teleport-network/teleport/zzverifrt"
)

func genesisKeeper() keeper.Keeper {
	return keeper.NewKeeper(rt.Codec(), rt.StoreKey(host.StoreKey), paramtypes.Subspace{}, nil)
}

// anyHeight: all 2^128 byte patterns of (revision, height) with at most one 0x2F byte (at an arbitrary position), non-zero.
func anyHeight(tag string) (types.Height, bool) {
	h := types.Height{RevisionNumber: rt.U64(tag + ".revision"), RevisionHeight: rt.U64(tag + ".height")}
	rt.Assume(!h.IsZero())
	pos := rt.IntRange(tag+".slashPosition", 0, 15)
	slash := false
	for i, b := range host.ConsensusStateKey(h)[len(host.KeyConsensusStatePrefix)+1:] {
		if i != pos {
			rt.Assume(b != '/')
		} else if b == '/' {
			slash = true
		}
	}
	return h, slash
}

// VerifC13ClientGenesis: export the client module's state, validate it, import it into an empty store, compare, re-export.
func VerifC13ClientGenesis() {
	rt.Opt("structured-keys")
	rt.RegisterInterfaces(types.RegisterInterfaces)
	rt.RegisterInterfaces(tsstypes.RegisterInterfaces)
	rt.RegisterInterfaces(tmtypes.RegisterInterfaces)
	rt.RegisterInterfaces(ethtypes.RegisterInterfaces)
	k := genesisKeeper()
	src := rt.EmptyCtx()
	chain := "chain-a"
	native := "teleport"
	k.SetChainName(src, native)
	relayer := rt.Str("relayer.address")
	k.RegisterRelayers(src, relayer, []string{chain}, []string{rt.Str("relayer.counterparty")})

	kind := rt.IntRange("clientType", 0, 2)
	var cs exported.ClientState
	var cons exported.ConsensusState
	h, slash := anyHeight("consensus")
	store := k.ClientStore(src, chain)
	switch kind {
	case 0: // Tendermint, with the metadata its update writes
		cs = &tmtypes.ClientState{ChainId: "chain-a-1", TrustLevel: tmtypes.Fraction{Numerator: 1, Denominator: 3}, TrustingPeriod: time.Hour, UnbondingPeriod: 2 * time.Hour,
			MaxClockDrift: time.Second, LatestHeight: h, ProofSpecs: tmProofSpecs()}
		cons = &tmtypes.ConsensusState{Timestamp: rt.Time("cons.time"), Root: rt.Bytes("cons.root"), NextValidatorsHash: rt.Bytes("cons.nextVals")}
		tmtypes.SetProcessedTime(store, h, rt.U64("processedTime"))
		tmtypes.SetIterationKey(store, h)
	case 1: // Ethereum
		cs = &ethtypes.ClientState{Header: ethtypes.Header{Height: h, GasLimit: 100, GasUsed: 1, Difficulty: []byte{1}}, ChainId: 1}
		cons = &ethtypes.ConsensusState{Timestamp: rt.U64("cons.time"), Height: h, Root: rt.Bytes("cons.root")}
	case 2: // TSS: no consensus states
		cs = &tsstypes.ClientState{TssAddress: rt.Str("tssAddress")}
	}
	// the stored state is a reachable one: it passed the validation every creation path applies
	rt.Assume(cs.Validate() == nil)
	if cons != nil {
		rt.Assume(cons.ValidateBasic() == nil)
	}
	k.SetClientState(src, chain, cs)
	if cons != nil {
		k.SetClientConsensusState(src, chain, h, cons)
	}
	rt.Known("H3-height-byte-0x2f-drops-consensus-state-on-export", slash && kind != 2)
	rt.Known("H2-eth-consensus-state-reports-bsc-type", kind == 1)
	rt.Known("H5-tendermint-iteration-keys-not-exported", kind == 0)

	gs := ExportGenesis(src, k)
	rt.Reach("exported")
	rt.Assert("G1-export-passes-validation", gs.Validate() == nil)

	dst := rt.EmptyCtx()
	if rt.NoPanic("G2-import-does-not-panic", func() { InitGenesis(dst, k, gs) }) {
		return
	}
	rt.Reach("imported")
	rt.Assert("G2-chain-name-preserved", k.GetChainName(dst) == native)
	got, found := k.GetClientState(dst, chain)
	rt.Assert("G2-client-preserved", found && got.ClientType() == cs.ClientType())
	addr, ok := k.GetRelayerAddressOnOtherChain(dst, chain, relayer)
	want, _ := k.GetRelayerAddressOnOtherChain(src, chain, relayer)
	rt.Assert("G2-relayer-preserved", ok && addr == want)
	if cons != nil {
		gc, found := k.GetClientConsensusState(dst, chain, h)
		rt.Assert("G2-consensus-state-preserved-at-its-height", found && rt.BytesEq(gc.GetRoot(), cons.GetRoot()))
	}
	if kind == 0 {
		dstStore := k.ClientStore(dst, chain)
		p1, ok1 := tmtypes.GetProcessedTime(store, h)
		p2, ok2 := tmtypes.GetProcessedTime(dstStore, h)
		rt.Assert("G2-processed-time-preserved", ok1 && ok2 && p1 == p2)
		rt.Assert("G2-iteration-key-preserved", tmtypes.GetIterationKey(dstStore, h) != nil)
	}
	// exporting the imported state gives the same genesis again
	gs2 := ExportGenesis(dst, k)
	rt.Assert("G3-re-export-same-shape", len(gs2.Clients) == len(gs.Clients) && len(gs2.ClientsConsensus) == len(gs.ClientsConsensus) && len(gs2.ClientsMetadata) == len(gs.ClientsMetadata) &&
		len(gs2.Relayers) == len(gs.Relayers) && gs2.NativeChainName == gs.NativeChainName)
}

var _ sdk.Context
