package client

import (
	"time"

	sdk "github.com/cosmos/cosmos-sdk/types"
	paramtypes "github.com/cosmos/cosmos-sdk/x/params/types"

	"github.com/ethereum/go-ethereum/common"

	bsctypes "github.com/teleport-network/teleport/x/xibc/clients/light-clients/bsc/types"
	ethtypes "github.com/teleport-network/teleport/x/xibc/clients/light-clients/eth/types"
	tmtypes "github.com/teleport-network/teleport/x/xibc/clients/light-clients/tendermint/types"
	tsstypes "github.com/teleport-network/teleport/x/xibc/clients/tss-client/types"
	"github.com/teleport-network/teleport/x/xibc/core/client/keeper"
	"github.com/teleport-network/teleport/x/xibc/core/client/types"
	"github.com/teleport-network/teleport/x/xibc/core/host"
	"github.com/teleport-network/teleport/x/xibc/exported"
	rt "github.com/teleport-network/teleport/zzverifrt"
)

var c13AssumeNoSlash bool

// what every registered relayer satisfies: registrations come from a governance proposal validated at submission
// (RegisterRelayerProposal.ValidateBasic) or from a validated genesis, which checks the same
func c13AssumeRegistrable(address string, chains, addresses []string) {
	p := &types.RegisterRelayerProposal{Title: "t", Description: "d", Address: address, Chains: chains, Addresses: addresses}
	rt.Assume(p.ValidateBasic() == nil)
}

func genesisKeeper() keeper.Keeper {
	return keeper.NewKeeper(rt.Codec(), rt.StoreKey(host.StoreKey), paramtypes.Subspace{}, nil)
}

// anyHeight: all 2^128 byte patterns of (revision, height) with at most one 0x2F byte (at an arbitrary position), non-zero.
func anyHeight(tag string) (types.Height, bool) {
	h := types.Height{RevisionNumber: rt.U64(tag + ".revision"), RevisionHeight: rt.U64(tag + ".height")}
	rt.Assume(!h.IsZero())
	pos := rt.IntRange(tag+".slashPosition", 0, 15)
	slash := false
	for i, b := range host.ConsensusStateKey(h)[len(host.KeyConsensusStatePrefix)+1:] {
		if i != pos {
			rt.Assume(b != '/')
		} else if b == '/' {
			slash = true
		}
	}
	return h, slash
}

// VerifC13ClientGenesis: export the client module's state, validate it, import it into an empty store, compare, re-export.
func VerifC13ClientGenesis() { c13ClientGenesis() }

func c13ClientGenesis() {
	rt.Opt("structured-keys")
	rt.RegisterInterfaces(types.RegisterInterfaces)
	rt.RegisterInterfaces(tsstypes.RegisterInterfaces)
	rt.RegisterInterfaces(tmtypes.RegisterInterfaces)
	rt.RegisterInterfaces(ethtypes.RegisterInterfaces)
	rt.RegisterInterfaces(bsctypes.RegisterInterfaces)
	k := genesisKeeper()
	src := rt.EmptyCtx()
	chain := "chain-a"
	native := "teleport"
	k.SetChainName(src, native)
	relayer := sdk.AccAddress(rt.BytesN("relayer.address", 20)).String() // a real bech32 account address (also when the witness is replayed natively)
	counterparty := rt.Str("relayer.counterparty")
	c13AssumeRegistrable(relayer, []string{chain}, []string{counterparty})
	k.RegisterRelayers(src, relayer, []string{chain}, []string{counterparty})

	kind := rt.IntRange("clientType", 0, 3)
	var ethHash common.Hash
	var ethIndexed, bscSigner []byte
	var bscSignerHeight types.Height
	var bscPending [][]byte
	var cs exported.ClientState
	var cons exported.ConsensusState
	h, slash := anyHeight("consensus")
	if c13AssumeNoSlash {
		rt.Assume(!slash) // the C15 entry is about the import only; heights with a separator byte are the recorded finding H3 (C13, C19)
	}
	store := k.ClientStore(src, chain)
	switch kind {
	case 0: // Tendermint, with the metadata its update writes
		cs = &tmtypes.ClientState{ChainId: "chain-a-1", TrustLevel: tmtypes.Fraction{Numerator: 1, Denominator: 3}, TrustingPeriod: time.Hour, UnbondingPeriod: 2 * time.Hour,
			MaxClockDrift: time.Second, LatestHeight: h, ProofSpecs: tmProofSpecs()}
		cons = &tmtypes.ConsensusState{Timestamp: rt.Time("cons.time"), Root: rt.Bytes("cons.root"), NextValidatorsHash: rt.Bytes("cons.nextVals")}
		tmtypes.SetProcessedTime(store, h, rt.U64("processedTime"))
		tmtypes.SetIterationKey(store, h)
	case 1: // Ethereum
		cs = &ethtypes.ClientState{Header: ethtypes.Header{Height: h, GasLimit: 100, GasUsed: 1, Difficulty: []byte{1}}, ChainId: 1}
		cons = &ethtypes.ConsensusState{Timestamp: rt.U64("cons.time"), Height: h, Root: rt.Bytes("cons.root")}
		// the metadata an update writes: the header index entry and the main-branch root entry that points to it
		ethHash = common.BytesToHash(rt.BytesN("eth.headerHash", 32))
		ethIndexed = rt.Bytes("eth.indexedHeader")
		rt.Assume(len(ethIndexed) > 0)
		store.Set(ethtypes.EthHeaderIndexKey(ethHash, h.RevisionHeight), ethIndexed)
		ethtypes.SetEthConsensusRoot(store, h.RevisionHeight, common.BytesToHash(cons.GetRoot()), ethHash)
	case 2: // TSS: no consensus states
		cs = &tsstypes.ClientState{TssAddress: rt.Str("tssAddress")}
	case 3: // BSC, with one recorded recent signer and the pending validator set
		cs = &bsctypes.ClientState{Header: bsctypes.Header{Height: h, GasLimit: 100, GasUsed: 1, Difficulty: []byte{2}, Extra: rt.BytesN("bsc.extra", 97), Nonce: rt.BytesN("bsc.nonce", 8)},
			ChainId: 56, Epoch: 200, BlockInteval: 3, Validators: [][]byte{rt.BytesN("bsc.validator", 20)}, TrustingPeriod: 1000}
		cons = &bsctypes.ConsensusState{Timestamp: rt.U64("cons.time"), Height: h, Root: rt.Bytes("cons.root")}
		bscSignerHeight = types.Height{RevisionNumber: h.RevisionNumber, RevisionHeight: rt.U64("bsc.signerHeight")}
		bscSigner = rt.BytesN("bsc.signer", 20)
		bsctypes.SetSigner(store, bsctypes.Signer{Height: bscSignerHeight, Validator: bscSigner})
		bscPending = [][]byte{rt.BytesN("bsc.pending", 20)}
		bsctypes.SetPendingValidators(store, rt.Codec(), bscPending)
	}
	// the stored state is a reachable one: it passed the validation every creation path applies
	rt.Assume(cs.Validate() == nil)
	if cons != nil {
		rt.Assume(cons.ValidateBasic() == nil)
	}
	k.SetClientState(src, chain, cs)
	if cons != nil {
		k.SetClientConsensusState(src, chain, h, cons)
	}
	rt.Known("H3-height-byte-0x2f-drops-consensus-state-on-export", slash && kind != 2)
	rt.Known("H2-eth-consensus-state-reports-bsc-type", kind == 1)
	rt.Known("H5-tendermint-iteration-keys-not-exported", kind == 0)

	gs := ExportGenesis(src, k)
	rt.Reach("exported")
	rt.Assert("G1-export-passes-validation", gs.Validate() == nil)

	dst := rt.EmptyCtx()
	if rt.NoPanic("G2-import-does-not-panic", func() { InitGenesis(dst, k, gs) }) {
		return
	}
	rt.Reach("imported")
	rt.Assert("G2-chain-name-preserved", k.GetChainName(dst) == native)
	got, found := k.GetClientState(dst, chain)
	rt.Assert("G2-client-preserved", found && got.ClientType() == cs.ClientType())
	addr, ok := k.GetRelayerAddressOnOtherChain(dst, chain, relayer)
	want, _ := k.GetRelayerAddressOnOtherChain(src, chain, relayer)
	rt.Assert("G2-relayer-preserved", ok && addr == want)
	if cons != nil {
		gc, found := k.GetClientConsensusState(dst, chain, h)
		rt.Assert("G2-consensus-state-preserved-at-its-height", found && rt.BytesEq(gc.GetRoot(), cons.GetRoot()))
	}
	if kind == 0 {
		dstStore := k.ClientStore(dst, chain)
		p1, ok1 := tmtypes.GetProcessedTime(store, h)
		p2, ok2 := tmtypes.GetProcessedTime(dstStore, h)
		rt.Assert("G2-processed-time-preserved", ok1 && ok2 && p1 == p2)
		rt.Assert("G2-iteration-key-preserved", tmtypes.GetIterationKey(dstStore, h) != nil)
	}
	if kind == 1 {
		dstStore := k.ClientStore(dst, chain)
		rt.Assert("G2-eth-header-index-preserved", rt.BytesEq(dstStore.Get(ethtypes.EthHeaderIndexKey(ethHash, h.RevisionHeight)), ethIndexed))
		rt.Assert("G2-eth-main-root-entry-preserved", rt.BytesEq(ethtypes.GetHeaderIndexKeyByEthConsensusRoot(dstStore, common.BytesToHash(cons.GetRoot()), h.RevisionHeight), ethtypes.EthHeaderIndexKey(ethHash, h.RevisionHeight)))
	}
	if kind == 3 {
		dstStore := k.ClientStore(dst, chain)
		signers, err := bsctypes.GetRecentSigners(dstStore)
		rt.Assert("G2-bsc-recent-signer-preserved", err == nil && len(signers) == 1 && signers[0].Height == bscSignerHeight && rt.BytesEq(signers[0].Validator, bscSigner))
		pv := bsctypes.GetPendingValidators(rt.Codec(), dstStore).Validators
		rt.Assert("G2-bsc-pending-validators-preserved", len(pv) == 1 && rt.BytesEq(pv[0], bscPending[0]))
	}
	// exporting the imported state gives the same genesis again
	gs2 := ExportGenesis(dst, k)
	rt.Assert("G3-re-export-same-shape", len(gs2.Clients) == len(gs.Clients) && len(gs2.ClientsConsensus) == len(gs.ClientsConsensus) && len(gs2.ClientsMetadata) == len(gs.ClientsMetadata) &&
		len(gs2.Relayers) == len(gs.Relayers) && gs2.NativeChainName == gs.NativeChainName)
}


// VerifC13TwoClients: two clients at once, under arbitrary valid chain names of 3 and 3..4 bytes (so that one name may extend
// the other, or differ from it in any byte): both are exported, the export validates, and both are there after the import.
func VerifC13TwoClients() {
	rt.Opt("structured-keys")
	rt.RegisterInterfaces(types.RegisterInterfaces)
	rt.RegisterInterfaces(tsstypes.RegisterInterfaces)
	k := genesisKeeper()
	src := rt.EmptyCtx()
	k.SetChainName(src, "teleport")
	a := rt.StrN("chainA", 3)
	b := rt.StrN("chainB", 3+rt.IntRange("chainB.extraBytes", 0, 1))
	rt.Assume(host.ClientIdentifierValidator(a) == nil && host.ClientIdentifierValidator(b) == nil && a != b)
	csA := &tsstypes.ClientState{TssAddress: sdk.AccAddress(rt.BytesN("tssA", 20)).String()}
	csB := &tsstypes.ClientState{TssAddress: sdk.AccAddress(rt.BytesN("tssB", 20)).String()}
	rt.Assume(csA.Validate() == nil && csB.Validate() == nil) // stored by a creation path, which validates
	k.SetClientState(src, a, csA)
	k.SetClientState(src, b, csB)
	gs := ExportGenesis(src, k)
	rt.Reach("exported")
	rt.Assert("G1-export-passes-validation", gs.Validate() == nil)
	foundA, foundB := false, false
	for _, c := range gs.Clients {
		foundA = foundA || c.ChainName == a
		foundB = foundB || c.ChainName == b
	}
	rt.Assert("G1-every-client-exported", len(gs.Clients) == 2 && foundA && foundB)
	dst := rt.EmptyCtx()
	if rt.NoPanic("G2-import-does-not-panic", func() { InitGenesis(dst, k, gs) }) {
		return
	}
	rt.Reach("imported")
	ca, okA := k.GetClientState(dst, a)
	cb, okB := k.GetClientState(dst, b)
	rt.Assert("G2-both-clients-preserved", okA && okB && ca.ClientType() == exported.TSS && cb.ClientType() == exported.TSS)
}
