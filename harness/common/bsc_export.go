package types

import (
	"io"
	"math/big"
)

// EncodeSigHeaderForVerif exposes the real seal pre-image encoder to harnesses living in other packages.
func EncodeSigHeaderForVerif(w io.Writer, h Header, chainId *big.Int) { encodeSigHeader(w, h, chainId) }
