package keeper

import (
	sdk "github.com/cosmos/cosmos-sdk/types"

	"github.com/teleport-network/teleport/x/xibc/core/host"
	rt "github.com/teleport-network/teleport/zzverifrt"
)

// ---- assembling a keeper over an arbitrary store ----

type world struct {
	ctx sdk.Context
	key sdk.StoreKey
	ck  *stubClientKeeper
	evm *stubEVM
	k   Keeper
}

func newWorld(nClients int) *world {
	w := &world{ctx: rt.Ctx(), key: rt.StoreKey(host.StoreKey)}
	w.ck = newStubClientKeeper(w.key, nClients)
	w.evm = &stubEVM{key: rt.StoreKey("evm")}
	w.k = NewKeeper(rt.Codec(), w.key, w.ck, stubAccountKeeper{}, w.evm)
	return w
}
