package keeper

import "crypto/sha256"

func specHash5(bz []byte) []byte {
	h := sha256.Sum256(bz)
	return h[:]
}
