package keeper

// World for the message server (x/xibc/keeper): the real packet keeper over stub collaborators; the
// client keeper's methods used by the message server are redirected to the same stub registry.

import (
	sdk "github.com/cosmos/cosmos-sdk/types"

	clientkeeper "github.com/teleport-network/teleport/x/xibc/core/client/keeper"
	"github.com/teleport-network/teleport/x/xibc/core/host"
	packetkeeper "github.com/teleport-network/teleport/x/xibc/core/packet/keeper"
	"github.com/teleport-network/teleport/x/xibc/exported"
	rt "github.com/teleport-network/teleport/zzverifrt"
)

type xworld struct {
	ctx sdk.Context
	key sdk.StoreKey
	ck  *stubClientKeeper
	evm *stubEVM
	k   Keeper
	// what the message server asked the client keeper
	authAsked   [][2]string
	updateCalls int
}

const ckPrefix = "(github.com/teleport-network/teleport/x/xibc/core/client/keeper.Keeper)."

func newXWorld(nClients int) *xworld {
	w := &xworld{ctx: rt.Ctx(), key: rt.StoreKey(host.StoreKey)}
	w.ck = newStubClientKeeper(w.key, nClients)
	w.evm = &stubEVM{key: rt.StoreKey("evm")}
	w.k = Keeper{PacketKeeper: packetkeeper.NewKeeper(rt.Codec(), w.key, w.ck, stubAccountKeeper{}, w.evm)}
	rt.Override(ckPrefix+"GetClientState", func(_ clientkeeper.Keeper, ctx sdk.Context, chainName string) (exported.ClientState, bool) {
		return w.ck.GetClientState(ctx, chainName)
	})
	rt.Override(ckPrefix+"GetChainName", func(_ clientkeeper.Keeper, ctx sdk.Context) string { return w.ck.GetChainName(ctx) })
	rt.Override(ckPrefix+"GetRelayerAddressOnOtherChain", func(_ clientkeeper.Keeper, ctx sdk.Context, chainName, address string) (string, bool) {
		return w.ck.GetRelayerAddressOnOtherChain(ctx, chainName, address)
	})
	rt.Override(ckPrefix+"GetRelayerAddressOnTeleport", func(_ clientkeeper.Keeper, ctx sdk.Context, chainName, address string) (string, bool) {
		if rt.UFBool("relayerOnTeleportKnown", chainName, address) {
			return rt.UFStr("relayerOnTeleport", chainName, address), true
		}
		return "", false
	})
	rt.Override(ckPrefix+"AuthRelayer", func(_ clientkeeper.Keeper, ctx sdk.Context, chainName, relayer string) bool {
		w.authAsked = append(w.authAsked, [2]string{chainName, relayer})
		return rt.UFBool("authRelayer", chainName, relayer)
	})
	rt.Override(ckPrefix+"UpdateClient", func(_ clientkeeper.Keeper, ctx sdk.Context, chainName string, header exported.Header) error {
		w.updateCalls++
		if rt.Bool("update-fails") {
			return errVerify
		}
		return nil
	})
	return w
}
