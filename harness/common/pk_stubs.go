package keeper

// Harness stubs for the packet keeper's collaborators (types.ClientKeeper, exported.ClientState,
// types.AccountKeeper, types.EVMKeeper). Plain Go: executed symbolically like any other code.

import (
	"context"
	"math/big"

	"github.com/cosmos/cosmos-sdk/codec"
	sdk "github.com/cosmos/cosmos-sdk/types"
	authtypes "github.com/cosmos/cosmos-sdk/x/auth/types"
	"github.com/ethereum/go-ethereum/common"
	"github.com/ethereum/go-ethereum/core"
	ethtypes "github.com/ethereum/go-ethereum/core/types"
	"github.com/ethereum/go-ethereum/core/vm"
	evmtypes "github.com/tharsis/ethermint/x/evm/types"

	"github.com/teleport-network/teleport/x/xibc/exported"
	rt "github.com/teleport-network/teleport/zzverifrt"
)

// ---- a light client whose verifier answers arbitrarily and logs what it was asked ----

type verifyCall struct {
	kind       string // "commitment" | "ack"
	store      sdk.KVStore
	height     exported.Height
	proof      []byte
	src, dst   string
	seq        uint64
	value      []byte
	returnedOK bool
}

type stubClient struct {
	name          string // chain name it is registered under
	ctype         string
	calls         []verifyCall
	checkMsgCalls int
	checkMsgOK    bool
	checkedMsg    sdk.Msg
}

func (c *stubClient) Reset()                           {}
func (c *stubClient) String() string                   { return "stubClient" }
func (c *stubClient) ProtoMessage()                    {}
func (c *stubClient) ClientType() string               { return c.ctype }
func (c *stubClient) GetLatestHeight() exported.Height { return nil }
func (c *stubClient) Validate() error                  { return nil }
func (c *stubClient) GetDelayTime() uint64             { return 0 }
func (c *stubClient) GetDelayBlock() uint64            { return 0 }
func (c *stubClient) GetPrefix() exported.Prefix       { return nil }
func (c *stubClient) Initialize(sdk.Context, codec.BinaryCodec, sdk.KVStore, exported.ConsensusState) error {
	return nil
}
func (c *stubClient) Status(sdk.Context, sdk.KVStore, codec.BinaryCodec) exported.Status {
	return exported.Active
}
func (c *stubClient) ExportMetadata(sdk.KVStore) []exported.GenesisMetadata { return nil }
func (c *stubClient) CheckMsg(m sdk.Msg) error {
	c.checkMsgCalls++
	c.checkedMsg = m
	c.checkMsgOK = rt.Bool("checkmsg-accepts")
	if !c.checkMsgOK {
		return errVerify
	}
	return nil
}
func (c *stubClient) CheckHeaderAndUpdateState(sdk.Context, codec.BinaryCodec, sdk.KVStore, exported.Header) (exported.ClientState, exported.ConsensusState, error) {
	return nil, nil, nil
}
func (c *stubClient) UpgradeState(sdk.Context, codec.BinaryCodec, sdk.KVStore, exported.ConsensusState) error {
	return nil
}
func (c *stubClient) verify(kind string, store sdk.KVStore, height exported.Height, proof []byte, src, dst string, seq uint64, value []byte) error {
	ok := rt.Bool("verifier-accepts")
	c.calls = append(c.calls, verifyCall{kind, store, height, proof, src, dst, seq, value, ok})
	if !ok {
		return errVerify
	}
	return nil
}
func (c *stubClient) VerifyPacketCommitment(ctx sdk.Context, store sdk.KVStore, cdc codec.BinaryCodec, height exported.Height, proof []byte, src, dst string, seq uint64, commitment []byte) error {
	return c.verify("commitment", store, height, proof, src, dst, seq, commitment)
}
func (c *stubClient) VerifyPacketAcknowledgement(ctx sdk.Context, store sdk.KVStore, cdc codec.BinaryCodec, height exported.Height, proof []byte, src, dst string, seq uint64, ack []byte) error {
	return c.verify("ack", store, height, proof, src, dst, seq, ack)
}

type stubErr struct{ s string }

func (e *stubErr) Error() string { return e.s }

var errVerify = &stubErr{"verification failed"}
var errEVM = &stubErr{"evm failed"}
var errHook = &stubErr{"hook failed"}

// ---- client keeper: up to two registered clients with arbitrary names and types ----

type stubClientKeeper struct {
	chainName string
	clients   []*stubClient
	storeKey  sdk.StoreKey
	stores    map[string]sdk.KVStore
	storeFor  []string // chain names ClientStore was asked for, in order
	real      []realClient
}

// realClient registers a real light-client state (not a stub) under a chain name.
type realClient struct {
	name string
	cs   exported.ClientState
}

func newStubClientKeeper(key sdk.StoreKey, nClients int) *stubClientKeeper {
	k := &stubClientKeeper{chainName: rt.Str("thisChain"), storeKey: key, stores: map[string]sdk.KVStore{}}
	for i := 0; i < nClients; i++ {
		c := &stubClient{name: rt.Str("clientName")}
		switch rt.IntRange("clientType", 0, 1) {
		case 0:
			c.ctype = exported.Tendermint
		case 1:
			c.ctype = exported.TSS
		}
		for _, o := range k.clients {
			rt.Assume(o.name != c.name)
		}
		k.clients = append(k.clients, c)
	}
	return k
}

func (k *stubClientKeeper) find(chainName string) *stubClient {
	for _, c := range k.clients {
		if c.name == chainName {
			return c
		}
	}
	return nil
}

func (k *stubClientKeeper) GetClientState(ctx sdk.Context, chainName string) (exported.ClientState, bool) {
	for _, r := range k.real {
		if r.name == chainName {
			return r.cs, true
		}
	}
	if c := k.find(chainName); c != nil {
		return c, true
	}
	return nil, false
}
func (k *stubClientKeeper) GetClientConsensusState(ctx sdk.Context, chainName string, height exported.Height) (exported.ConsensusState, bool) {
	return nil, false
}
func (k *stubClientKeeper) ClientStore(ctx sdk.Context, chainName string) sdk.KVStore {
	k.storeFor = append(k.storeFor, chainName)
	s := ctx.KVStore(k.storeKey)
	k.stores[chainName] = s
	return s
}
func (k *stubClientKeeper) GetChainName(ctx sdk.Context) string { return k.chainName }
func (k *stubClientKeeper) GetRelayerAddressOnOtherChain(ctx sdk.Context, chainName string, address string) (string, bool) {
	if rt.UFBool("relayerKnown", chainName, address) {
		return rt.UFStr("relayerAddr", chainName, address), true
	}
	return "", false
}

// ---- account keeper ----

type stubAccountKeeper struct{}

func (stubAccountKeeper) GetModuleAddress(name string) sdk.AccAddress { return nil }
func (stubAccountKeeper) GetSequence(ctx sdk.Context, a sdk.AccAddress) (uint64, error) {
	return rt.U64("nonce"), nil
}
func (stubAccountKeeper) GetModuleAccount(ctx sdk.Context, moduleName string) authtypes.ModuleAccountI {
	return nil
}

// ---- EVM keeper: every call may fail; effects are recorded as a marker write in the context it was given ----

type evmCall struct {
	from   common.Address
	to     *common.Address
	data   []byte
	commit bool
	vmOK   bool
}

type stubEVM struct {
	key       sdk.StoreKey
	rets      [][]byte
	calls     []evmCall
	hookCalls int
	hookFails int // post-tx hook failures
	failures  int // ApplyMessage errors and VM reverts
	ncall     uint64
}

func (e *stubEVM) ChainID() *big.Int                                 { return big.NewInt(7001) }
func (e *stubEVM) GetNonce(ctx sdk.Context, a common.Address) uint64 { return 0 }
func (e *stubEVM) PostTxProcessing(ctx sdk.Context, msg core.Message, receipt *ethtypes.Receipt) error {
	e.hookCalls++
	if rt.Bool("hook-fails") {
		e.hookFails++
		return errHook
	}
	return nil
}
func (e *stubEVM) ApplyMessage(ctx sdk.Context, msg core.Message, tracer vm.EVMLogger, commit bool) (*evmtypes.MsgEthereumTxResponse, error) {
	if rt.Bool("apply-errors") {
		e.failures++
		return nil, errEVM
	}
	vmOK := !rt.Bool("vm-reverts")
	e.calls = append(e.calls, evmCall{from: msg.From(), to: msg.To(), data: msg.Data(), commit: commit, vmOK: vmOK})
	res := &evmtypes.MsgEthereumTxResponse{Ret: rt.Bytes("evm-ret")}
	e.rets = append(e.rets, res.Ret)
	if !vmOK {
		e.failures++
		res.VmError = "execution reverted"
		return res, nil
	}
	if commit {
		// the EVM state change of this call lands in the context it was given
		e.ncall++
		ctx.KVStore(e.key).Set(evmEffectKey(e.ncall), []byte{1})
	}
	return res, nil
}
func (e *stubEVM) EthereumTx(context.Context, *evmtypes.MsgEthereumTx) (*evmtypes.MsgEthereumTxResponse, error) {
	return nil, nil
}
func (e *stubEVM) EstimateGas(context.Context, *evmtypes.EthCallRequest) (*evmtypes.EstimateGasResponse, error) {
	return nil, nil
}

func evmEffectKey(n uint64) []byte { return append([]byte("effect/"), sdk.Uint64ToBigEndian(n)...) }

