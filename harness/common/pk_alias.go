package keeper

import (
	sdk "github.com/cosmos/cosmos-sdk/types"

	"github.com/teleport-network/teleport/x/xibc/exported"
)

type sdkContext = sdk.Context
type packetI = exported.PacketI
