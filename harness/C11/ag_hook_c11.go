package keeper

import (
	"context"

	sdk "github.com/cosmos/cosmos-sdk/types"
	transfertypes "github.com/cosmos/ibc-go/v3/modules/apps/transfer/types"
	channeltypes "github.com/cosmos/ibc-go/v3/modules/core/04-channel/types"

	"github.com/teleport-network/teleport/x/aggregate/types"
	rt "github.com/teleport-network/teleport/zzverifrt"
)

type hookErr struct{}

func (hookErr) Error() string { return "conversion failed" }

// VerifC11IBCHookAtomic: ConvertCoin is not atomic by itself (it escrows the coins first and relies on its caller to
// discard state when a later step fails); through a message that caller is baseapp (assumption A-atomic), through the
// ICS-20 receive hook it is Keeper.OnRecvPacket, which swallows the error. So for every ICS-20 packet and registry state:
// a conversion that fails after it touched state leaves nothing of it in the transaction's context, a successful one is
// committed once, and the conversion is asked for exactly the received amount of the voucher, for the packet's receiver.
func VerifC11IBCHookAtomic() {
	ctx := rt.Ctx()
	// the bank answers with arbitrary balances: the receiver may already hold vouchers of the received denomination
	k := NewKeeper(rt.StoreKey(types.StoreKey), rt.Codec(), rt.Subspace(), nil, &convBank{moduleAddr: []byte("aggregate-module-acc")}, nil)
	var packet channeltypes.Packet
	rt.Fresh(&packet, "packet")
	// The hook runs only after the ICS-20 application reported success (IBCMiddleware.OnRecvPacket; checked by C16 M2), which
	// guarantees (ibc-go v3 transfer OnRecvPacket): the packet data decodes, the amount is a positive integer, the receiver is
	// a valid bech32 account address and the voucher denomination "ibc/<hash>" is valid.
	var data transfertypes.FungibleTokenPacketData
	rt.Assume(transfertypes.ModuleCdc.UnmarshalJSON(packet.GetData(), &data) == nil)
	amt, amtOK := sdk.NewIntFromString(data.Amount)
	rt.Assume(amtOK && amt.IsPositive())
	recv, recvErr := sdk.AccAddressFromBech32(data.Receiver)
	rt.Assume(recvErr == nil)
	// the voucher the ICS-20 application credits for a coin that does not return to its source (ibc-go relay.go), written out
	// here instead of calling the module's own IBCDenom; returning coins are outside this harness
	rt.Assume(!transfertypes.ReceiverChainIsSource(packet.GetSourcePort(), packet.GetSourceChannel(), data.Denom))
	denom := transfertypes.ParseDenomTrace(transfertypes.GetDenomPrefix(packet.GetDestPort(), packet.GetDestChannel()) + data.Denom).IBCDenom()
	var denomErr error
	rt.Assume(sdk.ValidateDenom(denom) == nil)
	converted, convOK := 0, false
	var asked *types.MsgConvertCoin
	rt.Override("(github.com/teleport-network/teleport/x/aggregate/keeper.Keeper).ConvertCoin", func(_ Keeper, goCtx context.Context, msg *types.MsgConvertCoin) (*types.MsgConvertCoinResponse, error) {
		c := sdk.UnwrapSDKContext(goCtx)
		converted++
		asked = msg
		// the escrow (and whatever the EVM leg did before it failed) lands in the context the conversion was given
		c.KVStore(rt.StoreKey("bank")).Set([]byte("escrow"), []byte{1})
		convOK = rt.Bool("conversion-succeeds")
		if !convOK {
			return nil, hookErr{}
		}
		return &types.MsgConvertCoinResponse{}, nil
	})
	k.OnRecvPacket(ctx, packet, nil)
	rt.Reach("returned")
	rt.Assert("E5-at-most-one-conversion", converted <= 1)
	if converted == 1 && !convOK {
		rt.Reach("conversion-failed")
		rt.Assert("E5-failed-conversion-leaves-the-vouchers-untouched", rt.StoreWrites(ctx, "bank") == 0)
	}
	if converted == 1 && convOK {
		rt.Reach("conversion-ok")
		rt.Assert("E5-conversion-committed-once", rt.StoreWrites(ctx, "bank") == 1)
		got, gotErr := sdk.AccAddressFromBech32(asked.Sender)
		rt.Assert("E5-converts-exactly-the-received-voucher-amount", denomErr == nil && asked.Coin.Denom == denom && asked.Coin.Amount.Equal(amt) && gotErr == nil && got.Equals(recv))
	}
}
