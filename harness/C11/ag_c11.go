package keeper

import (
	"bytes"
	"context"
	"math/big"

	sdk "github.com/cosmos/cosmos-sdk/types"
	banktypes "github.com/cosmos/cosmos-sdk/x/bank/types"
	"github.com/ethereum/go-ethereum/common"
	"github.com/ethereum/go-ethereum/core"
	"github.com/ethereum/go-ethereum/core/vm"
	"github.com/tharsis/ethermint/x/evm/statedb"
	evmtypes "github.com/tharsis/ethermint/x/evm/types"

	erc20contracts "github.com/teleport-network/teleport/syscontracts/erc20"
	"github.com/teleport-network/teleport/x/aggregate/types"
	rt "github.com/teleport-network/teleport/zzverifrt"
)

type cErr struct{ s string }

func (e cErr) Error() string { return e.s }

// ---- bank with symbolic balances and the SDK's failure rules ----

type balEntry struct {
	who   []byte
	denom string
	amt   sdk.Int
}

type convBank struct {
	moduleAddr []byte
	bals       []*balEntry
	supply     []*balEntry // who == nil
	writes     int         // state-changing calls
	blockedFor []byte
}

func anyAmount(tag string) sdk.Int {
	b := rt.BigInt(tag)
	rt.Assume(b.Sign() >= 0 && b.BitLen() <= 200)
	return sdk.NewIntFromBigInt(b)
}

func (b *convBank) entry(who []byte, denom string) *balEntry {
	for _, e := range b.bals {
		if bytes.Equal(e.who, who) && e.denom == denom {
			return e
		}
	}
	e := &balEntry{who: who, denom: denom, amt: anyAmount("balance")}
	b.bals = append(b.bals, e)
	return e
}
func (b *convBank) supplyOf(denom string) *balEntry {
	for _, e := range b.supply {
		if e.denom == denom {
			return e
		}
	}
	e := &balEntry{denom: denom, amt: anyAmount("supply")}
	b.supply = append(b.supply, e)
	return e
}
func (b *convBank) move(from, to []byte, amt sdk.Coins) error {
	b.writes++
	if rt.Bool("bank-call-fails") {
		return cErr{"bank failure"}
	}
	for _, c := range amt {
		if b.entry(from, c.Denom).amt.LT(c.Amount) {
			return cErr{"insufficient funds"}
		}
	}
	for _, c := range amt {
		f := b.entry(from, c.Denom)
		f.amt = f.amt.Sub(c.Amount)
		t := b.entry(to, c.Denom)
		t.amt = t.amt.Add(c.Amount)
	}
	return nil
}
func (b *convBank) SendCoinsFromModuleToAccount(ctx sdk.Context, m string, r sdk.AccAddress, amt sdk.Coins) error {
	return b.move(b.moduleAddr, r, amt)
}
func (b *convBank) SendCoinsFromAccountToModule(ctx sdk.Context, s sdk.AccAddress, m string, amt sdk.Coins) error {
	return b.move(s, b.moduleAddr, amt)
}
func (b *convBank) MintCoins(ctx sdk.Context, m string, amt sdk.Coins) error {
	b.writes++
	if rt.Bool("bank-call-fails") {
		return cErr{"bank failure"}
	}
	for _, c := range amt {
		e := b.entry(b.moduleAddr, c.Denom)
		e.amt = e.amt.Add(c.Amount)
		s := b.supplyOf(c.Denom)
		s.amt = s.amt.Add(c.Amount)
	}
	return nil
}
func (b *convBank) BurnCoins(ctx sdk.Context, m string, amt sdk.Coins) error {
	b.writes++
	if rt.Bool("bank-call-fails") {
		return cErr{"bank failure"}
	}
	for _, c := range amt {
		if b.entry(b.moduleAddr, c.Denom).amt.LT(c.Amount) {
			return cErr{"insufficient funds"}
		}
	}
	for _, c := range amt {
		e := b.entry(b.moduleAddr, c.Denom)
		e.amt = e.amt.Sub(c.Amount)
		s := b.supplyOf(c.Denom)
		s.amt = s.amt.Sub(c.Amount)
	}
	return nil
}
func (b *convBank) IsSendEnabledCoin(ctx sdk.Context, c sdk.Coin) bool { return rt.UFBool("sendEnabled", c.Denom) }
func (b *convBank) BlockedAddr(a sdk.AccAddress) bool                  { return rt.UFBool("blocked", []byte(a)) }
func (b *convBank) GetDenomMetaData(sdk.Context, string) (banktypes.Metadata, bool) {
	return banktypes.Metadata{}, false
}
func (b *convBank) SetDenomMetaData(sdk.Context, banktypes.Metadata) {}
func (b *convBank) HasSupply(sdk.Context, string) bool               { return true }
func (b *convBank) GetBalance(ctx sdk.Context, a sdk.AccAddress, d string) sdk.Coin {
	return sdk.Coin{Denom: d, Amount: b.entry(a, d).amt}
}

// ---- an adversarial token contract: any call may fail or revert, every answer is arbitrary ----

type tokCall struct {
	from   common.Address
	to     *common.Address
	method string
	args   []interface{}
	ret    []byte
	ok     bool
}

type convEVM struct {
	calls      []tokCall
	isContract bool
}

func (e *convEVM) GetParams(ctx sdk.Context) evmtypes.Params { return evmtypes.Params{} }
func (e *convEVM) GetAccountWithoutBalance(ctx sdk.Context, addr common.Address) *statedb.Account {
	if rt.Bool("account-missing") {
		return nil
	}
	return &statedb.Account{}
}
func (e *convEVM) EstimateGas(context.Context, *evmtypes.EthCallRequest) (*evmtypes.EstimateGasResponse, error) {
	return nil, nil
}
func (e *convEVM) ApplyMessage(ctx sdk.Context, msg core.Message, tr vm.EVMLogger, commit bool) (*evmtypes.MsgEthereumTxResponse, error) {
	abi := erc20contracts.ERC20MinterBurnerDecimalsContract.ABI
	c := tokCall{from: msg.From(), to: msg.To(), method: rt.CallMethod(abi, msg.Data()), args: rt.CallArgs(abi, msg.Data())}
	if rt.Bool("evm-call-errors") {
		e.calls = append(e.calls, c)
		return nil, cErr{"evm error"}
	}
	res := &evmtypes.MsgEthereumTxResponse{Ret: rt.Bytes("evm-ret")}
	c.ret = res.Ret
	if rt.Bool("evm-call-reverts") {
		res.VmError = "execution reverted"
	} else {
		c.ok = true
	}
	e.calls = append(e.calls, c)
	return res, nil
}

type convAccounts struct{}

func (convAccounts) GetModuleAddress(string) sdk.AccAddress { return nil }
func (convAccounts) GetSequence(sdk.Context, sdk.AccAddress) (uint64, error) {
	return rt.U64("nonce"), nil
}

// ---- world ----

type cworld struct {
	ctx    sdk.Context
	k      *Keeper
	bank   *convBank
	evm    *convEVM
	pair   types.TokenPair   // the pair the message's token identifier resolves to (zero value: none)
	pairs  []types.TokenPair // everything registered
	params types.Params
}

func (w *cworld) register(p types.TokenPair) {
	for _, d := range p.Denoms {
		rt.Assume(d != "") // invariant: a registered denomination passed the metadata validation of its proposal (never empty)
	}
	w.pairs = append(w.pairs, p)
	w.k.SetTokenPair(w.ctx, p)
	w.k.SetDenomsMap(w.ctx, p.Denoms, p.GetID())
	w.k.SetERC20Map(w.ctx, p.GetERC20Contract(), p.GetID())
}

func (w *cworld) pairByDenom(d string) types.TokenPair {
	for _, p := range w.pairs {
		if lists11(p, d) {
			return p
		}
	}
	return types.TokenPair{}
}

func (w *cworld) pairByContract(c common.Address) types.TokenPair {
	for _, p := range w.pairs {
		if p.GetERC20Contract() == c {
			return p
		}
	}
	return types.TokenPair{}
}

func newConvWorld() *cworld {
	w := &cworld{ctx: rt.EmptyCtx(), bank: &convBank{moduleAddr: []byte("aggregate-module-acc")}, evm: &convEVM{}}
	w.k = NewKeeper(rt.StoreKey(types.StoreKey), rt.Codec(), rt.Subspace(), convAccounts{}, w.bank, w.evm)
	w.params = types.Params{EnableAggregate: rt.Bool("moduleEnabled"), EnableEVMHook: true}
	w.k.SetParams(w.ctx, w.params)
	// zero, one or two registered pairs; the first with one or two denominations, the second with one
	if rt.Bool("pairRegistered") {
		addr := common.BytesToAddress(rt.BytesN("pairAddr", 20))
		denoms := []string{rt.Str("pairDenom")}
		if rt.Bool("twoDenoms") {
			denoms = append(denoms, rt.Str("pairDenom2"))
			rt.Assume(denoms[0] != denoms[1])
		}
		owner := types.Owner(rt.U32("owner"))
		rt.Assume(owner == types.OWNER_MODULE || owner == types.OWNER_EXTERNAL)
		w.register(types.NewTokenPair(addr, denoms, rt.Bool("pairEnabled"), owner))
		if rt.Bool("secondPair") {
			addr2 := common.BytesToAddress(rt.BytesN("pair2Addr", 20))
			rt.Assume(addr2 != addr)
			d2 := rt.Str("pair2Denom")
			for _, d := range denoms {
				rt.Assume(d != d2)
			}
			owner2 := types.Owner(rt.U32("owner2"))
			rt.Assume(owner2 == types.OWNER_MODULE || owner2 == types.OWNER_EXTERNAL)
			w.register(types.NewTokenPair(addr2, []string{d2}, rt.Bool("pair2Enabled"), owner2))
		}
	}
	rt.Abstract("(github.com/tharsis/ethermint/x/evm/statedb.Account).IsContract")
	return w
}

func (w *cworld) observedBalance(i int) *big.Int {
	out, err := erc20contracts.ERC20MinterBurnerDecimalsContract.ABI.Unpack("balanceOf", w.evm.calls[i].ret)
	rt.Assume(err == nil && len(out) == 1)
	return out[0].(*big.Int)
}

func (w *cworld) mutatingCalls() (n int, last tokCall) {
	for _, c := range w.evm.calls {
		if c.method != "balanceOf" {
			n++
			last = c
		}
	}
	return
}

// VerifC11ConvertCoin: coin -> token.
func VerifC11ConvertCoin() { c11ConvertCoin() }

var c11PanicMatters bool

var panickedTag = "panicked-inside-transaction"

func c11ConvertCoin() {
	w := newConvWorld()
	senderBytes := rt.Bytes("senderAddr")
	rt.Assume(len(senderBytes) > 0)
	receiver := common.BytesToAddress(rt.BytesN("receiverAddr", 20))
	amount := anyAmount("amount")
	msg := types.NewMsgConvertCoin(sdk.Coin{Denom: rt.Str("coinDenom"), Amount: amount}, receiver, senderBytes)
	rt.Assume(amount.IsPositive()) // MsgConvertCoin.ValidateBasic
	sender := sdk.AccAddress(senderBytes)
	rt.Assume(!bytes.Equal(sender, w.bank.moduleAddr))
	denom := msg.Coin.Denom
	w.pair = w.pairByDenom(denom)

	senderBefore := w.bank.entry(sender, denom).amt
	moduleBefore := w.bank.entry(w.bank.moduleAddr, denom).amt
	supplyBefore := w.bank.supplyOf(denom).amt

	// a coin denomination is not itself a 40-hex-digit string (such a denomination cannot be obtained on this chain)
	rt.Assume(!common.IsHexAddress(denom))
	var err error
	if rt.Panics(func() { _, err = w.k.ConvertCoin(sdk.WrapSDKContext(w.ctx), msg) }) {
		if c11PanicMatters {
			// behind the ICS-20 middleware a panic aborts the whole MsgRecvPacket: the transfer that would have succeeded on its
			// own is never received or acknowledged (C16)
			rt.Assert("M5-the-automatic-conversion-returns", false)
			return
		}
		rt.Reach(panickedTag) // not a required witness: the conversion code need not have any panic path
		return // a panic inside a message handler fails the transaction (baseapp recovery): nothing changes
	}

	nMut, lastMut := w.mutatingCalls()
	if !w.params.EnableAggregate || w.pair.ERC20Address == "" || !w.pair.Enabled || !lists11(w.pair, denom) || w.bank.BlockedAddr(receiver.Bytes()) {
		rt.Reach("gate-closed")
		rt.Assert("E3-refused-before-any-movement", err != nil && w.bank.writes == 0 && len(w.evm.calls) == 0)
	}
	if err != nil {
		return // the message failed: rolled back (assumption A-atomic)
	}
	rt.Reach("succeeded")
	if nMut == 0 && w.bank.writes == 0 {
		rt.Reach("self-destructed-cleanup")
		return
	}
	senderAfter := w.bank.entry(sender, denom).amt
	moduleAfter := w.bank.entry(w.bank.moduleAddr, denom).amt
	supplyAfter := w.bank.supplyOf(denom).amt
	rt.Assert("E1-sender-loses-exactly-the-amount", senderBefore.Sub(senderAfter).Equal(amount))
	rt.Assert("E1-one-token-side-call-as-module", nMut == 1 && lastMut.ok && lastMut.from == types.ModuleAddress && lastMut.to != nil && *lastMut.to == w.pair.GetERC20Contract())
	rt.Assert("E1-token-call-names-receiver-and-amount", len(lastMut.args) == 2 && lastMut.args[0].(common.Address) == receiver && lastMut.args[1].(*big.Int).Cmp(amount.BigInt()) == 0)
	// the receiver's token balance the module observed grew by exactly the amount
	first, last := -1, -1
	for i, c := range w.evm.calls {
		if c.method == "balanceOf" && c.ok {
			if first < 0 {
				first = i
			}
			last = i
		}
	}
	rt.Assert("E1-balance-observed-before-and-after", first >= 0 && last > first)
	rt.Assert("E1-receiver-gains-exactly-the-amount", new(big.Int).Sub(w.observedBalance(last), w.observedBalance(first)).Cmp(amount.BigInt()) == 0)
	if w.pair.IsNativeCoin() {
		rt.Reach("module-owned-token")
		rt.Assert("E1-mint", lastMut.method == "mint")
		rt.Assert("E4-coins-escrowed", moduleAfter.Sub(moduleBefore).Equal(amount) && supplyAfter.Equal(supplyBefore))
	} else {
		rt.Reach("external-token")
		rt.Assert("E1-release", lastMut.method == "transfer")
		rt.Assert("E4-vouchers-burned", moduleAfter.Equal(moduleBefore) && supplyBefore.Sub(supplyAfter).Equal(amount))
	}
	for _, e := range w.bank.bals {
		if e.denom != denom {
			rt.Assert("E1-no-other-denomination-touched", false)
		}
	}
}

func lists11(p types.TokenPair, d string) bool {
	for _, x := range p.Denoms {
		if x == d {
			return true
		}
	}
	return false
}

// VerifC11ConvertERC20: token -> coin.
func VerifC11ConvertERC20() {
	w := newConvWorld()
	receiverBytes := rt.Bytes("receiverAddr")
	rt.Assume(len(receiverBytes) > 0)
	receiver := sdk.AccAddress(receiverBytes)
	rt.Assume(!bytes.Equal(receiver, w.bank.moduleAddr))
	sender := common.BytesToAddress(rt.BytesN("senderAddr", 20))
	amount := anyAmount("amount")
	rt.Assume(amount.IsPositive())
	contract := common.BytesToAddress(rt.BytesN("contractAddr", 20))
	msg := types.NewMsgConvertERC20(amount, receiver, contract, sender, rt.Str("coinDenom"))
	denom := msg.Denom
	w.pair = w.pairByContract(contract)

	receiverBefore := w.bank.entry(receiver, denom).amt
	moduleBefore := w.bank.entry(w.bank.moduleAddr, denom).amt
	supplyBefore := w.bank.supplyOf(denom).amt

	rt.Assume(!common.IsHexAddress(denom))
	var err error
	if rt.Panics(func() { _, err = w.k.ConvertERC20(sdk.WrapSDKContext(w.ctx), msg) }) {
		rt.Reach(panickedTag) // not a required witness: the conversion code need not have any panic path
		return
	}

	nMut, lastMut := w.mutatingCalls()
	if !w.params.EnableAggregate || w.pair.ERC20Address == "" || !w.pair.Enabled || !lists11(w.pair, denom) || w.pair.GetERC20Contract() != contract || w.bank.BlockedAddr(receiver) {
		rt.Reach("gate-closed")
		rt.Assert("E3-refused-before-any-movement", err != nil && w.bank.writes == 0 && len(w.evm.calls) == 0)
	}
	if err != nil {
		return
	}
	rt.Reach("succeeded")
	if nMut == 0 && w.bank.writes == 0 {
		rt.Reach("self-destructed-cleanup")
		return
	}
	receiverAfter := w.bank.entry(receiver, denom).amt
	moduleAfter := w.bank.entry(w.bank.moduleAddr, denom).amt
	supplyAfter := w.bank.supplyOf(denom).amt
	rt.Assert("E1-receiver-gains-exactly-the-amount", receiverAfter.Sub(receiverBefore).Equal(amount))
	rt.Assert("E1-one-token-side-call", nMut == 1 && lastMut.ok && lastMut.to != nil && *lastMut.to == w.pair.GetERC20Contract())
	first, last := -1, -1
	for i, c := range w.evm.calls {
		if c.method == "balanceOf" && c.ok {
			if first < 0 {
				first = i
			}
			last = i
		}
	}
	rt.Assert("E1-balance-observed-before-and-after", first >= 0 && last > first)
	diff := new(big.Int).Sub(w.observedBalance(last), w.observedBalance(first))
	if w.pair.IsNativeCoin() {
		rt.Reach("module-owned-token")
		rt.Assert("E1-burn-from-sender-as-module", lastMut.method == "burnCoins" && lastMut.from == types.ModuleAddress && len(lastMut.args) == 2 && lastMut.args[0].(common.Address) == sender && lastMut.args[1].(*big.Int).Cmp(amount.BigInt()) == 0)
		rt.Assert("E1-sender-loses-exactly-the-amount", new(big.Int).Neg(diff).Cmp(amount.BigInt()) == 0)
		rt.Assert("E4-coins-released-from-escrow", moduleBefore.Sub(moduleAfter).Equal(amount) && supplyAfter.Equal(supplyBefore))
	} else {
		rt.Reach("external-token")
		rt.Assert("E1-transfer-from-sender-to-module", lastMut.method == "transfer" && lastMut.from == sender && len(lastMut.args) == 2 && lastMut.args[0].(common.Address) == types.ModuleAddress && lastMut.args[1].(*big.Int).Cmp(amount.BigInt()) == 0)
		rt.Assert("E4-module-escrow-grows-by-the-amount", diff.Cmp(amount.BigInt()) == 0)
		rt.Assert("E4-vouchers-minted", moduleAfter.Equal(moduleBefore) && supplyAfter.Sub(supplyBefore).Equal(amount))
	}
	for _, e := range w.bank.bals {
		if e.denom != denom {
			rt.Assert("E1-no-other-denomination-touched", false)
		}
	}
}
