package types

// VerifC02TendermintProof: the client-side half of C02 for a Tendermint-secured counterparty (the keeper-side half,
// VerifC02Recv/Ack, shows that exactly this client is asked with the decoded path, the packet hash and the message's proof
// and height): the real client honours the proof only as membership of exactly that value under exactly that path against
// the root it stored itself at the proof height (shared with the C07 check).
func VerifC02TendermintProof() { c07Proof() }
