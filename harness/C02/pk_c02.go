package keeper

import (
	"crypto/sha256"

	clienttypes "github.com/teleport-network/teleport/x/xibc/core/client/types"
	"github.com/teleport-network/teleport/x/xibc/core/packet/types"
	"github.com/teleport-network/teleport/x/xibc/exported"
	rt "github.com/teleport-network/teleport/zzverifrt"
)

// specCommit is the harness' own statement of "the hash of exactly this packet".
func specCommit(p types.Packet) []byte {
	bz, err := p.ABIPack()
	rt.Assume(err == nil)
	h := sha256.Sum256(bz)
	return h[:]
}

func specHash(bz []byte) []byte {
	h := sha256.Sum256(bz)
	return h[:]
}

// theOneCall returns the only verifier invocation made in this world and the client it was made on.
func (w *world) verifierCalls() (n int, last verifyCall, on *stubClient) {
	for _, c := range w.ck.clients {
		for _, vc := range c.calls {
			n++
			last = vc
			on = c
		}
	}
	return
}

// VerifC02Recv: RecvPacket accepts only if the client registered for the packet's source chain verified, at the
// message's proof height and with the message's proof, the hash of exactly the decoded packet under its own triple.
func VerifC02Recv() {
	w := newWorld(2 + rt.Tier())
	msg := &types.MsgRecvPacket{Packet: rt.Bytes("packetBytes"), ProofCommitment: rt.Bytes("proof"),
		ProofHeight: clienttypes.Height{RevisionNumber: rt.U64("rev"), RevisionHeight: rt.U64("height")}, Signer: rt.Str("signer")}
	var p types.Packet
	_ = p.ABIDecode(msg.Packet)

	err := w.k.RecvPacket(w.ctx, msg)
	if err != nil {
		return
	}
	rt.Reach("accepted")
	n, vc, on := w.verifierCalls()
	rt.Assert("A1-verifier-invoked-once", n == 1)
	rt.Assert("A1-verifier-accepted", vc.returnedOK)
	rt.Assert("A2-client-of-source-chain", on.name == p.SrcChain)
	rt.Assert("A2-store-of-source-chain", len(w.ck.storeFor) == 1 && w.ck.storeFor[0] == p.SrcChain && rt.SameObject(vc.store, w.ck.stores[p.SrcChain]))
	rt.Assert("A3-kind", vc.kind == "commitment")
	h, ok := vc.height.(clienttypes.Height)
	rt.Assert("A3-proof-height", ok && h.RevisionNumber == msg.ProofHeight.RevisionNumber && h.RevisionHeight == msg.ProofHeight.RevisionHeight)
	if on.ctype == exported.TSS {
		rt.Reach("tss")
		rt.Assert("A3-tss-proof-is-signer", string(vc.proof) == msg.Signer)
	} else {
		rt.Reach("proof-client")
		rt.Assert("A3-proof-from-message", rt.BytesEq(vc.proof, msg.ProofCommitment))
	}
	rt.Assert("A4-path", vc.src == p.SrcChain && vc.dst == p.DstChain && vc.seq == p.Sequence)
	rt.Assert("A5-commitment-of-this-packet", rt.BytesEq(vc.value, specCommit(p)))
}

// VerifC02Ack: AcknowledgePacket accepts only if this chain still holds the commitment of exactly the decoded packet
// and the destination chain's client verified the hash of exactly the acknowledgement bytes of the message.
func VerifC02Ack() { c02Ack() }

func c02Ack() {
	w := newWorld(2 + rt.Tier())
	msg := &types.MsgAcknowledgement{Packet: rt.Bytes("packetBytes"), Acknowledgement: rt.Bytes("ackBytes"), ProofAcked: rt.Bytes("proof"),
		ProofHeight: clienttypes.Height{RevisionNumber: rt.U64("rev"), RevisionHeight: rt.U64("height")}, Signer: rt.Str("signer")}
	var p types.Packet
	_ = p.ABIDecode(msg.Packet)
	stored := w.k.GetPacketCommitment(w.ctx, p.SrcChain, p.DstChain, p.Sequence)

	err := w.k.AcknowledgePacket(w.ctx, msg)
	if err != nil {
		return
	}
	rt.Reach("accepted")
	rt.Assert("B1-commitment-held", stored != nil && rt.BytesEq(stored, specCommit(p)))
	n, vc, on := w.verifierCalls()
	rt.Assert("B2-verifier-invoked-once", n == 1)
	rt.Assert("B2-verifier-accepted", vc.returnedOK)
	rt.Assert("B3-client-of-destination-chain", on.name == p.DstChain)
	rt.Assert("B3-store-of-destination-chain", len(w.ck.storeFor) == 1 && w.ck.storeFor[0] == p.DstChain && rt.SameObject(vc.store, w.ck.stores[p.DstChain]))
	rt.Assert("B4-kind", vc.kind == "ack")
	h, ok := vc.height.(clienttypes.Height)
	rt.Assert("B4-proof-height", ok && h.RevisionNumber == msg.ProofHeight.RevisionNumber && h.RevisionHeight == msg.ProofHeight.RevisionHeight)
	if on.ctype == exported.TSS {
		rt.Assert("B4-tss-proof-is-signer", string(vc.proof) == msg.Signer)
	} else {
		rt.Assert("B4-proof-from-message", rt.BytesEq(vc.proof, msg.ProofAcked))
	}
	rt.Assert("B5-path", vc.src == p.SrcChain && vc.dst == p.DstChain && vc.seq == p.Sequence)
	rt.Assert("B6-hash-of-these-ack-bytes", rt.BytesEq(vc.value, specHash(msg.Acknowledgement)))
}
