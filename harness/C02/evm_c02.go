package types

import rt "github.com/teleport-network/teleport/zzverifrt"

// The client-side half of C02 for Ethereum- and BSC-secured counterparties (shared with the C08 check): the real clients
// accept exactly the storage proofs that prove path -> value for the configured contract under the root stored at the
// proof height.
func VerifC02EvmCommitment() { c08Verify(false) }
func VerifC02EvmAck()        { c08Verify(true) }
func VerifC02EvmTwoStorageEntries() {
	if c08VerifyN(true, true) != nil {
		rt.Reach("two-entries-rejected")
	}
}
