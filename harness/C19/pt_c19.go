package types

// C19, loss-free encoding: for every value of the four wire types, decoding its encoding returns the same value.
// Pack/Unpack byte layout (go-ethereum) is modelled as an injective encoding; what is decided here is which Go fields take
// part in it: the tuple component names of /repo's abi.NewType calls against the struct's field names (Pack) and JSON
// names (ABIDecode goes through a JSON round trip) - see the engine's abiTuple.

import (
	"bytes"

	rt "github.com/teleport-network/teleport/zzverifrt"
)

func VerifC19AbiRoundTripPacket() {
	v := Packet{SrcChain: rt.Str("src"), DstChain: rt.Str("dst"), Sequence: rt.U64("seq"), Sender: rt.Str("sender"), TransferData: rt.Bytes("transfer"),
		CallData: rt.Bytes("call"), CallbackAddress: rt.Str("callback"), FeeOption: rt.U64("feeOption")}
	bz, err := v.ABIPack()
	rt.Assert("K1-packet-encodes", err == nil)
	var w Packet
	rt.Assert("K1-packet-decodes", w.ABIDecode(bz) == nil)
	rt.Assert("K1-packet-round-trip", w.SrcChain == v.SrcChain && w.DstChain == v.DstChain && w.Sequence == v.Sequence && w.Sender == v.Sender &&
		bytes.Equal(w.TransferData, v.TransferData) && bytes.Equal(w.CallData, v.CallData) && w.CallbackAddress == v.CallbackAddress && w.FeeOption == v.FeeOption)
}

func VerifC19AbiRoundTripAck() {
	v := Acknowledgement{Code: rt.U64("code"), Result: rt.Bytes("result"), Message: rt.Str("message"), Relayer: rt.Str("relayer"), FeeOption: rt.U64("feeOption")}
	bz, err := v.ABIPack()
	rt.Assert("K1-ack-encodes", err == nil)
	var w Acknowledgement
	rt.Assert("K1-ack-decodes", w.ABIDecode(bz) == nil)
	rt.Assert("K1-ack-round-trip-code-result-message-relayer", w.Code == v.Code && bytes.Equal(w.Result, v.Result) && w.Message == v.Message && w.Relayer == v.Relayer)
	rt.Known("H11-ack-fee-option-lost-by-decode", v.FeeOption != 0)
	rt.Assert("K1-ack-round-trip-fee-option", w.FeeOption == v.FeeOption)
}

func VerifC19AbiRoundTripData() {
	t := TransferData{Token: rt.Str("token"), OriToken: rt.Str("oriToken"), Amount: rt.Bytes("amount"), Receiver: rt.Str("receiver")}
	bz, err := t.ABIPack()
	rt.Assert("K1-transfer-data-encodes", err == nil)
	var t2 TransferData
	rt.Assert("K1-transfer-data-decodes", t2.ABIDecode(bz) == nil)
	rt.Assert("K1-transfer-data-round-trip", t2.Token == t.Token && t2.OriToken == t.OriToken && bytes.Equal(t2.Amount, t.Amount) && t2.Receiver == t.Receiver)
	c := CallData{ContractAddress: rt.Str("contract"), CallData: rt.Bytes("calldata")}
	bz, err = c.ABIPack()
	rt.Assert("K1-call-data-encodes", err == nil)
	var c2 CallData
	rt.Assert("K1-call-data-decodes", c2.ABIDecode(bz) == nil)
	rt.Assert("K1-call-data-round-trip", c2.ContractAddress == c.ContractAddress && bytes.Equal(c2.CallData, c.CallData))
	r := Result{Code: rt.U64("rcode"), Result: rt.Bytes("rresult"), Message: rt.Str("rmessage")}
	bz, err = r.ABIPack()
	rt.Assert("K1-result-encodes", err == nil)
	var r2 Result
	rt.Assert("K1-result-decodes", r2.ABIDecode(bz) == nil)
	rt.Assert("K1-result-round-trip", r2.Code == r.Code && bytes.Equal(r2.Result, r.Result) && r2.Message == r.Message)
}
