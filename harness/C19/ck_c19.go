package keeper

import (
	paramtypes "github.com/cosmos/cosmos-sdk/x/params/types"

	tsstypes "github.com/teleport-network/teleport/x/xibc/clients/tss-client/types"
	"github.com/teleport-network/teleport/x/xibc/core/client/types"
	"github.com/teleport-network/teleport/x/xibc/core/host"
	"github.com/teleport-network/teleport/x/xibc/exported"
	rt "github.com/teleport-network/teleport/zzverifrt"
)

// VerifC19ConsensusKeys (J3): a consensus state stored at ANY height (all 2^128 byte patterns of revision and height)
// is read back by the client keeper's iterator at exactly that height, and two different heights never share a key.
func VerifC19ConsensusKeys() {
	rt.Opt("structured-keys")
	rt.RegisterInterfaces(types.RegisterInterfaces)
	rt.RegisterInterfaces(tsstypes.RegisterInterfaces)
	ctx := rt.EmptyCtx()
	k := NewKeeper(rt.Codec(), rt.StoreKey(host.StoreKey), paramtypes.Subspace{}, nil)
	chain := rt.StrN("chain", 3)
	rt.Assume(host.ClientIdentifierValidator(chain) == nil)
	h := types.Height{RevisionNumber: rt.U64("revision"), RevisionHeight: rt.U64("height")}
	// bound: at most one of the 16 height bytes (at an arbitrary position) may be the separator byte 0x2F
	pos := rt.IntRange("slashPosition", 0, 15)
	for i, b := range host.ConsensusStateKey(h)[len(host.KeyConsensusStatePrefix)+1:] {
		if i != pos {
			rt.Assume(b != '/')
		}
	}
	h2 := types.Height{RevisionNumber: rt.U64("revision2"), RevisionHeight: rt.U64("height2")}
	if string(host.ConsensusStateKey(h)) == string(host.ConsensusStateKey(h2)) {
		rt.Assert("J3-consensus-key-injective", h == h2)
	}
	var cons exported.ConsensusState = &tsstypes.ConsensusState{}
	k.SetClientConsensusState(ctx, chain, h, cons)
	slash := false
	for _, b := range host.ConsensusStateKey(h)[len(host.KeyConsensusStatePrefix)+1:] {
		if b == '/' {
			slash = true
		}
	}
	rt.Known("H3-height-byte-0x2f-breaks-key-parsing", slash)
	all := k.GetAllConsensusStates(ctx)
	rt.Reach("iterated")
	rt.Assert("J3-stored-height-read-back", len(all) == 1 && all[0].ChainName == chain && len(all[0].ConsensusStates) == 1 && all[0].ConsensusStates[0].Height == h)
}
