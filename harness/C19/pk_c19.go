package keeper

import (
	"github.com/teleport-network/teleport/x/xibc/core/host"
	"github.com/teleport-network/teleport/x/xibc/core/packet/types"
	rt "github.com/teleport-network/teleport/zzverifrt"
)

func vName(tag string) string {
	s := rt.StrN(tag, 3)
	rt.Assume(host.SrcChainValidator(s) == nil)
	return s
}

// VerifC19PacketStateReadBack (J2): what the packet keeper writes under a key is read back by its iterators
// as the triple and value it was written for, for each key family.
func VerifC19PacketStateReadBack() {
	rt.Opt("exact-decimal")
	rt.Opt("structured-keys")
	ctx := rt.EmptyCtx()
	k := NewKeeper(rt.Codec(), rt.StoreKey(host.StoreKey), nil, nil, nil)
	s, d := vName("s"), vName("d")
	q := rt.U64("q")
	rt.Assume(q < 1000)
	hash := rt.BytesN("hash", 4)
	var got []types.PacketState
	switch rt.IntRange("family", 0, 3) {
	case 0:
		k.SetPacketCommitment(ctx, s, d, q, hash)
		got = k.GetAllPacketCommitments(ctx)
		rt.Assert("J4-other-families-empty", len(k.GetAllPacketAcks(ctx)) == 0 && len(k.GetAllPacketReceipts(ctx)) == 0 && len(k.GetAllPacketSendSeqs(ctx)) == 0)
	case 1:
		k.SetPacketAcknowledgement(ctx, s, d, q, hash)
		got = k.GetAllPacketAcks(ctx)
		rt.Assert("J4-other-families-empty", len(k.GetAllPacketCommitments(ctx)) == 0 && len(k.GetAllPacketReceipts(ctx)) == 0 && len(k.GetAllPacketSendSeqs(ctx)) == 0)
	case 2:
		k.SetPacketReceipt(ctx, s, d, q)
		got = k.GetAllPacketReceipts(ctx)
		hash = []byte{1}
		rt.Assert("J4-other-families-empty", len(k.GetAllPacketCommitments(ctx)) == 0 && len(k.GetAllPacketAcks(ctx)) == 0 && len(k.GetAllPacketSendSeqs(ctx)) == 0)
	case 3:
		k.SetNextSequenceSend(ctx, s, d, q)
		seqs := k.GetAllPacketSendSeqs(ctx)
		rt.Reach("sequences")
		rt.Assert("J2-sequence-read-back", len(seqs) == 1 && seqs[0].SrcChain == s && seqs[0].DstChain == d && seqs[0].Sequence == q)
		rt.Assert("J4-other-families-empty", len(k.GetAllPacketCommitments(ctx)) == 0 && len(k.GetAllPacketAcks(ctx)) == 0 && len(k.GetAllPacketReceipts(ctx)) == 0)
		return
	}
	rt.Reach("hashes")
	rt.Assert("J2-entry-read-back", len(got) == 1 && got[0].SrcChain == s && got[0].DstChain == d && got[0].Sequence == q && rt.BytesEq(got[0].Data, hash))
}
