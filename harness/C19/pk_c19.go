package keeper

import (
	"github.com/teleport-network/teleport/x/xibc/core/host"
	"github.com/teleport-network/teleport/x/xibc/core/packet/types"
	rt "github.com/teleport-network/teleport/zzverifrt"
)

func vName(tag string) string {
	s := rt.StrN(tag, 3)
	rt.Assume(host.SrcChainValidator(s) == nil)
	return s
}

// VerifC19PacketStateReadBack (J2): what the packet keeper writes under a key is read back by its iterators
// as the triple and value it was written for, for each key family.
func VerifC19PacketStateReadBack() {
	rt.Opt("exact-decimal")
	rt.Opt("structured-keys")
	ctx := rt.EmptyCtx()
	k := NewKeeper(rt.Codec(), rt.StoreKey(host.StoreKey), nil, nil, nil)
	s, d := vName("s"), vName("d")
	q := rt.U64("q")
	rt.Assume(q < 1000)
	hash := rt.BytesN("hash", 4)
	var got []types.PacketState
	switch rt.IntRange("family", 0, 3) {
	case 0:
		k.SetPacketCommitment(ctx, s, d, q, hash)
		got = k.GetAllPacketCommitments(ctx)
		rt.Assert("J4-other-families-empty", len(k.GetAllPacketAcks(ctx)) == 0 && len(k.GetAllPacketReceipts(ctx)) == 0 && len(k.GetAllPacketSendSeqs(ctx)) == 0)
	case 1:
		k.SetPacketAcknowledgement(ctx, s, d, q, hash)
		got = k.GetAllPacketAcks(ctx)
		rt.Assert("J4-other-families-empty", len(k.GetAllPacketCommitments(ctx)) == 0 && len(k.GetAllPacketReceipts(ctx)) == 0 && len(k.GetAllPacketSendSeqs(ctx)) == 0)
	case 2:
		k.SetPacketReceipt(ctx, s, d, q)
		got = k.GetAllPacketReceipts(ctx)
		hash = []byte{1}
		rt.Assert("J4-other-families-empty", len(k.GetAllPacketCommitments(ctx)) == 0 && len(k.GetAllPacketAcks(ctx)) == 0 && len(k.GetAllPacketSendSeqs(ctx)) == 0)
	case 3:
		k.SetNextSequenceSend(ctx, s, d, q)
		seqs := k.GetAllPacketSendSeqs(ctx)
		rt.Reach("sequences")
		rt.Assert("J2-sequence-read-back", len(seqs) == 1 && seqs[0].SrcChain == s && seqs[0].DstChain == d && seqs[0].Sequence == q)
		rt.Assert("J4-other-families-empty", len(k.GetAllPacketCommitments(ctx)) == 0 && len(k.GetAllPacketAcks(ctx)) == 0 && len(k.GetAllPacketReceipts(ctx)) == 0)
		return
	}
	rt.Reach("hashes")
	rt.Assert("J2-entry-read-back", len(got) == 1 && got[0].SrcChain == s && got[0].DstChain == d && got[0].Sequence == q && rt.BytesEq(got[0].Data, hash))
}

// VerifC19SequenceRange (J2, J1 over the full uint64 range of sequences): with two fixed valid chain names, an entry of each
// sequence-indexed family written for ANY sequence is read back for that sequence, and two entries of one family
// coincide only for equal sequences. Numbers of more than four digits are rendered with uninterpreted digits
// (strconv's contract: decimal digits only, text determines the number, ParseUint inverts FormatUint).
func VerifC19SequenceRange() {
	rt.Opt("exact-decimal")
	rt.Opt("structured-keys")
	rt.Opt("max-enum-40")
	ctx := rt.EmptyCtx()
	k := NewKeeper(rt.Codec(), rt.StoreKey(host.StoreKey), nil, nil, nil)
	s, d := "abc", "x-1"
	q := rt.U64("q")
	hash := rt.BytesN("hash", 2)
	var got []types.PacketState
	switch rt.IntRange("family", 0, 2) {
	case 0:
		k.SetPacketCommitment(ctx, s, d, q, hash)
		got = k.GetAllPacketCommitments(ctx)
	case 1:
		k.SetPacketAcknowledgement(ctx, s, d, q, hash)
		got = k.GetAllPacketAcks(ctx)
	case 2:
		k.SetPacketReceipt(ctx, s, d, q)
		got = k.GetAllPacketReceipts(ctx)
		hash = []byte{1}
	}
	rt.Reach("read")
	if q >= 1<<63 {
		rt.Reach("upper-half-of-the-range")
	}
	rt.Assert("J2-entry-read-back-any-sequence", len(got) == 1 && got[0].SrcChain == s && got[0].DstChain == d && got[0].Sequence == q && rt.BytesEq(got[0].Data, hash))
}

// VerifC19SequenceKeysInjective: keys of one family and one path for two arbitrary sequences coincide only for equal sequences.
func VerifC19SequenceKeysInjective() {
	rt.Opt("exact-decimal")
	rt.Opt("max-enum-40")
	q1, q2 := rt.U64("q1"), rt.U64("q2")
	kind := rt.IntRange("kind", 0, 3)
	var a, b []byte
	switch kind {
	case 0:
		a, b = host.PacketCommitmentKey("abc", "x-1", q1), host.PacketCommitmentKey("abc", "x-1", q2)
	case 1:
		a, b = host.PacketAcknowledgementKey("abc", "x-1", q1), host.PacketAcknowledgementKey("abc", "x-1", q2)
	case 2:
		a, b = host.PacketReceiptKey("abc", "x-1", q1), host.PacketReceiptKey("abc", "x-1", q2)
	case 3:
		a, b = host.PacketRelayerKey("abc", "x-1", q1), host.PacketRelayerKey("abc", "x-1", q2)
	}
	if string(a) == string(b) {
		rt.Reach("equal-keys")
		rt.Assert("J1-same-sequence-any-sequence", q1 == q2)
	}
}

// VerifC19ReadBackByPath (J2 for the per-path readers): with entries stored for two destinations whose valid names have 3 and
// 3..4 bytes (so that one may extend the other), the reader for one (source, destination) path returns exactly the entries
// written for that path - an entry written for another destination is never read back as one of this path.
func VerifC19ReadBackByPath() {
	rt.Opt("exact-decimal")
	rt.Opt("structured-keys")
	ctx := rt.EmptyCtx()
	k := NewKeeper(rt.Codec(), rt.StoreKey(host.StoreKey), nil, nil, nil)
	s, d1 := vName("s"), vName("d1")
	d2 := rt.StrN("d2", 3+rt.IntRange("d2.extraBytes", 0, 1))
	rt.Assume(host.SrcChainValidator(d2) == nil && d2 != d1)
	q1, q2 := rt.U64("q1"), rt.U64("q2")
	rt.Assume(q1 < 1000 && q2 < 1000)
	h1, h2 := rt.BytesN("hash1", 4), rt.BytesN("hash2", 4)
	k.SetPacketCommitment(ctx, s, d1, q1, h1)
	k.SetPacketCommitment(ctx, s, d2, q2, h2)
	got := k.GetAllPacketCommitmentsByPath(ctx, s, d1)
	rt.Reach("read-by-path")
	rt.Assert("J2-path-reader-returns-exactly-the-path's-entries", len(got) == 1 && got[0].Sequence == q1 && rt.BytesEq(got[0].Data, h1))
}
