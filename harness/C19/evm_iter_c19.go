package types

// Shared by the ETH and the BSC client packages (both are "package types" with the same function names).

import (
	"github.com/cosmos/cosmos-sdk/store/prefix"

	clienttypes "github.com/teleport-network/teleport/x/xibc/core/client/types"
	"github.com/teleport-network/teleport/x/xibc/core/host"
	"github.com/teleport-network/teleport/x/xibc/exported"
	rt "github.com/teleport-network/teleport/zzverifrt"
)

// VerifC19ClientIterationKeys: the client's own consensus-state iterator (used for pruning and re-pointing) reads every
// stored key back as the height it was written for: the parser inverts host.ConsensusStateKey for every revision and
// height, and an ascending iteration over one or two stored heights visits exactly those heights, lowest first.
func VerifC19ClientIterationKeys() {
	rt.Opt("structured-keys")
	ctx := rt.EmptyCtx()
	store := prefix.NewStore(ctx.KVStore(rt.StoreKey(host.StoreKey)), []byte("clients/chain-e/"))
	n := rt.IntRange("storedHeights", 1, 2)
	var hs []clienttypes.Height
	slash := false
	for i := 0; i < n; i++ {
		h := clienttypes.Height{RevisionNumber: rt.U64("revision"), RevisionHeight: rt.U64("height")}
		key := host.ConsensusStateKey(h)
		// bound: at most one of the 16 height bytes (at an arbitrary position) may be the separator byte 0x2F
		pos := rt.IntRange("slashPosition", 0, 15)
		for j, b := range key[len(host.KeyConsensusStatePrefix)+1:] {
			if j != pos {
				rt.Assume(b != '/')
			} else if b == '/' {
				slash = true
			}
		}
		for _, o := range hs {
			rt.Assume(o != h)
		}
		rt.Assert("J5-client-parser-inverts-the-key", GetHeightFromIterationKey(key).(clienttypes.Height) == h)
		store.Set(key, []byte{1})
		hs = append(hs, h)
	}
	rt.Known("H3-height-byte-0x2f-breaks-key-parsing", slash)
	var seen []exported.Height
	IterateConsensusStateAscending(store, func(h exported.Height) bool {
		seen = append(seen, h)
		return false
	})
	rt.Reach("iterated")
	ok := len(seen) == len(hs)
	if ok && len(hs) == 1 {
		ok = seen[0].(clienttypes.Height) == hs[0]
	}
	if ok && len(hs) == 2 {
		lo, hi := hs[0], hs[1]
		if hi.LT(lo) {
			lo, hi = hi, lo
		}
		ok = seen[0].(clienttypes.Height) == lo && seen[1].(clienttypes.Height) == hi
	}
	rt.Assert("J5-client-iterator-reads-back-the-stored-heights-ascending", ok)
}
