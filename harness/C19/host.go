package host

import (
	"bytes"
	"fmt"

	"github.com/teleport-network/teleport/x/xibc/exported"
	rt "github.com/teleport-network/teleport/zzverifrt"
)

// hgt: a height (the client types package cannot be imported from here)
type hgt struct{ r, h uint64 }

func (x hgt) IsZero() bool                 { return x.r == 0 && x.h == 0 }
func (x hgt) LT(o exported.Height) bool    { return x.r < o.GetRevisionNumber() || x.r == o.GetRevisionNumber() && x.h < o.GetRevisionHeight() }
func (x hgt) LTE(o exported.Height) bool   { return x.LT(o) || x.EQ(o) }
func (x hgt) EQ(o exported.Height) bool    { return x.r == o.GetRevisionNumber() && x.h == o.GetRevisionHeight() }
func (x hgt) GT(o exported.Height) bool    { return !x.LTE(o) }
func (x hgt) GTE(o exported.Height) bool   { return !x.LT(o) }
func (x hgt) GetRevisionNumber() uint64    { return x.r }
func (x hgt) GetRevisionHeight() uint64    { return x.h }
func (x hgt) Increment() exported.Height   { return hgt{x.r, x.h + 1} }
func (x hgt) Decrement() (exported.Height, bool) { return hgt{x.r, x.h - 1}, x.h > 0 }
func (x hgt) String() string               { return fmt.Sprintf("%d-%d", x.r, x.h) }

func validName(tag string) string {
	hi := 3 + rt.Tier()
	if tag == "s1" || tag == "s2" || tag == "s" {
		hi++ // source names sweep one more length than destination names
	}
	n := rt.IntRange(tag+".len", 3, hi)
	s := rt.StrN(tag, n)
	rt.Assume(SrcChainValidator(s) == nil)
	return s
}

func keyOf(kind int, s, d string, q uint64) []byte {
	switch kind {
	case 0:
		return PacketCommitmentKey(s, d, q)
	case 1:
		return PacketAcknowledgementKey(s, d, q)
	case 2:
		return PacketReceiptKey(s, d, q)
	case 3:
		return PacketRelayerKey(s, d, q)
	}
	return NextSequenceSendKey(s, d)
}

// VerifC19PacketKeys (J1): for valid chain names of 3..4 (thorough 3..5) bytes and sequences below 10^4, two keys of any
// of the five packet key families coincide only if family and (source, destination, sequence) coincide.
func VerifC19PacketKeys() {
	rt.Opt("exact-decimal")
	s1, d1, s2, d2 := validName("s1"), validName("d1"), validName("s2"), validName("d2")
	q1, q2 := rt.U64("q1"), rt.U64("q2")
	rt.Assume(q1 < 10000 && q2 < 10000)
	k1, k2 := rt.IntRange("kind1", 0, 4), rt.IntRange("kind2", 0, 4)
	rt.Assume(k1 <= k2)
	a, b := keyOf(k1, s1, d1, q1), keyOf(k2, s2, d2, q2)
	rt.Reach("built")
	if string(a) == string(b) {
		rt.Reach("equal-keys")
		rt.Assert("J1-same-family", k1 == k2)
		rt.Assert("J1-same-path", s1 == s2 && d1 == d2)
		if k1 != 4 {
			rt.Assert("J1-same-sequence", q1 == q2)
		}
	}
}

// VerifC19ParsePath: ParsePath reads back the two chain names of every packet key.
func VerifC19ParsePath() {
	rt.Opt("exact-decimal")
	s, d := validName("s"), validName("d")
	q := rt.U64("q")
	rt.Assume(q < 10000)
	k := rt.IntRange("kind", 0, 4)
	ps, pd, err := ParsePath(string(keyOf(k, s, d, q)))
	rt.Reach("parsed")
	rt.Assert("J2-parse-path", err == nil && ps == s && pd == d)
}

// VerifC19KeysHeldTogether: a key stays what it was when another key is computed afterwards (callers keep keys across
// calls: stores that retain the slice, iteration entries whose value is another key): the key of h1, kept while the key of h2
// is built, is unchanged, and the two differ whenever the heights differ - also for the packet keys.
func VerifC19KeysHeldTogether() {
	h1 := hgt{rt.U64("revision1"), rt.U64("height1")}
	h2 := hgt{rt.U64("revision2"), rt.U64("height2")}
	k1 := ConsensusStateKey(h1)
	copy1 := append([]byte(nil), k1...)
	k2 := ConsensusStateKey(h2)
	rt.Reach("both-keys-built")
	if !h1.EQ(h2) {
		rt.Reach("two-different-heights") // also the witness that is run natively against the real slices
	}
	rt.Assert("J6-a-held-key-is-not-changed-by-a-later-call", bytes.Equal(k1, copy1))
	rt.Assert("J6-keys-held-together-differ", h1 == h2 || !bytes.Equal(k1, k2))
	f1 := FullConsensusStateKey("chain-a", h1)
	fcopy := append([]byte(nil), f1...)
	f2 := FullConsensusStateKey("chain-a", h2)
	rt.Assert("J6-a-held-full-key-is-not-changed-by-a-later-call", bytes.Equal(f1, fcopy) && (h1 == h2 || !bytes.Equal(f1, f2)))
}
