package host

import (
	rt "github.com/teleport-network/teleport/zzverifrt"
)

// VerifC19Smoke: receipt keys of two triples with 3-byte names collide only if the triples are equal.
func VerifC19Smoke() {
	rt.Opt("exact-decimal")
	s1, d1 := rt.StrN("s1", 3), rt.StrN("d1", 3)
	s2, d2 := rt.StrN("s2", 3), rt.StrN("d2", 3)
	q1, q2 := rt.U64("q1"), rt.U64("q2")
	rt.Assume(q1 < 1000 && q2 < 1000)
	rt.Assume(SrcChainValidator(s1) == nil && SrcChainValidator(s2) == nil)
	rt.Assume(DstChainValidator(d1) == nil && DstChainValidator(d2) == nil)
	k1 := PacketReceiptKey(s1, d1, q1)
	k2 := PacketReceiptKey(s2, d2, q2)
	rt.Reach("built")
	if string(k1) == string(k2) {
		rt.Assert("J1-receipt-injective", s1 == s2 && d1 == d2 && q1 == q2)
	}
}
