package host

import (
	rt "github.com/teleport-network/teleport/zzverifrt"
)

func validName(tag string) string {
	hi := 3 + rt.Tier()
	if tag == "s1" || tag == "s2" || tag == "s" {
		hi++ // source names sweep one more length than destination names
	}
	n := rt.IntRange(tag+".len", 3, hi)
	s := rt.StrN(tag, n)
	rt.Assume(SrcChainValidator(s) == nil)
	return s
}

func keyOf(kind int, s, d string, q uint64) []byte {
	switch kind {
	case 0:
		return PacketCommitmentKey(s, d, q)
	case 1:
		return PacketAcknowledgementKey(s, d, q)
	case 2:
		return PacketReceiptKey(s, d, q)
	case 3:
		return PacketRelayerKey(s, d, q)
	}
	return NextSequenceSendKey(s, d)
}

// VerifC19PacketKeys (J1): for valid chain names of 3..4 (thorough 3..5) bytes and sequences below 10^4, two keys of any
// of the five packet key families coincide only if family and (source, destination, sequence) coincide.
func VerifC19PacketKeys() {
	rt.Opt("exact-decimal")
	s1, d1, s2, d2 := validName("s1"), validName("d1"), validName("s2"), validName("d2")
	q1, q2 := rt.U64("q1"), rt.U64("q2")
	rt.Assume(q1 < 10000 && q2 < 10000)
	k1, k2 := rt.IntRange("kind1", 0, 4), rt.IntRange("kind2", 0, 4)
	rt.Assume(k1 <= k2)
	a, b := keyOf(k1, s1, d1, q1), keyOf(k2, s2, d2, q2)
	rt.Reach("built")
	if string(a) == string(b) {
		rt.Reach("equal-keys")
		rt.Assert("J1-same-family", k1 == k2)
		rt.Assert("J1-same-path", s1 == s2 && d1 == d2)
		if k1 != 4 {
			rt.Assert("J1-same-sequence", q1 == q2)
		}
	}
}

// VerifC19ParsePath: ParsePath reads back the two chain names of every packet key.
func VerifC19ParsePath() {
	rt.Opt("exact-decimal")
	s, d := validName("s"), validName("d")
	q := rt.U64("q")
	rt.Assume(q < 10000)
	k := rt.IntRange("kind", 0, 4)
	ps, pd, err := ParsePath(string(keyOf(k, s, d, q)))
	rt.Reach("parsed")
	rt.Assert("J2-parse-path", err == nil && ps == s && pd == d)
}
