package types

import (
	"github.com/cosmos/cosmos-sdk/store/prefix"

	clienttypes "github.com/teleport-network/teleport/x/xibc/core/client/types"
	"github.com/teleport-network/teleport/x/xibc/core/host"
	"github.com/teleport-network/teleport/x/xibc/exported"
	rt "github.com/teleport-network/teleport/zzverifrt"
)

// VerifC19TendermintIterationKeys: the Tendermint client's iteration keys (all 2^128 height patterns): the parser inverts
// IterationKey, the stored value is the consensus-state key of the same height, and an ascending iteration over one or two
// recorded heights visits exactly those heights, lowest first.
func VerifC19TendermintIterationKeys() {
	rt.Opt("structured-keys")
	ctx := rt.EmptyCtx()
	store := prefix.NewStore(ctx.KVStore(rt.StoreKey(host.StoreKey)), []byte("clients/chain-t/"))
	n := rt.IntRange("storedHeights", 1, 2)
	var hs []clienttypes.Height
	for i := 0; i < n; i++ {
		h := clienttypes.Height{RevisionNumber: rt.U64("revision"), RevisionHeight: rt.U64("height")}
		for _, o := range hs {
			rt.Assume(o != h)
		}
		rt.Assert("J5-tendermint-parser-inverts-the-iteration-key", GetHeightFromIterationKey(IterationKey(h)).(clienttypes.Height) == h)
		SetIterationKey(store, h)
		rt.Assert("J5-iteration-entry-points-to-the-consensus-state-key", rt.BytesEq(GetIterationKey(store, h), host.ConsensusStateKey(h)))
		hs = append(hs, h)
	}
	var seen []exported.Height
	IterateConsensusStateAscending(store, func(h exported.Height) bool {
		seen = append(seen, h)
		return false
	})
	rt.Reach("iterated")
	ok := len(seen) == len(hs)
	if ok && len(hs) == 1 {
		ok = seen[0].(clienttypes.Height) == hs[0]
	}
	if ok && len(hs) == 2 {
		lo, hi := hs[0], hs[1]
		if hi.LT(lo) {
			lo, hi = hi, lo
		}
		ok = seen[0].(clienttypes.Height) == lo && seen[1].(clienttypes.Height) == hi
	}
	rt.Assert("J5-tendermint-iterator-reads-back-the-recorded-heights-ascending", ok)
}
