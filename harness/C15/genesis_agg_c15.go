package aggregate

// VerifC15AggregateGenesisImport (shared with the C13 check): InitGenesis of the aggregate module does not panic on a validated genesis.
func VerifC15AggregateGenesisImport() { c13AggregateGenesis() }

// VerifC15ValidatedAggregateGenesisImport (shared with the C12 check): ANY aggregate genesis state its Validate accepts is
// imported without a panic (obligation R6-validated-genesis-is-imported-without-panic).
func VerifC15ValidatedAggregateGenesisImport() { c12ValidatedGenesis() }
