package aggregate

// VerifC15AggregateGenesisImport (shared with the C13 check): InitGenesis of the aggregate module does not panic on a validated genesis.
func VerifC15AggregateGenesisImport() { c13AggregateGenesis() }
