package packet

import (
	"github.com/teleport-network/teleport/x/xibc/core/host"
	"github.com/teleport-network/teleport/x/xibc/core/packet/keeper"
	"github.com/teleport-network/teleport/x/xibc/core/packet/types"
	rt "github.com/teleport-network/teleport/zzverifrt"
)

// VerifC15PacketGenesisImport (shared with the C13 check): InitGenesis of the packet sub-module does not panic on a validated genesis.
func VerifC15PacketGenesisImport() { c13PacketGenesis() }

// VerifC15ValidatedPacketGenesisImport: ANY packet genesis state its Validate accepts - zero or one entry of each family, all
// names, sequences and data bytes arbitrary - is imported without a panic (a genesis file is written by hand or by a tool).
func VerifC15ValidatedPacketGenesisImport() {
	rt.Abstract("github.com/cosmos/cosmos-sdk/x/auth/types.NewEmptyModuleAccount")
	k := keeper.NewKeeper(rt.Codec(), rt.StoreKey(host.StoreKey), nil, gAccounts{}, nil)
	state := func(tag string) types.PacketState {
		return types.PacketState{SrcChain: rt.Str(tag + ".src"), DstChain: rt.Str(tag + ".dst"), Sequence: rt.U64(tag + ".seq"), Data: rt.Bytes(tag + ".data")}
	}
	var gs types.GenesisState
	if rt.Bool("hasAck") {
		gs.Acknowledgements = append(gs.Acknowledgements, state("ack"))
	}
	if rt.Bool("hasCommitment") {
		gs.Commitments = append(gs.Commitments, state("commitment"))
	}
	if rt.Bool("hasReceipt") {
		gs.Receipts = append(gs.Receipts, state("receipt"))
	}
	if rt.Bool("hasSendSequence") {
		gs.SendSequences = append(gs.SendSequences, types.PacketSequence{SrcChain: rt.Str("seq.src"), DstChain: rt.Str("seq.dst"), Sequence: rt.U64("seq.seq")})
	}
	rt.Assume(gs.Validate() == nil)
	if len(gs.Acknowledgements)+len(gs.Commitments)+len(gs.Receipts)+len(gs.SendSequences) == 4 {
		rt.Reach("one-entry-of-each-family")
	}
	dst := rt.EmptyCtx()
	rt.NoPanic("P9-validated-packet-genesis-is-imported-without-panic", func() { InitGenesis(dst, k, gs) })
}
