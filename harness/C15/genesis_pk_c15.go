package packet

// VerifC15PacketGenesisImport (shared with the C13 check): InitGenesis of the packet sub-module does not panic on a validated genesis.
func VerifC15PacketGenesisImport() { c13PacketGenesis() }
