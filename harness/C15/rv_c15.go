package rvesting

// C15, begin-block of the reward-vesting module: for every parameter value the registered validators accept
// (what a parameter-change proposal or a validated genesis can install) and every pool, BeginBlocker does not panic.
// Uses the bank stub of the C20 harness (same package).

import (
	sdk "github.com/cosmos/cosmos-sdk/types"

	"github.com/teleport-network/teleport/x/rvesting/keeper"
	"github.com/teleport-network/teleport/x/rvesting/types"
	rt "github.com/teleport-network/teleport/zzverifrt"
)

func VerifC15VestingBeginBlock() {
	n := rt.IntRange("rewardCoins", 1, 3)
	var reward sdk.Coins
	for i := 0; i < n; i++ {
		reward = append(reward, sdk.Coin{Denom: rt.StrN("denom", 3), Amount: anyInt("rewardAmount")})
	}
	params := types.Params{EnableVesting: rt.Bool("enabled"), PerBlockReward: reward}
	pairs := (&params).ParamSetPairs()
	rt.Assume(pairs[0].ValidatorFn(params.EnableVesting) == nil)
	rt.Assume(pairs[1].ValidatorFn(params.PerBlockReward) == nil)
	ctx := rt.Ctx()
	bank := &stubBank{}
	k := keeper.NewKeeper(rt.Subspace(), bank, stubAccounts{}, "fee_collector")
	k.SetParams(ctx, params)
	if n == 3 {
		rt.Reach("three-reward-entries")
	}
	rt.NoPanic("P5-vesting-begin-block-does-not-panic", func() { BeginBlocker(ctx, k) })
}
