package client

import (
	"math/big"

	codectypes "github.com/cosmos/cosmos-sdk/codec/types"
	sdk "github.com/cosmos/cosmos-sdk/types"
	govtypes "github.com/cosmos/cosmos-sdk/x/gov/types"
	paramtypes "github.com/cosmos/cosmos-sdk/x/params/types"
	"github.com/ethereum/go-ethereum/common"

	bsctypes "github.com/teleport-network/teleport/x/xibc/clients/light-clients/bsc/types"
	ethtypes "github.com/teleport-network/teleport/x/xibc/clients/light-clients/eth/types"
	tmtypes "github.com/teleport-network/teleport/x/xibc/clients/light-clients/tendermint/types"
	tsstypes "github.com/teleport-network/teleport/x/xibc/clients/tss-client/types"
	"github.com/teleport-network/teleport/x/xibc/core/client/keeper"
	"github.com/teleport-network/teleport/x/xibc/core/client/types"
	"github.com/teleport-network/teleport/x/xibc/core/host"
	"github.com/teleport-network/teleport/x/xibc/exported"
	rt "github.com/teleport-network/teleport/zzverifrt"
)

type hashWriter struct{ written [][]byte }

func (w *hashWriter) Write(p []byte) (int, error) { w.written = append(w.written, p); return len(p), nil }

// hashing (keccak over an RLP encoding, go-ethereum reflection) is an injective function of the encoded fields
func stubHashing() {
	rt.Override("github.com/teleport-network/teleport/x/xibc/clients/light-clients/eth/types.rlpHash", func(x interface{}) common.Hash {
		return common.BytesToHash([]byte(rt.UFStr("rlpHash", x)))
	})
	rt.Override("github.com/teleport-network/teleport/x/xibc/clients/light-clients/bsc/types.rlpHash", func(x interface{}) common.Hash {
		return common.BytesToHash([]byte(rt.UFStr("rlpHash", x)))
	})
	rt.Override("github.com/teleport-network/teleport/x/xibc/clients/light-clients/bsc/types.sealHash", func(h bsctypes.Header, chainId *big.Int) common.Hash {
		w := &hashWriter{}
		bsctypes.EncodeSigHeaderForVerif(w, h, chainId) // the real field list (and its slicing)
		return common.BytesToHash([]byte(rt.UFStr("sealHash", w.written[0])))
	})
}

// a consensus state of each real client type, fields arbitrary
func freshCons(kind int, tag string) exported.ConsensusState {
	switch kind {
	case 0:
		cons := &tmtypes.ConsensusState{}
		rt.FreshOpt(cons, tag+".tmcons", 1, false)
		return cons
	case 1:
		cons := &ethtypes.ConsensusState{}
		rt.FreshOpt(cons, tag+".ethcons", 1, false)
		return cons
	case 2:
		cons := &bsctypes.ConsensusState{}
		rt.FreshOpt(cons, tag+".bsccons", 1, false)
		return cons
	}
	return &tsstypes.ConsensusState{}
}

// the pair a proposal carries: nothing at submission ties the type of the consensus state to the type of the client state
// (ValidateBasic unpacks and validates the client state only), so the consensus state may be of any of the four types
func freshProposalPair(kind int, tag string) (exported.ClientState, exported.ConsensusState) {
	cs, cons := freshReal(kind, tag)
	if consKind := rt.IntRange(tag+".consensusType", 0, 3); consKind != kind {
		rt.Reach("consensus-state-of-another-client-type")
		return cs, freshCons(consKind, tag+".foreign")
	}
	return cs, cons
}

// one client state + consensus state of each real client type, fields arbitrary
func freshReal(kind int, tag string) (exported.ClientState, exported.ConsensusState) {
	nilPtrs := rt.Tier() == 1
	switch kind {
	case 0:
		cs := &tmtypes.ClientState{}
		rt.FreshOpt(cs, tag+".tm", 1, nilPtrs)
		cons := &tmtypes.ConsensusState{}
		rt.FreshOpt(cons, tag+".tmcons", 1, false)
		return cs, cons
	case 1:
		cs := &ethtypes.ClientState{}
		rt.FreshOpt(cs, tag+".eth", 1, nilPtrs)
		cons := &ethtypes.ConsensusState{}
		rt.FreshOpt(cons, tag+".ethcons", 1, false)
		return cs, cons
	case 2:
		cs := &bsctypes.ClientState{}
		rt.FreshOpt(cs, tag+".bsc", 1, nilPtrs)
		rt.Assume(len(cs.Header.Extra) <= 32+65+40) // bound: at most two validator addresses in the genesis header
		// bloom and nonce: structured bytes with lengths at the boundaries of their fixed-size targets
		if tag == "new" {
			cs.Header.Bloom = rt.BytesN(tag+".bloom", []int{0, 256, 257}[rt.IntRange(tag+".bloomLen", 0, 2)])
			cs.Header.Nonce = rt.BytesN(tag+".nonce", []int{0, 8, 9}[rt.IntRange(tag+".nonceLen", 0, 2)])
		} else {
			cs.Header.Bloom, cs.Header.Nonce = rt.BytesN(tag+".bloom", 256), rt.BytesN(tag+".nonce", 8)
		}
		cons := &bsctypes.ConsensusState{}
		rt.FreshOpt(cons, tag+".bsccons", 1, false)
		return cs, cons
	}
	cs := &tsstypes.ClientState{}
	rt.FreshOpt(cs, tag+".tss", 1, nilPtrs)
	return cs, &tsstypes.ConsensusState{}
}

func anys(cs exported.ClientState, cons exported.ConsensusState) (*codectypes.Any, *codectypes.Any) {
	a, err := codectypes.NewAnyWithValue(cs)
	rt.Assume(err == nil)
	b, err := codectypes.NewAnyWithValue(cons)
	rt.Assume(err == nil)
	return a, b
}

func runProposal(id string, k keeper.Keeper, ctx sdk.Context, content govtypes.Content) {
	// accepted at submission (a panic there happens inside a transaction and rejects the proposal)
	var verr error
	if rt.Panics(func() { verr = content.ValidateBasic() }) {
		return
	}
	rt.Assume(verr == nil)
	rt.Reach(id + "-accepted-at-submission")
	h := NewClientProposalHandler(k)
	rt.NoPanic(id+"-executes-without-panic", func() { _ = h(ctx, content) })
}

// an installed client was accepted by validation when it was created
func assumeValidated(cs exported.ClientState) {
	var err error
	if rt.Panics(func() { err = cs.Validate() }) {
		rt.Assume(false)
	}
	rt.Assume(err == nil)
}

func knownC15(cs exported.ClientState) {
	switch c := cs.(type) {
	case *bsctypes.ClientState:
		rt.Known("H8a-bsc-epoch-zero", c.Epoch == 0)
		rt.Known("H8b-bsc-height0-oversized-bloom-or-nonce", c.Header.Height.RevisionHeight == 0 && (len(c.Header.Bloom) > 256 || len(c.Header.Nonce) > 8))
	case *ethtypes.ClientState:
		rt.Known("H8b-eth-height0-oversized-bloom", c.Header.Height.RevisionHeight == 0 && len(c.Header.Bloom) > 256)
	}
}

// VerifC15CreateClient: every create-client proposal accepted at submission executes to success or an ordinary error.
func VerifC15CreateClient() {
	stubHashing()
	ctx := rt.EmptyCtx()
	k := keeper.NewKeeper(rt.Codec(), rt.StoreKey(host.StoreKey), paramtypes.Subspace{}, nil)
	cs, cons := freshProposalPair(rt.IntRange("clientType", 0, 3), "new")
	knownC15(cs)
	a, b := anys(cs, cons)
	runProposal("create", k, ctx, &types.CreateClientProposal{Title: rt.Str("title"), Description: rt.Str("description"), ChainName: rt.Str("chainName"), ClientState: a, ConsensusState: b})
}

// VerifC15UpgradeClient / ToggleClient: over an installed client of a (same / different) real type.
func VerifC15UpgradeClient() {
	rt.Opt("structured-keys") // the BSC upgrade path iterates the client store
	stubHashing()
	ctx := rt.EmptyCtx()
	k := keeper.NewKeeper(rt.Codec(), rt.StoreKey(host.StoreKey), paramtypes.Subspace{}, nil)
	kind := rt.IntRange("clientType", 0, 3)
	chain := "chain-a"
	old, _ := freshReal(kind, "old")
	assumeValidated(old)
	k.SetClientState(ctx, chain, old)
	cs, cons := freshProposalPair(kind, "new")
	knownC15(cs)
	a, b := anys(cs, cons)
	runProposal("upgrade", k, ctx, &types.UpgradeClientProposal{Title: rt.Str("title"), Description: rt.Str("description"), ChainName: chain, ClientState: a, ConsensusState: b})
}

func VerifC15ToggleClient() {
	stubHashing()
	ctx := rt.EmptyCtx()
	k := keeper.NewKeeper(rt.Codec(), rt.StoreKey(host.StoreKey), paramtypes.Subspace{}, nil)
	kind := rt.IntRange("clientType", 0, 3)
	oldKind := 3 // quick tier: the installed client is TSS (Tendermint when the new one is TSS)
	if kind == 3 {
		oldKind = 0
	}
	if rt.Tier() == 1 {
		oldKind = rt.IntRange("oldClientType", 0, 3)
		rt.Assume(kind != oldKind)
	}
	chain := rt.Str("chainName")
	old, _ := freshReal(oldKind, "old")
	assumeValidated(old)
	knownC15(old) // ToggleClient initialises the OLD client (finding H2b), so its defects surface here too
	k.SetClientState(ctx, chain, old)
	cs, cons := freshProposalPair(kind, "new")
	knownC15(cs)
	a, b := anys(cs, cons)
	runProposal("toggle", k, ctx, &types.ToggleClientProposal{Title: rt.Str("title"), Description: rt.Str("description"), ChainName: chain, ClientState: a, ConsensusState: b})
}

func VerifC15RegisterRelayer() {
	ctx := rt.EmptyCtx()
	k := keeper.NewKeeper(rt.Codec(), rt.StoreKey(host.StoreKey), paramtypes.Subspace{}, nil)
	var p types.RegisterRelayerProposal
	rt.FreshOpt(&p, "proposal", 2, false)
	runProposal("register-relayer", k, ctx, &p)
}
