package rvesting

// C15, genesis initialisation of the reward-vesting module: every genesis state the module's own ValidateGenesis accepts
// is imported by the real InitGenesis without a panic. The parameter store runs the registered validators on every value
// it is asked to store, as the SDK's Subspace.SetParamSet does (a rejected value is a panic there).

import (
	sdk "github.com/cosmos/cosmos-sdk/types"

	"github.com/teleport-network/teleport/x/rvesting/keeper"
	"github.com/teleport-network/teleport/x/rvesting/types"
	rt "github.com/teleport-network/teleport/zzverifrt"
)

func VerifC15VestingGenesisImport() {
	n := rt.IntRange("rewardCoins", 0, 2)
	var reward sdk.Coins
	for i := 0; i < n; i++ {
		reward = append(reward, sdk.Coin{Denom: rt.StrN("denom", 3), Amount: anyInt("rewardAmount")})
	}
	gs := &types.GenesisState{Params: types.Params{EnableVesting: rt.Bool("enabled"), PerBlockReward: reward}}
	if rt.Bool("funded") {
		// the funding account of the genesis file; that it holds the initial reward is a matter of the bank genesis
		gs.From = sdk.AccAddress(rt.BytesN("from", 20)).String()
		gs.InitReward = sdk.Coins{sdk.Coin{Denom: rt.StrN("initDenom", 3), Amount: anyInt("initAmount")}}
		rt.Reach("funded-genesis")
	}
	rt.Assume(types.ValidateGenesis(gs) == nil)
	if !gs.Params.EnableVesting {
		rt.Reach("vesting-disabled")
	}
	ctx := rt.Ctx()
	k := keeper.NewKeeper(rt.Subspace(), &stubBank{}, stubAccounts{}, "fee_collector")
	rt.NoPanic("P7-validated-vesting-genesis-is-imported-without-panic", func() { k.InitGenesis(ctx, gs) })
}
