package aggregate

import (
	"context"

	sdk "github.com/cosmos/cosmos-sdk/types"
	banktypes "github.com/cosmos/cosmos-sdk/x/bank/types"
	govtypes "github.com/cosmos/cosmos-sdk/x/gov/types"
	"github.com/ethereum/go-ethereum/common"
	"github.com/ethereum/go-ethereum/core"
	"github.com/ethereum/go-ethereum/core/vm"
	"github.com/tharsis/ethermint/x/evm/statedb"
	evmtypes "github.com/tharsis/ethermint/x/evm/types"

	"github.com/teleport-network/teleport/x/aggregate/keeper"
	"github.com/teleport-network/teleport/x/aggregate/types"
	rt "github.com/teleport-network/teleport/zzverifrt"
)

// an adversarial EVM: every call may fail or revert, every answer is arbitrary
type aggEVM struct{}

func (aggEVM) GetParams(sdk.Context) evmtypes.Params { return evmtypes.Params{EvmDenom: rt.Str("evmDenom")} }
func (aggEVM) GetAccountWithoutBalance(sdk.Context, common.Address) *statedb.Account {
	if rt.Bool("evm.no-account") {
		return nil
	}
	return &statedb.Account{Nonce: rt.U64("evm.nonce"), CodeHash: rt.Bytes("evm.codeHash")}
}
func (aggEVM) EstimateGas(context.Context, *evmtypes.EthCallRequest) (*evmtypes.EstimateGasResponse, error) {
	if rt.Bool("evm.estimate-fails") {
		return nil, stubErr{}
	}
	return &evmtypes.EstimateGasResponse{Gas: rt.U64("evm.gas")}, nil
}
func (aggEVM) ApplyMessage(sdk.Context, core.Message, vm.EVMLogger, bool) (*evmtypes.MsgEthereumTxResponse, error) {
	if rt.Bool("evm.call-fails") {
		return nil, stubErr{}
	}
	return &evmtypes.MsgEthereumTxResponse{VmError: rt.Str("evm.vmError"), Ret: rt.Bytes("evm.ret")}, nil
}

type aggAccounts struct{}

func (aggAccounts) GetModuleAddress(string) sdk.AccAddress { return sdk.AccAddress(rt.BytesN("moduleAddress", 20)) }
func (aggAccounts) GetSequence(sdk.Context, sdk.AccAddress) (uint64, error) {
	if rt.Bool("sequence-fails") {
		return 0, stubErr{}
	}
	return rt.U64("sequence"), nil
}

// VerifC15AggregateProposals: every aggregate proposal content that passes its ValidateBasic is executed by the real
// governance handler, in a registry of 0..2 pairs and against an adversarial EVM and bank, to success or
// an ordinary error - never a panic (gov's EndBlocker has no recover).
func VerifC15AggregateProposals() {
	ctx := rt.EmptyCtx()
	k := keeper.NewKeeper(rt.StoreKey(types.StoreKey), rt.Codec(), rt.Subspace(), aggAccounts{}, anyBank{}, aggEVM{})
	k.SetParams(ctx, types.Params{EnableAggregate: rt.Bool("moduleEnabled"), EnableEVMHook: rt.Bool("hookEnabled")})
	// a registry of 0..2 pairs as the keeper's own setters build it (a stored pair lists at least one denomination)
	n := rt.IntRange("pairs", 0, 2)
	for i := 0; i < n; i++ {
		denoms := []string{rt.Str("pair.denom")}
		if i == 0 && rt.Bool("pair.two-denominations") {
			denoms = append(denoms, rt.Str("pair.denom2"))
		}
		owner := types.Owner(rt.U32("pair.owner"))
		rt.Assume(owner == types.OWNER_MODULE || owner == types.OWNER_EXTERNAL)
		p := types.NewTokenPair(common.BytesToAddress(rt.BytesN("pair.address", 20)), denoms, rt.Bool("pair.enabled"), owner)
		for _, d := range denoms {
			rt.Assume(d != "") // invariant: a registered denomination passed the metadata validation of its proposal (never empty)
		}
		k.SetTokenPair(ctx, p)
		k.SetDenomsMap(ctx, p.Denoms, p.GetID())
		k.SetERC20Map(ctx, p.GetERC20Contract(), p.GetID())
	}
	var content govtypes.Content
	switch rt.IntRange("proposal", 0, 7) {
	case 0:
		p := &types.RegisterCoinProposal{}
		rt.Fresh(p, "registerCoin")
		content = p
	case 1:
		p := &types.AddCoinProposal{}
		rt.Fresh(p, "addCoin")
		content = p
	case 2:
		p := &types.RegisterERC20Proposal{}
		rt.Fresh(p, "registerERC20")
		content = p
	case 3:
		p := &types.ToggleTokenRelayProposal{}
		rt.Fresh(p, "toggle")
		content = p
	case 4:
		p := &types.UpdateTokenPairERC20Proposal{}
		rt.Fresh(p, "updateERC20")
		content = p
	case 5:
		p := &types.RegisterERC20TraceProposal{}
		rt.Fresh(p, "registerTrace")
		content = p
	case 6:
		p := &types.EnableTimeBasedSupplyLimitProposal{}
		rt.Fresh(p, "enableLimit")
		content = p
	case 7:
		p := &types.DisableTimeBasedSupplyLimitProposal{}
		rt.Fresh(p, "disableLimit")
		content = p
	}
	// the ibc-go denomination-shape test is a further filter at submission; it is left arbitrary (a superset of the accepted contents)
	rt.Abstract("github.com/cosmos/ibc-go/v3/modules/apps/transfer/types.ValidateIBCDenom")
	rt.Abstract("github.com/teleport-network/teleport/x/aggregate/types.validateIBC") // same: the "ibc/" naming filter
	// contract deployment and the name/symbol/decimals query go through go-ethereum's ABI and byte-code plumbing: replaced by
	// adversarial stubs (any address, any answer, any failure); their insides are outside this claim
	rt.Override("(github.com/teleport-network/teleport/x/aggregate/keeper.Keeper).DeployERC20Contract", func(_ keeper.Keeper, _ sdk.Context, m banktypes.Metadata) (common.Address, error) {
		if rt.Bool("deploy-fails") {
			return common.Address{}, stubErr{}
		}
		return common.BytesToAddress(rt.BytesN("deployedAddr", 20)), nil
	})
	rt.Override("(github.com/teleport-network/teleport/x/aggregate/keeper.Keeper).QueryERC20", func(_ keeper.Keeper, _ sdk.Context, c common.Address) (types.ERC20Data, error) {
		if rt.Bool("query-fails") {
			return types.ERC20Data{}, stubErr{}
		}
		return types.ERC20Data{Name: rt.Str("erc20Name"), Symbol: rt.Str("erc20Symbol"), Decimals: rt.U8("erc20Decimals")}, nil
	})
	rt.Assume(content.ValidateBasic() == nil) // accepted at submission
	rt.Reach("accepted-at-submission")
	h := NewAggregateProposalHandler(k)
	var err error
	if rt.NoPanic("P6-aggregate-proposal-does-not-panic", func() { err = h(ctx, content) }) {
		return
	}
	if err == nil {
		rt.Reach("proposal-executed")
	} else {
		rt.Reach("proposal-failed-with-an-error")
	}
}
