package client

// VerifC15ClientGenesisImport (shared with the C13 check): InitGenesis of the client sub-module on a genesis state that was
// exported from a reachable state and passes validation never panics (obligation G2-import-does-not-panic).
func VerifC15ClientGenesisImport() {
	c13AssumeNoSlash = true
	c13ClientGenesis()
}
