package client

import (
	tmtypes "github.com/teleport-network/teleport/x/xibc/clients/light-clients/tendermint/types"
	tsstypes "github.com/teleport-network/teleport/x/xibc/clients/tss-client/types"
	"github.com/teleport-network/teleport/x/xibc/core/client/types"
	rt "github.com/teleport-network/teleport/zzverifrt"
)

// VerifC15ClientGenesisImport (shared with the C13 check): InitGenesis of the client sub-module on a genesis state that was
// exported from a reachable state and passes validation never panics (obligation G2-import-does-not-panic).
func VerifC15ClientGenesisImport() {
	c13AssumeNoSlash = true
	c13ClientGenesis()
}

// VerifC15ValidatedClientGenesisImport: a genesis file is written by hand or by a tool, not only exported. For ANY client
// genesis state GenesisState.Validate accepts - zero or one client (TSS or Tendermint) with zero or one consensus state and
// metadata entry, zero or one relayer with arbitrary strings, an arbitrary native chain name - InitGenesis does not panic.
func VerifC15ValidatedClientGenesisImport() {
	rt.Opt("structured-keys")
	rt.RegisterInterfaces(types.RegisterInterfaces)
	rt.RegisterInterfaces(tsstypes.RegisterInterfaces)
	rt.RegisterInterfaces(tmtypes.RegisterInterfaces)
	k := genesisKeeper()
	gs := types.GenesisState{NativeChainName: rt.Str("nativeChainName")}
	if rt.Bool("hasClient") {
		chain := rt.StrN("chainName", 3)
		cs, cons := c13Client([]int{0, 2}[rt.IntRange("clientType", 0, 1)], "genesis")
		gs.Clients = append(gs.Clients, types.NewIdentifiedClientState(chain, cs))
		if rt.Bool("hasConsensusState") {
			h := types.Height{RevisionNumber: rt.U64("consensus.revision"), RevisionHeight: rt.U64("consensus.height")}
			rt.Assume(h.RevisionNumber <= 40 && h.RevisionHeight >= 1 && h.RevisionHeight <= 40) // no 0x2F byte: the known finding H3 is about exports
			gs.ClientsConsensus = append(gs.ClientsConsensus, types.NewClientConsensusStates(chain, []types.ConsensusStateWithHeight{types.NewConsensusStateWithHeight(h, cons)}))
		}
		if rt.Bool("hasMetadata") {
			gs.ClientsMetadata = append(gs.ClientsMetadata, types.NewIdentifiedGenesisMetadata(chain, []types.GenesisMetadata{types.NewGenesisMetadata(rt.Bytes("metadata.key"), rt.Bytes("metadata.value"))}))
		}
	}
	if rt.Bool("hasRelayer") {
		r := types.IdentifiedRelayer{Address: rt.Str("relayer.address")}
		if rt.Bool("relayer.hasChain") {
			r.Chains = []string{rt.Str("relayer.chain")}
		}
		if rt.Bool("relayer.hasCounterparty") {
			r.Addresses = []string{rt.Str("relayer.counterparty")}
		}
		gs.Relayers = append(gs.Relayers, r)
		rt.Reach("genesis-relayer")
	}
	rt.Assume(gs.Validate() == nil)
	rt.Reach("validated")
	dst := rt.EmptyCtx()
	rt.NoPanic("P8-validated-client-genesis-is-imported-without-panic", func() { InitGenesis(dst, k, gs) })
}
