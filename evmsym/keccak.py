"""Keccak-256 (the pre-standard padding Ethereum uses), small pure-Python implementation for selectors and event ids."""

RC = [0x0000000000000001, 0x0000000000008082, 0x800000000000808A, 0x8000000080008000, 0x000000000000808B, 0x0000000080000001,
      0x8000000080008081, 0x8000000000008009, 0x000000000000008A, 0x0000000000000088, 0x0000000080008009, 0x000000008000000A,
      0x000000008000808B, 0x800000000000008B, 0x8000000000008089, 0x8000000000008003, 0x8000000000008002, 0x8000000000000080,
      0x000000000000800A, 0x800000008000000A, 0x8000000080008081, 0x8000000000008080, 0x0000000080000001, 0x8000000080008008]
ROT = [[0, 36, 3, 41, 18], [1, 44, 10, 45, 2], [62, 6, 43, 15, 61], [28, 55, 25, 21, 56], [27, 20, 39, 8, 14]]
M = (1 << 64) - 1


def rol(x, n):
    n %= 64
    return ((x << n) | (x >> (64 - n))) & M if n else x


def keccak_f(a):
    for rnd in range(24):
        c = [a[x][0] ^ a[x][1] ^ a[x][2] ^ a[x][3] ^ a[x][4] for x in range(5)]
        d = [c[(x - 1) % 5] ^ rol(c[(x + 1) % 5], 1) for x in range(5)]
        a = [[a[x][y] ^ d[x] for y in range(5)] for x in range(5)]
        b = [[0] * 5 for _ in range(5)]
        for x in range(5):
            for y in range(5):
                b[y][(2 * x + 3 * y) % 5] = rol(a[x][y], ROT[x][y])
        a = [[b[x][y] ^ ((~b[(x + 1) % 5][y]) & b[(x + 2) % 5][y]) for y in range(5)] for x in range(5)]
        a[0][0] ^= RC[rnd]
    return a


def keccak256(data: bytes) -> bytes:
    rate = 136
    p = bytearray(data)
    p.append(0x01)
    while len(p) % rate:
        p.append(0)
    p[-1] |= 0x80
    a = [[0] * 5 for _ in range(5)]
    for off in range(0, len(p), rate):
        blk = p[off:off + rate]
        for i in range(rate // 8):
            a[i % 5][i // 5] ^= int.from_bytes(blk[8 * i:8 * i + 8], "little")
        a = keccak_f(a)
    out = b""
    for i in range(4):
        out += a[i % 5][i // 5].to_bytes(8, "little")
    return out


if __name__ == "__main__":
    assert keccak256(b"").hex() == "c5d2460186f7233c927e7db2dcc703c0e500b653ca82273b7bfad8045d85a470"
    assert keccak256(b"transfer(address,uint256)").hex()[:8] == "a9059cbb"
    print("ok")
