#!/usr/bin/env python3
"""C06, contract side: who can exercise the privileged entry points of the bridge's system contracts.

For every privileged method of the packet, endpoint and execute contracts (byte code read from the repository on every run)
the function is executed symbolically from the dispatcher with arbitrary call data, call value, storage and block
environment, under the assumption that the caller is NOT one of the accounts the Go side uses for that method (the xibc
packet module, the aggregate module, the packet / endpoint system contracts - the addresses are printed by /repo's own
packages). The obligation: every feasible path ends in REVERT / INVALID. A path that ends in STOP / RETURN / SELFDESTRUCT is a
counterexample (caller + call data), replayed on go-ethereum's EVM with the real byte code before it is reported.
Vacuity: the run must meet a JUMPI that is decided by the caller assumption (the guard); a method whose paths all revert for
another reason is reported as inconclusive.
"""
import json, os, sys, time
import z3

sys.path.insert(0, os.path.dirname(os.path.abspath(__file__)))
from evmsym import Engine, Inconclusive, bv, W  # noqa: E402
from keccak import keccak256  # noqa: E402


def selector(fn):
    def ty(i):
        if i["type"].startswith("tuple"):
            return "(" + ",".join(ty(c) for c in i["components"]) + ")" + i["type"][5:]
        return i["type"]
    sig = fn["name"] + "(" + ",".join(ty(i) for i in fn["inputs"]) + ")"
    return sig, keccak256(sig.encode())[:4]


def is_dyn(t):
    ty = t["type"]
    if ty in ("string", "bytes") or ty.endswith("[]"):
        return True
    if ty.startswith("tuple"):
        return any(is_dyn(c) for c in t["components"])
    return False


def static_size(t):
    if t["type"] == "tuple":
        return sum(static_size(c) for c in t["components"])
    return 32


def canonical_layout(inputs, length_of):
    """Word offsets of the canonical ABI encoding of the arguments that hold offsets, string/bytes lengths and array counts
    (the data words stay symbolic). length_of(i): length chosen for the i-th dynamic leaf. Returns ({offset: value}, size)."""
    fixed = {}
    counter = [0]

    def enc_tuple(types, base):
        head = sum(32 if is_dyn(t) else static_size(t) for t in types)
        tail = head
        pos = 0
        for t in types:
            if is_dyn(t):
                fixed[base + pos] = tail
                tail += enc_dyn(t, base + tail)
                pos += 32
            else:
                pos += static_size(t)
        return tail

    def enc_dyn(t, base):
        ty = t["type"]
        if ty in ("string", "bytes"):
            n = length_of(counter[0])
            counter[0] += 1
            fixed[base] = n
            return 32 + (n + 31) // 32 * 32
        if ty.endswith("[]"):
            n = min(length_of(counter[0]), 2)
            counter[0] += 1
            fixed[base] = n
            el = dict(t)
            el["type"] = ty[:-2]
            return 32 + enc_tuple([el] * n, base + 32)
        return enc_tuple(t["components"], base)

    size = enc_tuple(inputs, 4)
    return fixed, 4 + size


def layouts(inputs):
    """The bounded family of call-data layouts for methods whose arguments are decoded into memory before the guard."""
    fams = [("every dynamic field of length %d" % n, (lambda n: (lambda i: n))(n)) for n in (0, 1, 32, 33)]
    fams.append(("dynamic fields of lengths 33,0,1,32,... in turn", lambda i: (33, 0, 1, 32)[i % 4]))
    return fams


def load_contract(repo, rel):
    d = json.load(open(os.path.join(repo, rel)))
    abi = json.loads(d["abi"]) if isinstance(d["abi"], str) else d["abi"]
    code = bytes.fromhex(d.get("bin-runtime") or d["bin"])
    return abi, code


# which callers the Go side uses for each privileged method (x/xibc/core/packet/keeper/evm.go CallPacket: packet module ->
# packet contract; x/aggregate/keeper/token_trace.go: aggregate module -> endpoint contract; the contracts call each other)
PRIVILEGED = {
    "syscontracts/xibc_packet/packet.json": {
        "onRecvPacket": ["packetModule"],
        "OnAcknowledgePacket": ["packetModule"],
        "setSequence": ["packetModule"],
        "setAckStatus": ["packetModule"],
        "setChainName": ["packetModule"],
        "sendPacketFeeToRelayer": ["packetModule"],
        "sendPacket": ["endpointContract"],
    },
    "syscontracts/xibc_endpoint/Endpoint.json": {
        "onRecvPacket": ["packetContract"],
        "onAcknowledgementPacket": ["packetContract"],
        "bindToken": ["aggregateModule"],
        "enableTimeBasedSupplyLimit": ["aggregateModule"],
        "disableTimeBasedSupplyLimit": ["aggregateModule"],
    },
}


# methods whose (struct) arguments are copied into memory before the caller is tested: with arbitrary call data the decoder's
# pointer arithmetic is beyond the solver budget, so these are explored over a bounded family of canonical layouts
DECODED_FIRST = {
    ("syscontracts/xibc_packet/packet.json", "onRecvPacket"),
    ("syscontracts/xibc_packet/packet.json", "OnAcknowledgePacket"),
    ("syscontracts/xibc_packet/packet.json", "sendPacket"),
    ("syscontracts/xibc_endpoint/Endpoint.json", "onAcknowledgementPacket"),
}


def check_method(code, sel, allowed_addrs, tier, name, fixed=None, shape="arbitrary call data"):
    eng = Engine(code, name=name, max_paths=3000 if tier == "quick" else 20000, unwind=24 if fixed else (4 if tier == "quick" else 8))
    eng.stop_on_success = True            # a non-reverting path is a counterexample: no need to explore the rest
    eng.budget_s = 30 if tier == "quick" else 600
    lit = z3.Bool("caller-is-not-privileged")
    eng.assume_lit = lit
    not_allowed = z3.And(*[eng.caller != bv(a) for a in allowed_addrs])
    eng.s.add(z3.Implies(lit, not_allowed))
    init = [z3.UGE(eng.cdsize, bv(4)), z3.Extract(255, 224, eng.cdw(bv(0))) == z3.BitVecVal(int.from_bytes(sel, "big"), 32)]
    if fixed:
        for o, v in fixed.items():
            init.append(eng.cdw(bv(o)) == bv(v))
            eng.cd_fixed[o] = v
    t0 = time.time()
    res = {"method": name, "selector": sel.hex(), "allowed": [hex(a) for a in allowed_addrs], "shape": shape}
    try:
        paths = eng.run(init)
    except Inconclusive as e:
        res.update(verdict="inconclusive", reason=str(e), paths=len(eng.paths_done), queries=eng.queries)
        return res, None
    ends = {}
    for p in paths:
        ends[p.end] = ends.get(p.end, 0) + 1
    res.update(paths=len(paths), ends=ends, queries=eng.queries, solver_s=round(eng.solver_time, 2), wall_s=round(time.time() - t0, 2),
               steps=eng.steps, guards=sorted(set(g[0] for g in eng.guards)), bound_hits=sorted(set(eng.bound_hits))[:5])
    cand = [p for p in paths if p.end in ("STOP", "RETURN", "SELFDESTRUCT")]
    bad = []
    try:
        for p in cand:
            # branches were followed on a short solver budget: decide the terminal path with the full one
            if eng.feasible(p.cons, fast=False):
                bad.append(p)
                break
    except Inconclusive as e:
        res.update(verdict="inconclusive", reason="a non-reverting path could not be decided: " + str(e))
        return res, None
    res["kept_on_unknown"] = eng.kept_unknown
    cex = None
    if bad:
        p = bad[0]
        m = eng.model(p.cons)
        if m is not None:
            data = calldata_from_model(m, eng)
            cex = {"method": name, "caller": "0x%040x" % m.eval(eng.caller, model_completion=True).as_long(),
                   "origin": "0x%040x" % (m.eval(z3.BitVec("origin", W), model_completion=True).as_long() & ((1 << 160) - 1)),
                   "callvalue": hex(m.eval(eng.callvalue, model_completion=True).as_long()), "calldata": data.hex(),
                   "ends": p.end, "sstores": len(p.sstores), "calls": len(p.calls), "logs": len(p.logs),
                   "storage_reads_note": "storage is arbitrary in the model; the replay uses the reads listed under 'storage'",
                   "storage": storage_model(m, eng, p)}
        res["verdict"] = "violated"
    elif eng.bound_hits or ends.get("BOUND"):
        res["verdict"] = "inconclusive"
        res["reason"] = "bound hit: " + "; ".join(sorted(set(eng.bound_hits))[:3])
    elif not eng.guards:
        res["verdict"] = "inconclusive"
        res["reason"] = "every path reverts but no branch is decided by the caller (vacuous?)"
    else:
        res["verdict"] = "held"
    return res, cex


def calldata_from_model(m, eng):
    """Assemble one byte string from the model of the call-data read functions (word reads, byte reads, fixed layout words)."""
    size = min(m.eval(eng.cdsize, model_completion=True).as_long(), 4096)
    buf = bytearray(max(size, 4))
    def put(off, bs):
        nonlocal buf
        if off + len(bs) > 4096:
            return
        if off + len(bs) > len(buf):
            buf.extend(b"\0" * (off + len(bs) - len(buf)))
        buf[off:off + len(bs)] = bs
    for f, width in ((eng.cdb, 1), (eng.cdw, 32)):
        try:
            fi = m[f]
            if isinstance(fi, z3.FuncInterp):
                for i in range(fi.num_entries()):
                    e = fi.entry(i)
                    put(e.arg_value(0).as_long(), e.value().as_long().to_bytes(width, "big"))
        except z3.Z3Exception:
            pass
    for o in eng.cd_reads.values():
        ov = m.eval(o, model_completion=True).as_long()
        put(ov, m.eval(eng.cdw(o), model_completion=True).as_long().to_bytes(32, "big"))
    for o, v in eng.cd_fixed.items():
        put(o, v.to_bytes(32, "big"))
    put(0, m.eval(eng.cdw(bv(0)), model_completion=True).as_long().to_bytes(32, "big")[:4])
    return bytes(buf)


def storage_model(m, eng, p):
    """Initial storage words the model fixes (as far as the solver's array model lists them)."""
    out = {}
    try:
        interp = m[eng.storage0]
        if interp is None:
            return out
        e = interp
        # an array model is a nest of Store(...) over K(default)
        while z3.is_store(e):
            k, v = e.arg(1), e.arg(2)
            if z3.is_bv_value(k) and z3.is_bv_value(v):
                out.setdefault("0x%x" % k.as_long(), "0x%x" % v.as_long())
            e = e.arg(0)
        if z3.is_const_array(e) and z3.is_bv_value(e.arg(0)):
            out["default"] = "0x%x" % e.arg(0).as_long()
    except Exception:
        pass
    return out


def main():
    repo = os.environ.get("VERIF_REPO", "/repo")
    tier = os.environ.get("VERIF_TIER", "quick")
    addrs = json.loads(sys.argv[1]) if len(sys.argv) > 1 else json.load(sys.stdin)
    A = {k: int(v, 16) for k, v in addrs.items()}
    results, cexs = [], []
    for rel, methods in PRIVILEGED.items():
        abi, code = load_contract(repo, rel)
        fns = {f["name"]: f for f in abi if f.get("type") == "function"}
        for mname, who in methods.items():
            if mname not in fns:
                results.append({"contract": rel, "method": mname, "verdict": "inconclusive", "reason": "method not in the ABI"})
                continue
            sig, sel = selector(fns[mname])
            runs = [(None, "arbitrary call data")]
            if (rel, mname) in DECODED_FIRST:
                runs = []
                for desc, fn in layouts(fns[mname]["inputs"]):
                    fixed, size = canonical_layout(fns[mname]["inputs"], fn)
                    runs.append((fixed, "canonical ABI layout, " + desc))
            fallback = (rel, mname) not in DECODED_FIRST
            while runs:
                fixed, shape = runs.pop(0)
                print("evmsym guards:", rel.split("/")[-1], sig[:40], "|", shape, file=sys.stderr, flush=True)
                res, cex = check_method(code, sel, [A[w] for w in who], tier, sig, fixed, shape)
                if fallback and fixed is None and res["verdict"] == "inconclusive":
                    # the guard did not stop the run and the body is beyond the budget with arbitrary call data: look for a
                    # non-reverting path over the canonical layouts, where the body runs on concrete lengths
                    fallback = False
                    for desc, fn in layouts(fns[mname]["inputs"]):
                        fx, _ = canonical_layout(fns[mname]["inputs"], fn)
                        runs.append((fx, "canonical ABI layout, " + desc + " (after an inconclusive run on arbitrary call data)"))
                res["contract"] = rel
                res["code_bytes"] = len(code)
                res["allowed_names"] = who
                results.append(res)
                if cex:
                    cex["contract"] = rel
                    cex["shape"] = shape
                    cexs.append(cex)
    json.dump({"results": results, "counterexamples": cexs}, sys.stdout, indent=1)


if __name__ == "__main__":
    main()
