#!/usr/bin/env python3
"""C06, contract side: who can exercise the privileged entry points of the bridge's system contracts.

For every privileged method of the packet, endpoint and execute contracts (byte code read from the repository on every run)
the function is executed symbolically from the dispatcher with arbitrary call data, call value, storage and block
environment, under the assumption that the caller is NOT one of the accounts the Go side uses for that method (the xibc
packet module, the aggregate module, the packet / endpoint system contracts - the addresses are printed by /repo's own
packages). The obligation: every feasible path ends in REVERT / INVALID. A path that ends in STOP / RETURN / SELFDESTRUCT is a
counterexample (caller + call data), replayed on go-ethereum's EVM with the real byte code before it is reported.
Vacuity: the run must meet a JUMPI that is decided by the caller assumption (the guard); a method whose paths all revert for
another reason is reported as inconclusive.
"""
import json, os, sys, time
import z3

sys.path.insert(0, os.path.dirname(os.path.abspath(__file__)))
from evmsym import Engine, Inconclusive, bv, W  # noqa: E402
from keccak import keccak256  # noqa: E402


def selector(fn):
    def ty(i):
        if i["type"].startswith("tuple"):
            return "(" + ",".join(ty(c) for c in i["components"]) + ")" + i["type"][5:]
        return i["type"]
    sig = fn["name"] + "(" + ",".join(ty(i) for i in fn["inputs"]) + ")"
    return sig, keccak256(sig.encode())[:4]


def load_contract(repo, rel):
    d = json.load(open(os.path.join(repo, rel)))
    abi = json.loads(d["abi"]) if isinstance(d["abi"], str) else d["abi"]
    code = bytes.fromhex(d.get("bin-runtime") or d["bin"])
    return abi, code


# which callers the Go side uses for each privileged method (x/xibc/core/packet/keeper/evm.go CallPacket: packet module ->
# packet contract; x/aggregate/keeper/token_trace.go: aggregate module -> endpoint contract; the contracts call each other)
PRIVILEGED = {
    "syscontracts/xibc_packet/packet.json": {
        "onRecvPacket": ["packetModule"],
        "OnAcknowledgePacket": ["packetModule"],
        "setSequence": ["packetModule"],
        "setAckStatus": ["packetModule"],
        "setChainName": ["packetModule"],
        "sendPacketFeeToRelayer": ["packetModule"],
        "sendPacket": ["endpointContract"],
    },
    "syscontracts/xibc_endpoint/Endpoint.json": {
        "onRecvPacket": ["packetContract"],
        "onAcknowledgementPacket": ["packetContract"],
        "bindToken": ["aggregateModule"],
        "enableTimeBasedSupplyLimit": ["aggregateModule"],
        "disableTimeBasedSupplyLimit": ["aggregateModule"],
    },
    "syscontracts/xibc_endpoint/Execute.json": {
        "execute": ["endpointContract", "packetContract"],
    },
}


def check_method(code, sel, allowed_addrs, tier, name):
    eng = Engine(code, name=name, max_paths=3000 if tier == "quick" else 20000, unwind=4 if tier == "quick" else 8)
    lit = z3.Bool("caller-is-not-privileged")
    eng.assume_lit = lit
    not_allowed = z3.And(*[eng.caller != bv(a) for a in allowed_addrs])
    eng.s.add(z3.Implies(lit, not_allowed))
    init = [z3.UGE(eng.cdsize, bv(4))] + [z3.Select(eng.cd, bv(i)) == z3.BitVecVal(sel[i], 8) for i in range(4)]
    t0 = time.time()
    res = {"method": name, "selector": sel.hex(), "allowed": [hex(a) for a in allowed_addrs]}
    try:
        paths = eng.run(init)
    except Inconclusive as e:
        res.update(verdict="inconclusive", reason=str(e), paths=len(eng.paths_done), queries=eng.queries)
        return res, None
    ends = {}
    for p in paths:
        ends[p.end] = ends.get(p.end, 0) + 1
    res.update(paths=len(paths), ends=ends, queries=eng.queries, solver_s=round(eng.solver_time, 2), wall_s=round(time.time() - t0, 2),
               steps=eng.steps, guards=sorted(set(g[0] for g in eng.guards)), bound_hits=sorted(set(eng.bound_hits))[:5])
    bad = [p for p in paths if p.end in ("STOP", "RETURN", "SELFDESTRUCT")]
    cex = None
    if bad:
        p = bad[0]
        m = eng.model(p.cons)
        if m is not None:
            size = m.eval(eng.cdsize, model_completion=True).as_long()
            size = min(size, 4096)
            data = bytes(m.eval(z3.Select(eng.cd, bv(i)), model_completion=True).as_long() for i in range(size))
            cex = {"method": name, "caller": "0x%040x" % m.eval(eng.caller, model_completion=True).as_long(),
                   "callvalue": hex(m.eval(eng.callvalue, model_completion=True).as_long()), "calldata": data.hex(),
                   "ends": p.end, "sstores": len(p.sstores), "calls": len(p.calls), "logs": len(p.logs),
                   "storage_reads_note": "storage is arbitrary in the model; the replay uses the reads listed under 'storage'",
                   "storage": storage_model(m, eng, p)}
        res["verdict"] = "violated"
    elif eng.bound_hits or ends.get("BOUND"):
        res["verdict"] = "inconclusive"
        res["reason"] = "bound hit: " + "; ".join(sorted(set(eng.bound_hits))[:3])
    elif not eng.guards:
        res["verdict"] = "inconclusive"
        res["reason"] = "every path reverts but no branch is decided by the caller (vacuous?)"
    else:
        res["verdict"] = "held"
    return res, cex


def storage_model(m, eng, p):
    """Initial storage words the model fixes (as far as the solver's array model lists them)."""
    out = {}
    try:
        interp = m[eng.storage0]
        if interp is None:
            return out
        e = interp
        # an array model is a nest of Store(...) over K(default)
        while z3.is_store(e):
            k, v = e.arg(1), e.arg(2)
            if z3.is_bv_value(k) and z3.is_bv_value(v):
                out.setdefault("0x%x" % k.as_long(), "0x%x" % v.as_long())
            e = e.arg(0)
        if z3.is_const_array(e) and z3.is_bv_value(e.arg(0)):
            out["default"] = "0x%x" % e.arg(0).as_long()
    except Exception:
        pass
    return out


def main():
    repo = os.environ.get("VERIF_REPO", "/repo")
    tier = os.environ.get("VERIF_TIER", "quick")
    addrs = json.loads(sys.argv[1]) if len(sys.argv) > 1 else json.load(sys.stdin)
    A = {k: int(v, 16) for k, v in addrs.items()}
    results, cexs = [], []
    for rel, methods in PRIVILEGED.items():
        abi, code = load_contract(repo, rel)
        fns = {f["name"]: f for f in abi if f.get("type") == "function"}
        for mname, who in methods.items():
            if mname not in fns:
                results.append({"contract": rel, "method": mname, "verdict": "inconclusive", "reason": "method not in the ABI"})
                continue
            sig, sel = selector(fns[mname])
            res, cex = check_method(code, sel, [A[w] for w in who], tier, sig)
            res["contract"] = rel
            res["code_bytes"] = len(code)
            res["allowed_names"] = who
            results.append(res)
            if cex:
                cex["contract"] = rel
                cexs.append(cex)
    json.dump({"results": results, "counterexamples": cexs}, sys.stdout, indent=1)


if __name__ == "__main__":
    main()
