#!/usr/bin/env python3
"""C17, contract side: the Staking and Gov system contracts emit, for every call that does not revert, exactly one event -
the one of the called method - whose first data word is the caller (msg.sender) and whose numeric arguments are the call's
own arguments, and do nothing else (no storage write, no external call). The Go hooks act on exactly that event (checked by
the gosmt harnesses); together: the native action is executed for the account that called the contract, with its arguments.
Byte code is read from the repository on every run; call data, caller, call value are arbitrary. String arguments are
followed only as far as their length word (their bytes are copied by a loop: unwinding bound, longer strings are cut)."""
import json, os, sys, time
import z3

sys.path.insert(0, os.path.dirname(os.path.abspath(__file__)))
from evmsym import Engine, Inconclusive, bv, W, is_c, cval, simp  # noqa: E402
from guards import selector, load_contract  # noqa: E402
from keccak import keccak256  # noqa: E402

LENS = [0, 1, 32, 33]


def ru(n):
    return (n + 31) // 32 * 32


def shapes_one_string(nfixed_after):
    """f(string, <nfixed_after words>): canonical head, string length in LENS."""
    out = []
    head = 32 * (1 + nfixed_after)
    for L in LENS:
        out.append(("string length %d" % L, [(4, head), (4 + head, L)], [(4 + head, L)]))
    return out


def shapes_two_strings():
    """f(string, string, uint256): canonical heads, both lengths in LENS."""
    out = []
    for L1 in LENS:
        for L2 in LENS:
            o1 = 0x60
            o2 = o1 + 32 + ru(L1)
            out.append(("string lengths %d,%d" % (L1, L2), [(4, o1), (36, o2), (4 + o1, L1), (4 + o2, L2)], [(4 + o1, L1), (4 + o2, L2)]))
    return out


def shapes_array():
    """vote(uint64, (uint32,uint64)[]): canonical head, 0..2 options."""
    return [("%d options" % n, [(36, 0x40), (4 + 0x40, n)], []) for n in (0, 1, 2)]


# method -> (event, [(data word index, call-data head offset, bits)], shapes)
#   numeric copies: which data words of the event are which arguments of the call
#   shapes: the bounded family of call-data layouts explored (canonical ABI encoding; each: description, fixed call-data words,
#           strings as (offset of the length word, length)); [None] = arbitrary call data (no dynamic argument)
SPEC = {
    "syscontracts/contracts_compiled/Staking.json": {
        "delegate(string,uint256)": ("Delegated", [(2, 36, 256)], shapes_one_string(1)),
        "undelegate(string,uint256)": ("Undelegated", [(2, 36, 256)], shapes_one_string(1)),
        "redelegate(string,string,uint256)": ("Redelegated", [(3, 68, 256)], shapes_two_strings()),
        "withdraw(string)": ("Withdrew", [], shapes_one_string(0)),
    },
    "syscontracts/contracts_compiled/Gov.json": {
        "vote(uint64,uint32)": ("Voted", [(1, 4, 64), (2, 36, 32)], [None]),
        "vote(uint64,(uint32,uint64)[])": ("VotedWeighted", [(1, 4, 64)], shapes_array()),
    },
}


def event_id(abi, name):
    for e in abi:
        if e.get("type") == "event" and e["name"] == name:
            def ty(i):
                if i["type"].startswith("tuple"):
                    return "(" + ",".join(ty(c) for c in i["components"]) + ")" + i["type"][5:]
                return i["type"]
            return int.from_bytes(keccak256((name + "(" + ",".join(ty(i) for i in e["inputs"]) + ")").encode()), "big")
    return None


def check_method(code, abi, sig, sel, event, copies, tier, shape=None):
    eng = Engine(code, name=sig, max_paths=400 if tier == "quick" else 3000, unwind=5 if tier == "quick" else 9, timeout_ms=30000)
    eng.fast_ms = 3000
    init = [z3.UGE(eng.cdsize, bv(4)), z3.Extract(255, 224, eng.cdw(bv(0))) == z3.BitVecVal(int.from_bytes(sel, "big"), 32)]
    strings = []
    if shape is not None:
        desc, fixed, strings = shape
        for (o, v) in fixed:
            init.append(eng.cdw(bv(o)) == bv(v))
            eng.cd_fixed[o] = v
    t0 = time.time()
    res = {"method": sig, "selector": sel.hex(), "event": event, "shape": shape[0] if shape else "arbitrary call data"}
    try:
        paths = eng.run(init)
    except Inconclusive as e:
        res.update(verdict="inconclusive", reason=str(e))
        return res, None
    ends = {}
    for p in paths:
        ends[p.end] = ends.get(p.end, 0) + 1
    ok_paths = [p for p in paths if p.end in ("STOP", "RETURN", "SELFDESTRUCT")]
    eid = event_id(abi, event)
    st = {"obligations": 0, "discharged": 0, "cex": None, "reached": 0}

    def refute(p, cond, what):
        """cond must hold on path p: ask for a model of path and not cond."""
        st["obligations"] += 1
        m = eng.model(p.cons, [z3.Not(cond)])
        if m is None:
            st["discharged"] += 1
            return
        if st["cex"] is None:
            words = {}
            for o in list(eng.cd_reads.values())[:24]:
                words[str(m.eval(o, model_completion=True).as_long())] = "0x%064x" % m.eval(eng.cdw(o), model_completion=True).as_long()
            st["cex"] = {"method": sig, "obligation": what, "caller": "0x%040x" % m.eval(eng.caller, model_completion=True).as_long(), "calldata_words": words}

    try:
        for p in ok_paths:
            if not eng.feasible(p.cons, fast=False):
                continue
            st["reached"] += 1
            shape = len(p.logs) == 1 and len(p.sstores) == 0 and len(p.calls) == 0 and p.end != "SELFDESTRUCT"
            st["obligations"] += 1
            if not shape:
                if st["cex"] is None:
                    st["cex"] = {"method": sig, "obligation": "exactly one event and no other effect", "logs": len(p.logs), "sstores": len(p.sstores), "calls": len(p.calls)}
                continue
            st["discharged"] += 1
            topics, data, off, size, mem = p.logs[0]
            refute(p, topics[0] == bv(eid) if len(topics) == 1 else z3.BoolVal(False), "the event is %s" % event)

            def word(k):
                return mem.load(simp(off + 32 * k))
            refute(p, z3.UGE(size, bv(32)), "the event data is not empty")
            refute(p, word(0) == eng.caller, "the first data word is the caller")
            for (k, cdoff, bits) in copies:
                arg = eng.cdw(bv(cdoff))
                if bits < 256:
                    arg = z3.ZeroExt(256 - bits, z3.Extract(bits - 1, 0, arg))
                refute(p, word(k) == arg, "data word %d is the call's argument at call-data offset %d" % (k, cdoff))
            # string arguments: each string of the call appears in the event data with its length and its bytes. The event
            # data is the ABI encoding (address, args...): the head word of the i-th string argument points at its length word.
            for si, (lenoff, L) in enumerate(strings):
                ptr = word(1 + si)            # offset of the string inside the event data
                refute(p, mem.load(simp(off + ptr)) == bv(L), "string %d has the length of the call's argument" % si)
                for j in range(L):
                    refute(p, mem.load8(simp(off + ptr + 32 + j)) == eng.cdb(bv(lenoff + 32 + j)), "string %d byte %d is the call's" % (si, j))
    except Inconclusive as e:
        res.update(verdict="inconclusive", reason=str(e))
        return res, None
    res.update(paths=len(paths), ends=ends, non_reverting_feasible=st["reached"], obligations=st["obligations"], discharged=st["discharged"],
               queries=eng.queries, solver_s=round(eng.solver_time, 2), wall_s=round(time.time() - t0, 2), steps=eng.steps,
               bound_hits=sorted(set(eng.bound_hits))[:4], kept_on_unknown=eng.kept_unknown)
    if st["cex"] is not None:
        res["verdict"] = "violated"
    elif st["reached"] == 0:
        res["verdict"] = "inconclusive"
        res["reason"] = "no non-reverting path was reached (vacuous)"
    else:
        # paths cut at the unwinding bound (long strings) are outside the claim, not a failure
        res["verdict"] = "held"
    return res, st["cex"]


def main():
    repo = os.environ.get("VERIF_REPO", "/repo")
    tier = os.environ.get("VERIF_TIER", "quick")
    results, cexs = [], []
    for rel, methods in SPEC.items():
        abi, code = load_contract(repo, rel)
        fns = {}
        for f in abi:
            if f.get("type") == "function":
                sig, sel = selector(f)
                fns[sig] = (f, sel)
        # every state-changing method of the contract must be covered by the specification
        for sig, (f, sel) in fns.items():
            if f.get("stateMutability") in ("view", "pure"):
                continue
            if sig not in methods:
                results.append({"contract": rel, "method": sig, "verdict": "inconclusive", "reason": "method of the system contract is not in the specification table"})
        for sig, (event, copies, shapes) in methods.items():
            if sig not in fns:
                results.append({"contract": rel, "method": sig, "verdict": "inconclusive", "reason": "method not in the ABI"})
                continue
            for shape in shapes:
                res, cex = check_method(code, abi, sig, fns[sig][1], event, copies, tier, shape)
                res["contract"] = rel
                res["code_bytes"] = len(code)
                results.append(res)
                if cex:
                    cex["contract"] = rel
                    cex["shape"] = res["shape"]
                    cexs.append(cex)
    json.dump({"results": results, "counterexamples": cexs}, sys.stdout, indent=1)


if __name__ == "__main__":
    main()
