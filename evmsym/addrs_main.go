// Printed from /repo's own packages (run with go run -overlay): the addresses the Go side uses when it talks to the system contracts.
package main

import (
	"encoding/json"
	"fmt"

	"github.com/teleport-network/teleport/syscontracts"
	aggtypes "github.com/teleport-network/teleport/x/aggregate/types"
	packettypes "github.com/teleport-network/teleport/x/xibc/core/packet/types"
)

func main() {
	out := map[string]string{
		"packetModule":     packettypes.ModuleAddress.Hex(),
		"aggregateModule":  aggtypes.ModuleAddress.Hex(),
		"packetContract":   syscontracts.PacketContractAddress,
		"endpointContract": syscontracts.EndpointContractAddress,
		"executeContract":  syscontracts.ExecuteContractAddress,
		"stakingContract":  syscontracts.StakingContractAddress,
		"govContract":      syscontracts.GovContractAddress,
		"agentContract":    syscontracts.AgentContractAddress,
	}
	bz, _ := json.Marshal(out)
	fmt.Println(string(bz))
}
