#!/usr/bin/env python3
"""evmsym: bounded symbolic execution of EVM runtime byte code (the compiled system contracts of /repo) with z3.

Inputs (call data, caller, call value, storage, every answer of an external call, block environment) are solver
variables; every JUMPI on a symbolic condition asks z3 which sides are feasible; exploration is depth first, path-wise,
with one incremental solver (push/pop). Bounds: loop unrolling per (pc, direction) and path, number of paths, call data
size. Hitting a bound is reported, never counted as success.

Memory is byte-addressed: a dictionary for concrete offsets on top of a z3 array (used once an offset is symbolic).
Storage is an array word -> word with an arbitrary initial content. KECCAK256 is an uninterpreted function of its
pre-image (per concrete length; an arbitrary fresh word for a symbolic length).
"""
import z3

W = 256
MASK = (1 << W) - 1


def bv(x, w=W):
    return z3.BitVecVal(x, w)


def is_c(x):
    return z3.is_bv_value(x)


def cval(x):
    return x.as_long()


def simp(x):
    return z3.simplify(x)


OPS = {
    0x00: ("STOP", 0, 0), 0x01: ("ADD", 2, 1), 0x02: ("MUL", 2, 1), 0x03: ("SUB", 2, 1), 0x04: ("DIV", 2, 1),
    0x05: ("SDIV", 2, 1), 0x06: ("MOD", 2, 1), 0x07: ("SMOD", 2, 1), 0x08: ("ADDMOD", 3, 1), 0x09: ("MULMOD", 3, 1),
    0x0a: ("EXP", 2, 1), 0x0b: ("SIGNEXTEND", 2, 1),
    0x10: ("LT", 2, 1), 0x11: ("GT", 2, 1), 0x12: ("SLT", 2, 1), 0x13: ("SGT", 2, 1), 0x14: ("EQ", 2, 1),
    0x15: ("ISZERO", 1, 1), 0x16: ("AND", 2, 1), 0x17: ("OR", 2, 1), 0x18: ("XOR", 2, 1), 0x19: ("NOT", 1, 1),
    0x1a: ("BYTE", 2, 1), 0x1b: ("SHL", 2, 1), 0x1c: ("SHR", 2, 1), 0x1d: ("SAR", 2, 1),
    0x20: ("SHA3", 2, 1),
    0x30: ("ADDRESS", 0, 1), 0x31: ("BALANCE", 1, 1), 0x32: ("ORIGIN", 0, 1), 0x33: ("CALLER", 0, 1),
    0x34: ("CALLVALUE", 0, 1), 0x35: ("CALLDATALOAD", 1, 1), 0x36: ("CALLDATASIZE", 0, 1), 0x37: ("CALLDATACOPY", 3, 0),
    0x38: ("CODESIZE", 0, 1), 0x39: ("CODECOPY", 3, 0), 0x3a: ("GASPRICE", 0, 1), 0x3b: ("EXTCODESIZE", 1, 1),
    0x3c: ("EXTCODECOPY", 4, 0), 0x3d: ("RETURNDATASIZE", 0, 1), 0x3e: ("RETURNDATACOPY", 3, 0), 0x3f: ("EXTCODEHASH", 1, 1),
    0x40: ("BLOCKHASH", 1, 1), 0x41: ("COINBASE", 0, 1), 0x42: ("TIMESTAMP", 0, 1), 0x43: ("NUMBER", 0, 1),
    0x44: ("DIFFICULTY", 0, 1), 0x45: ("GASLIMIT", 0, 1), 0x46: ("CHAINID", 0, 1), 0x47: ("SELFBALANCE", 0, 1),
    0x48: ("BASEFEE", 0, 1),
    0x50: ("POP", 1, 0), 0x51: ("MLOAD", 1, 1), 0x52: ("MSTORE", 2, 0), 0x53: ("MSTORE8", 2, 0), 0x54: ("SLOAD", 1, 1),
    0x55: ("SSTORE", 2, 0), 0x56: ("JUMP", 1, 0), 0x57: ("JUMPI", 2, 0), 0x58: ("PC", 0, 1), 0x59: ("MSIZE", 0, 1),
    0x5a: ("GAS", 0, 1), 0x5b: ("JUMPDEST", 0, 0),
    0xf0: ("CREATE", 3, 1), 0xf1: ("CALL", 7, 1), 0xf2: ("CALLCODE", 7, 1), 0xf3: ("RETURN", 2, 0),
    0xf4: ("DELEGATECALL", 6, 1), 0xf5: ("CREATE2", 4, 1), 0xfa: ("STATICCALL", 6, 1), 0xfd: ("REVERT", 2, 0),
    0xfe: ("INVALID", 0, 0), 0xff: ("SELFDESTRUCT", 1, 0),
}
for i in range(32):
    OPS[0x60 + i] = ("PUSH%d" % (i + 1), 0, 1)
for i in range(16):
    OPS[0x80 + i] = ("DUP%d" % (i + 1), i + 1, i + 2)
    OPS[0x90 + i] = ("SWAP%d" % (i + 1), i + 2, i + 2)
for i in range(5):
    OPS[0xa0 + i] = ("LOG%d" % i, 2 + i, 0)


FULL = (0, MASK)


def rng(e, bounds, depth=0):
    """A sound unsigned interval for a 256-bit term: constants, sums, masks, shifts by constants, if-then-else; upper bounds
    of sub-terms recorded from path conditions (bounds: term id -> hi). Anything else: the full range."""
    if is_c(e):
        v = cval(e)
        return (v, v)
    hi_known = bounds.get(e.get_id())
    r = FULL
    if depth < 12 and z3.is_app(e):
        k = e.decl().kind()
        ch = e.children()
        if k == z3.Z3_OP_BADD:
            lo, hi = 0, 0
            ok = True
            for c in ch:
                a, b = rng(c, bounds, depth + 1)
                lo += a
                hi += b
            r = (lo, hi) if hi <= MASK else FULL
        elif k == z3.Z3_OP_BAND:
            his = [rng(c, bounds, depth + 1)[1] for c in ch]
            r = (0, min(his))
        elif k == z3.Z3_OP_ITE:
            a, b = rng(ch[1], bounds, depth + 1), rng(ch[2], bounds, depth + 1)
            r = (min(a[0], b[0]), max(a[1], b[1]))
        elif k == z3.Z3_OP_CONCAT:
            # zero extension written as concat(0, x)
            if len(ch) == 2 and is_c(ch[0]) and cval(ch[0]) == 0:
                r = (0, (1 << ch[1].size()) - 1)
        elif k == z3.Z3_OP_ZERO_EXT:
            r = (0, (1 << ch[0].size()) - 1)
        elif k == z3.Z3_OP_BLSHR and is_c(ch[1]):
            a, b = rng(ch[0], bounds, depth + 1)
            sh = cval(ch[1])
            r = (a >> sh, b >> sh) if sh < W else (0, 0)
        elif k == z3.Z3_OP_BMUL and len(ch) == 2 and is_c(ch[0]):
            a, b = rng(ch[1], bounds, depth + 1)
            c0 = cval(ch[0])
            r = (a * c0, b * c0) if b * c0 <= MASK else FULL
    if hi_known is not None and hi_known < r[1]:
        r = (min(r[0], hi_known), hi_known)
    return r


class Mem:
    """Byte memory as an ordered list of writes:
         ('w', off, word)      MSTORE        ('b', off, byte)   MSTORE8        ('r', dst, n, fn)  block copy of n bytes from fn(i)
    A word read walks the writes from the newest: a write at the syntactically same offset answers it; a write whose byte range
    is disjoint from the read (decided by interval arithmetic over the offsets, with the upper bounds the path conditions give)
    is skipped; anything else makes the read fall back to an exact byte-wise if-then-else over the remaining writes.
    Concrete offsets use a dictionary until the first symbolic offset or symbolic-length copy."""

    def __init__(self):
        self.conc = {}
        self.writes = None
        self.bounds = {}   # shared with the path: term id -> upper bound
        self.slow_reads = 0

    def copy(self):
        m = Mem()
        m.conc = dict(self.conc)
        m.writes = None if self.writes is None else list(self.writes)
        m.bounds = self.bounds
        m.slow_reads = self.slow_reads
        return m

    def go_symbolic(self):
        if self.writes is None:
            self.writes = []

    # ---- byte level (exact) ----
    def _base8(self, off):
        if is_c(off):
            return self.conc.get(cval(off), z3.BitVecVal(0, 8))
        if not self.conc:
            return z3.BitVecVal(0, 8)
        # symbolic offset into the concrete part: an array of the written bytes
        if getattr(self, "_base_arr_n", -1) != len(self.conc):
            arr = z3.K(z3.BitVecSort(W), z3.BitVecVal(0, 8))
            for o in sorted(self.conc):
                arr = z3.Store(arr, bv(o), self.conc[o])
            self._base_arr, self._base_arr_n = arr, len(self.conc)
        return z3.Select(self._base_arr, off)

    def _fold8(self, off, upto):
        e = self._base8(off)
        for wr in (self.writes or [])[:upto]:
            if wr[0] == "w":
                _, o, word = wr
                d = simp(off - o)
                if is_c(d):
                    if cval(d) < 32:
                        k = cval(d)
                        e = z3.Extract(W - 1 - 8 * k, W - 8 - 8 * k, word)
                    continue
                byte = z3.Extract(7, 0, z3.LShR(word, (bv(31) - d) * 8))
                e = z3.If(z3.ULT(d, bv(32)), byte, e)
            elif wr[0] == "b":
                _, o, b = wr
                e = z3.If(off == o, b, e)
            else:
                _, dst, n, fn = wr
                e = z3.If(z3.And(z3.UGE(off, dst), z3.ULT(off - dst, n)), fn(simp(off - dst)), e)
        return simp(e)

    def load8(self, off):
        if self.writes is None:
            if is_c(off):
                return self.conc.get(cval(off), z3.BitVecVal(0, 8))
            self.go_symbolic()
        return self._fold8(off, len(self.writes))

    def store8(self, off, b):
        if self.writes is None:
            if is_c(off):
                self.conc[cval(off)] = b
                return
            self.go_symbolic()
        self.writes.append(("b", off, b))

    # ---- word level ----
    def _disjoint(self, a, alen, b, blen_rng):
        """[a, a+alen) and [b, b+blen) cannot overlap, by intervals (blen given as an interval)."""
        ra, rb = rng(a, self.bounds), rng(b, self.bounds)
        if ra == FULL or rb == FULL:
            return False
        return ra[1] + alen <= rb[0] or rb[1] + blen_rng[1] <= ra[0]

    def load(self, off):
        if self.writes is None:
            if is_c(off):
                o = cval(off)
                return simp(z3.Concat(*[self.conc.get(o + i, z3.BitVecVal(0, 8)) for i in range(32)]))
            self.go_symbolic()
        for idx in range(len(self.writes) - 1, -1, -1):
            wr = self.writes[idx]
            if wr[0] == "w":
                if wr[1].eq(off):
                    return wr[2]
                d = simp(off - wr[1])
                if is_c(d):
                    if 32 <= cval(d) <= MASK - 31:
                        continue
                elif self._disjoint(off, 32, wr[1], (32, 32)):
                    continue
            elif wr[0] == "b":
                if self._disjoint(off, 32, wr[1], (1, 1)):
                    continue
            else:
                if self._disjoint(off, 32, wr[1], rng(wr[2], self.bounds)):
                    continue
            # may overlap: exact byte-wise read over the writes up to here
            self.slow_reads += 1
            return simp(z3.Concat(*[self._fold8(simp(off + i), idx + 1) for i in range(32)]))
        if is_c(off):
            o = cval(off)
            return simp(z3.Concat(*[self.conc.get(o + i, z3.BitVecVal(0, 8)) for i in range(32)]))
        return simp(z3.Concat(*[self._base8(simp(off + i)) for i in range(32)]))

    def store(self, off, val):
        if self.writes is None:
            if is_c(off):
                o = cval(off)
                for i in range(32):
                    self.conc[o + i] = simp(z3.Extract(W - 1 - 8 * i, W - 8 - 8 * i, val))
                return
            self.go_symbolic()
        self.writes.append(("w", off, val))

    def copy_from(self, dst, src_fn, n, bound):
        """mem[dst+i] = src_fn(i) for i < n; n may be symbolic."""
        if is_c(n) and cval(n) <= 4096 and self.writes is None and is_c(dst):
            for i in range(cval(n)):
                self.store8(simp(dst + i), src_fn(bv(i)))
            return
        self.go_symbolic()
        if is_c(n) and cval(n) == 0:
            return
        self.writes.append(("r", dst, n, src_fn))


class Path:
    """One execution: machine state + what happened."""

    def __init__(self):
        self.pc = 0
        self.stack = []
        self.mem = Mem()
        self.bounds = self.mem.bounds
        self.storage = None
        self.cons = []
        self.logs = []       # (topics, data-bytes(list or None), offset, size)
        self.calls = []      # (kind, to, value, args-offset, args-size, input words)
        self.sstores = []    # (key, value)
        self.retsize = bv(0)
        self.retarr = z3.K(z3.BitVecSort(W), z3.BitVecVal(0, 8))
        self.visits = {}
        self.end = None      # STOP RETURN REVERT INVALID SELFDESTRUCT
        self.retdata = None
        self.trace = []

    def fork(self):
        p = Path()
        p.pc = self.pc
        p.stack = list(self.stack)
        p.mem = self.mem.copy()
        p.bounds = dict(self.bounds)
        p.mem.bounds = p.bounds
        p.storage = self.storage
        p.cons = list(self.cons)
        p.logs = list(self.logs)
        p.calls = list(self.calls)
        p.sstores = list(self.sstores)
        p.retsize = self.retsize
        p.retarr = self.retarr
        p.visits = dict(self.visits)
        p.trace = list(self.trace)
        return p


def mentions(e, var, _seen=None):
    """Does the term contain the variable? (substitution is done inside z3; an unchanged term does not mention it)"""
    other = z3.BitVec("mentions!probe", var.size())
    return not z3.substitute(e, (var, other)).eq(e)


def harvest_bounds(bounds, cond, depth=0):
    """Record upper bounds of terms from a branch condition that now holds: x <= K, x < K, conjunctions of those."""
    c = simp(cond)
    if depth > 6 or not z3.is_app(c):
        return
    k = c.decl().kind()
    ch = c.children()
    if k == z3.Z3_OP_AND:
        for x in ch:
            harvest_bounds(bounds, x, depth + 1)
    elif k == z3.Z3_OP_ULEQ and is_c(ch[1]):
        i = ch[0].get_id()
        bounds[i] = min(bounds.get(i, MASK), cval(ch[1]))
        bounds.setdefault("_keep", []).append(ch[0])
    elif k == z3.Z3_OP_NOT and z3.is_app(ch[0]):
        inner = ch[0]
        ik, ich = inner.decl().kind(), inner.children()
        if ik == z3.Z3_OP_ULEQ and is_c(ich[0]) and cval(ich[0]) > 0:   # not (K <= x)  =>  x <= K-1
            i = ich[1].get_id()
            bounds[i] = min(bounds.get(i, MASK), cval(ich[0]) - 1)
            bounds.setdefault("_keep", []).append(ich[1])
        elif ik == z3.Z3_OP_EQ:
            pass
    elif k == z3.Z3_OP_EQ and len(ch) == 2:
        # (x == K)
        for a, b in ((ch[0], ch[1]), (ch[1], ch[0])):
            if is_c(b) and not is_c(a):
                bounds[a.get_id()] = min(bounds.get(a.get_id(), MASK), cval(b))
                bounds.setdefault("_keep", []).append(a)


class Inconclusive(Exception):
    pass


class Engine:
    def __init__(self, code, name="c", max_paths=4000, unwind=6, max_steps=200000, cd_bound=1 << 12, timeout_ms=20000):
        self.code = code
        self.name = name
        self.max_paths = max_paths
        self.unwind = unwind
        self.max_steps = max_steps
        self.cd_bound = cd_bound
        self.s = z3.Solver()
        self.timeout_ms = timeout_ms
        self.fast_ms = 400
        self.kept_unknown = 0
        self.budget_s = 120
        self.stop_on_success = False
        self.stopped_early = False
        self.blind = False  # True: follow both sides of every symbolic branch without asking the solver
        self.queries = 0
        self.solver_time = 0.0
        self.fresh = 0
        self.jumpdests = set()
        i = 0
        while i < len(code):
            op = code[i]
            if op == 0x5b:
                self.jumpdests.add(i)
            if 0x60 <= op <= 0x7f:
                i += op - 0x5f
            i += 1
        # environment
        self.caller = z3.BitVec("caller", W)
        self.callvalue = z3.BitVec("callvalue", W)
        self.cdsize = z3.BitVec("calldatasize", W)
        self.cd = z3.Array("calldata", z3.BitVecSort(W), z3.BitVecSort(8))
        self.cdw = z3.Function("calldataword", z3.BitVecSort(W), z3.BitVecSort(W))
        self.cdb = z3.Function("calldatabyte", z3.BitVecSort(W), z3.BitVecSort(8))
        self.cd_reads = {}
        self.cd_fixed = {}
        self.address = z3.BitVec("address", W)
        self.storage0 = z3.Array("storage", z3.BitVecSort(W), z3.BitVecSort(W))
        self.base = [z3.ULT(self.caller, bv(1 << 160)), z3.ULT(self.cdsize, bv(cd_bound)), z3.ULT(self.address, bv(1 << 160))]
        self.keccaks = {}
        self.notes = []
        self.bound_hits = []
        self.guards = []     # (pc, description): JUMPIs decided by the caller assumption
        self.assume_lit = None
        self.paths_done = []
        self.steps = 0

    def fv(self, tag, w=W):
        self.fresh += 1
        return z3.BitVec("%s!%d" % (tag, self.fresh), w)

    # ---- solver ----
    def feasible(self, cons, use_assumption=True, fast=True):
        """Branch feasibility. fast: a short solver budget; 'unknown' keeps the branch (exploring a superset of the feasible
        paths is sound for "every path ends in a revert"; a terminal path that matters is re-checked with the full budget)."""
        import time
        if fast and self.blind:
            self.kept_unknown += 1
            return True
        t0 = time.time()
        self.s.push()
        self.s.set("timeout", self.fast_ms if fast else self.timeout_ms)
        for c in cons:
            self.s.add(c)
        if self.assume_lit is not None and use_assumption:
            r = self.s.check(self.assume_lit)
        else:
            r = self.s.check()
        self.s.pop()
        self.queries += 1
        self.solver_time += time.time() - t0
        if r == z3.unknown:
            if fast:
                self.kept_unknown += 1
                return True
            raise Inconclusive("solver unknown on a feasibility query")
        return r == z3.sat

    def model(self, cons, extra=(), use_assumption=True):
        self.s.push()
        for c in list(cons) + list(extra):
            self.s.add(c)
        r = self.s.check(self.assume_lit) if (self.assume_lit is not None and use_assumption) else self.s.check()
        m = self.s.model() if r == z3.sat else None
        self.s.pop()
        self.queries += 1
        if r == z3.unknown:
            raise Inconclusive("solver unknown")
        return m

    # ---- call data ----
    def cdbyte(self, i):
        return self.cdb(i)

    def cdload(self, off):
        """CALLDATALOAD as one application of an uninterpreted function of the offset (word reads at different offsets, and
        byte reads, are not related to each other, and bytes beyond CALLDATASIZE are not forced to zero: a superset of the real
        behaviours - sound for "every path reverts"; a counterexample has to be re-assembled into one byte string, which fails
        if the model used inconsistent overlapping reads)."""
        off = simp(off)
        if is_c(off) and cval(off) in self.cd_fixed:
            return bv(self.cd_fixed[cval(off)])   # a call-data word fixed by the explored layout (bounded shape)
        self.cd_reads[off.get_id()] = off
        return self.cdw(off)

    def keccak(self, p, off, size):
        if is_c(size):
            n = cval(size)
            if n % 32 == 0 and n <= 128:
                words = tuple(p.mem.load(simp(off + 32 * k)) for k in range(n // 32))
                key = (n,) + tuple(w.sexpr() for w in words)
                if key not in self.keccaks:
                    f = z3.Function("keccak%d" % n, *([z3.BitVecSort(W)] * (n // 32) + [z3.BitVecSort(W)]))
                    self.keccaks[key] = f(*words) if words else z3.BitVecVal(0xc5d2460186f7233c927e7db2dcc703c0e500b653ca82273b7bfad8045d85a470, W)
                return self.keccaks[key]
        return self.fv("keccak")

    # ---- exploration ----
    def run(self, init_cons):
        for c in self.base:
            self.s.add(c)
        p = Path()
        p.storage = self.storage0
        p.cons = list(init_cons)
        p.bounds[self.cdsize.get_id()] = self.cd_bound - 1
        p.bounds[self.caller.get_id()] = (1 << 160) - 1
        if not self.feasible(p.cons):
            raise Inconclusive("initial constraints unsatisfiable")
        import time
        work = [p]
        t_end = time.time() + self.budget_s
        self._t_end = t_end
        while work:
            p = work.pop()
            self.exec_path(p, work)
            if len(self.paths_done) > self.max_paths:
                self.bound_hits.append("path bound %d" % self.max_paths)
                break
            if self.stop_on_success and self.paths_done and self.paths_done[-1].end in ("STOP", "RETURN", "SELFDESTRUCT"):
                self.stopped_early = True
                break
            if time.time() > t_end:
                self.bound_hits.append("time budget %ds" % self.budget_s)
                break
        return self.paths_done

    def finish(self, p, kind, retdata=None):
        p.end = kind
        p.retdata = retdata
        self.paths_done.append(p)

    def exec_path(self, p, work):
        code = self.code
        while True:
            self.steps += 1
            if self.steps % 500 == 0 and getattr(self, "_t_end", None) and __import__("time").time() > self._t_end:
                self.bound_hits.append("time budget %ds" % self.budget_s)
                self.finish(p, "BOUND")
                return
            if self.steps > self.max_steps:
                self.bound_hits.append("step bound %d" % self.max_steps)
                self.finish(p, "BOUND")
                return
            if p.pc >= len(code):
                self.finish(p, "STOP")
                return
            op = code[p.pc]
            if op not in OPS:
                self.finish(p, "INVALID")
                return
            name, nin, _ = OPS[op]
            if len(p.stack) < nin:
                self.finish(p, "INVALID")  # stack underflow
                return
            st = p.stack
            if name.startswith("PUSH"):
                n = op - 0x5f
                v = int.from_bytes(code[p.pc + 1:p.pc + 1 + n].ljust(n, b"\0"), "big")
                st.append(bv(v))
                p.pc += 1 + n
                continue
            if name.startswith("DUP"):
                st.append(st[-(op - 0x7f)])
                p.pc += 1
                continue
            if name.startswith("SWAP"):
                k = op - 0x8f
                st[-1], st[-1 - k] = st[-1 - k], st[-1]
                p.pc += 1
                continue
            args = [st.pop() for _ in range(nin)]
            r = None
            if name == "STOP":
                self.finish(p, "STOP")
                return
            elif name == "ADD":
                r = args[0] + args[1]
            elif name == "MUL":
                r = args[0] * args[1]
            elif name == "SUB":
                r = args[0] - args[1]
            elif name == "DIV":
                r = z3.If(args[1] == 0, bv(0), z3.UDiv(args[0], args[1]))
            elif name == "SDIV":
                r = z3.If(args[1] == 0, bv(0), args[0] / args[1])
            elif name == "MOD":
                r = z3.If(args[1] == 0, bv(0), z3.URem(args[0], args[1]))
            elif name == "SMOD":
                r = z3.If(args[1] == 0, bv(0), z3.SRem(args[0], args[1]))
            elif name == "ADDMOD":
                a, b, n = [z3.ZeroExt(8, x) for x in args]
                r = z3.If(args[2] == 0, bv(0), z3.Extract(W - 1, 0, z3.URem(a + b, n)))
            elif name == "MULMOD":
                a, b, n = [z3.ZeroExt(W, x) for x in args]
                r = z3.If(args[2] == 0, bv(0), z3.Extract(W - 1, 0, z3.URem(a * b, n)))
            elif name == "EXP":
                if is_c(args[0]) and is_c(args[1]):
                    r = bv(pow(cval(args[0]), cval(args[1]), 1 << W))
                elif is_c(args[0]) and cval(args[0]) == 2:
                    r = bv(1) << args[1]
                elif is_c(args[1]) and cval(args[1]) <= 8:
                    r = bv(1)
                    for _ in range(cval(args[1])):
                        r = r * args[0]
                else:
                    f = z3.Function("exp", z3.BitVecSort(W), z3.BitVecSort(W), z3.BitVecSort(W))
                    r = f(args[0], args[1])
            elif name == "SIGNEXTEND":
                if is_c(args[0]):
                    k = cval(args[0])
                    r = args[1] if k >= 31 else z3.SignExt(W - 8 * (k + 1), z3.Extract(8 * (k + 1) - 1, 0, args[1]))
                else:
                    r = self.fv("signext")
            elif name == "LT":
                r = z3.If(z3.ULT(args[0], args[1]), bv(1), bv(0))
            elif name == "GT":
                r = z3.If(z3.UGT(args[0], args[1]), bv(1), bv(0))
            elif name == "SLT":
                r = z3.If(args[0] < args[1], bv(1), bv(0))
            elif name == "SGT":
                r = z3.If(args[0] > args[1], bv(1), bv(0))
            elif name == "EQ":
                r = z3.If(args[0] == args[1], bv(1), bv(0))
            elif name == "ISZERO":
                r = z3.If(args[0] == 0, bv(1), bv(0))
            elif name == "AND":
                r = args[0] & args[1]
            elif name == "OR":
                r = args[0] | args[1]
            elif name == "XOR":
                r = args[0] ^ args[1]
            elif name == "NOT":
                r = ~args[0]
            elif name == "BYTE":
                if is_c(args[0]):
                    k = cval(args[0])
                    r = bv(0) if k >= 32 else z3.ZeroExt(W - 8, z3.Extract(W - 1 - 8 * k, W - 8 - 8 * k, args[1]))
                else:
                    r = z3.If(z3.ULT(args[0], bv(32)), z3.LShR(args[1], (bv(31) - args[0]) * 8) & 0xff, bv(0))
            elif name == "SHL":
                r = z3.If(z3.ULT(args[0], bv(W)), args[1] << args[0], bv(0))
            elif name == "SHR":
                r = z3.If(z3.ULT(args[0], bv(W)), z3.LShR(args[1], args[0]), bv(0))
            elif name == "SAR":
                r = z3.If(z3.ULT(args[0], bv(W)), args[1] >> args[0], z3.If(args[1] < 0, bv(MASK), bv(0)))
            elif name == "SHA3":
                r = self.keccak(p, args[0], args[1])
            elif name == "ADDRESS":
                r = self.address
            elif name == "CALLER":
                r = self.caller
            elif name == "CALLVALUE":
                r = self.callvalue
            elif name == "CALLDATALOAD":
                r = self.cdload(args[0])
            elif name == "CALLDATASIZE":
                r = self.cdsize
            elif name == "CALLDATACOPY":
                dst, src, n = args
                p.mem.copy_from(dst, lambda i: self.cdbyte(simp(src + i)), simp(n), self.cd_bound)
            elif name == "CODESIZE":
                r = bv(len(code))
            elif name == "CODECOPY":
                dst, src, n = args
                if not (is_c(src) and is_c(n)):
                    raise Inconclusive("CODECOPY with symbolic source or size at pc %d" % p.pc)
                s0, n0 = cval(src), cval(n)
                for i in range(n0):
                    b = code[s0 + i] if s0 + i < len(code) else 0
                    p.mem.store8(simp(dst + i), z3.BitVecVal(b, 8))
            elif name == "RETURNDATASIZE":
                r = p.retsize
            elif name == "RETURNDATACOPY":
                dst, src, n = args
                ra = p.retarr
                p.mem.copy_from(dst, lambda i: z3.Select(ra, simp(src + i)), simp(n), self.cd_bound)
            elif name in ("BALANCE", "ORIGIN", "GASPRICE", "EXTCODESIZE", "EXTCODEHASH", "BLOCKHASH", "COINBASE", "TIMESTAMP", "NUMBER",
                          "DIFFICULTY", "GASLIMIT", "CHAINID", "SELFBALANCE", "BASEFEE", "GAS", "MSIZE"):
                if name == "EXTCODESIZE":
                    f = z3.Function("extcodesize", z3.BitVecSort(W), z3.BitVecSort(W))
                    r = f(args[0])
                elif name in ("ORIGIN", "CHAINID", "TIMESTAMP", "NUMBER", "COINBASE", "GASLIMIT", "BASEFEE", "GASPRICE", "DIFFICULTY"):
                    r = z3.BitVec(name.lower(), W)
                else:
                    r = self.fv(name.lower())
            elif name == "EXTCODECOPY":
                raise Inconclusive("EXTCODECOPY at pc %d" % p.pc)
            elif name == "POP":
                pass
            elif name == "MLOAD":
                r = p.mem.load(simp(args[0]))
            elif name == "MSTORE":
                p.mem.store(simp(args[0]), simp(args[1]))
            elif name == "MSTORE8":
                p.mem.store8(simp(args[0]), simp(z3.Extract(7, 0, args[1])))
            elif name == "SLOAD":
                r = z3.Select(p.storage, simp(args[0]))
            elif name == "SSTORE":
                k, v = simp(args[0]), simp(args[1])
                p.storage = z3.Store(p.storage, k, v)
                p.sstores.append((k, v, p.pc))
            elif name == "PC":
                r = bv(p.pc)
            elif name == "JUMPDEST":
                pass
            elif name == "JUMP":
                d = simp(args[0])
                if not is_c(d):
                    raise Inconclusive("JUMP to a symbolic destination at pc %d" % p.pc)
                if cval(d) not in self.jumpdests:
                    self.finish(p, "INVALID")
                    return
                p.pc = cval(d)
                continue
            elif name == "JUMPI":
                d, c = simp(args[0]), simp(args[1])
                if not is_c(d):
                    raise Inconclusive("JUMPI to a symbolic destination at pc %d" % p.pc)
                if is_c(c):
                    if cval(c) != 0:
                        if cval(d) not in self.jumpdests:
                            self.finish(p, "INVALID")
                            return
                        p.pc = cval(d)
                    else:
                        p.pc += 1
                    continue
                taken_c, fall_c = (c != 0), (c == 0)
                ft = ff = None
                if self.assume_lit is not None and mentions(c, self.caller):
                    # a branch on the caller: is it decided by the assumption under test alone (the guard)?
                    at = self.feasible([taken_c], fast=False)
                    af = self.feasible([fall_c], fast=False)
                    if not at or not af:
                        self.guards.append((p.pc, "taken side excluded by the caller assumption" if not at else "fall-through excluded by the caller assumption"))
                        ft, ff = at, af
                if ft is None:
                    ft = self.feasible(p.cons + [taken_c])
                    ff = self.feasible(p.cons + [fall_c])
                here = p.pc
                succ = []
                if ft:
                    succ.append((taken_c, cval(d), True))
                if ff:
                    succ.append((fall_c, here + 1, False))
                if not succ:
                    self.finish(p, "DEAD")
                    return
                nxt = []
                for i, (cc, npc, dirn) in enumerate(succ):
                    q = p if i == len(succ) - 1 else p.fork()
                    key = (here, dirn)
                    q.visits[key] = q.visits.get(key, 0) + 1
                    if q.visits[key] > self.unwind and len(succ) > 1:
                        self.bound_hits.append("unwinding bound %d at pc %d" % (self.unwind, here))
                        q.cons.append(cc)
                        self.finish(q, "BOUND")
                        continue
                    q.cons.append(cc)
                    harvest_bounds(q.bounds, cc)
                    if dirn and npc not in self.jumpdests:
                        self.finish(q, "INVALID")
                        continue
                    q.pc = npc
                    nxt.append(q)
                if not nxt:
                    return
                for q in nxt[:-1]:
                    work.append(q)
                p = nxt[-1]
                continue
            elif name.startswith("LOG"):
                off, size = simp(args[0]), simp(args[1])
                topics = [simp(t) for t in args[2:]]
                data = None
                if is_c(size) and cval(size) <= 1024:
                    data = [p.mem.load8(simp(off + i)) for i in range(cval(size))]
                p.logs.append((topics, data, off, size, p.mem.copy()))
            elif name in ("CALL", "CALLCODE", "DELEGATECALL", "STATICCALL"):
                if name in ("CALL", "CALLCODE"):
                    gas, to, value, ao, asz, ro, rsz = args
                else:
                    gas, to, ao, asz, ro, rsz = args
                    value = bv(0)
                to, ao, asz, ro, rsz = simp(to), simp(ao), simp(asz), simp(ro), simp(rsz)
                sel = p.mem.load(ao)
                p.calls.append((name, to, simp(value), ao, asz, sel, p.pc, p.mem.copy()))
                ok = self.fv("callok")
                p.cons.append(z3.ULE(ok, bv(1)))
                p.retsize = self.fv("retsize")
                p.cons.append(z3.ULT(p.retsize, bv(self.cd_bound)))
                p.retarr = z3.Array("retdata!%d" % self.fresh, z3.BitVecSort(W), z3.BitVecSort(8))
                ra, rs = p.retarr, p.retsize
                # the callee's answer lands in [ro, ro+min(rsz, retsize))
                n = z3.If(z3.ULT(rs, rsz), rs, rsz)
                p.mem.copy_from(ro, lambda i: z3.Select(ra, i), simp(n), self.cd_bound)
                if name != "STATICCALL":
                    # a state-changing callee may re-enter and change this contract's storage: havoc it
                    p.storage = z3.Array("storage!%d" % self.fresh, z3.BitVecSort(W), z3.BitVecSort(W))
                r = ok
            elif name in ("CREATE", "CREATE2"):
                r = self.fv("created")
            elif name == "RETURN":
                off, size = simp(args[0]), simp(args[1])
                data = None
                if is_c(size) and cval(size) <= 2048:
                    data = [p.mem.load8(simp(off + i)) for i in range(cval(size))]
                self.finish(p, "RETURN", data)
                return
            elif name == "REVERT":
                self.finish(p, "REVERT")
                return
            elif name == "INVALID":
                self.finish(p, "INVALID")
                return
            elif name == "SELFDESTRUCT":
                self.finish(p, "SELFDESTRUCT")
                return
            else:
                raise Inconclusive("opcode %s not implemented" % name)
            if r is not None:
                st.append(simp(r))
            p.pc += 1
