#!/usr/bin/env python3
"""Driver of the byte-code side of C06 (caller guards of the privileged contract methods) and C17 (events of the staking and
gov contracts). Called by ./check after the gosmt run of the same property:

    check_evm.py <C06|C17> <tier> <verif dir> <repo dir> <gosmt exit code>

Prints VIOLATION / INCONCLUSIVE lines, merges what it covered into evidence/<prop>.json (written by gosmt just before) and
exits with the combined code (1 violation, 2 inconclusive, 0 held).
"""
import json, os, subprocess, sys, time

HERE = os.path.dirname(os.path.abspath(__file__))
ENV = dict(os.environ, GOFLAGS="-mod=mod", GOPROXY="off", GOSUMDB="off", GOTOOLCHAIN="local")


def go_addresses(repo):
    """The addresses the Go side uses, printed by /repo's own packages (go run with an overlay; nothing is written into /repo)."""
    ov = {"Replace": {os.path.join(repo, "zzverifaddr", "main.go"): os.path.join(HERE, "addrs_main.go")}}
    p = os.path.join("/tmp", "verif-evm-overlay-%d.json" % os.getpid())
    json.dump(ov, open(p, "w"))
    try:
        out = subprocess.run(["go", "run", "-overlay", p, "./zzverifaddr"], cwd=repo, env=ENV, capture_output=True, text=True, timeout=600)
    finally:
        os.remove(p)
    if out.returncode != 0:
        raise RuntimeError("go run failed: " + out.stderr[-400:])
    return json.loads(out.stdout.strip().splitlines()[-1])


def replay_guard(repo, cex, verif):
    """Run the counterexample on go-ethereum's EVM with the real byte code (go test with an overlay)."""
    ov = {"Replace": {os.path.join(repo, "syscontracts", "zz_verif_evm_replay_test.go"): os.path.join(HERE, "replay_test.go.txt")}}
    p = os.path.join("/tmp", "verif-evm-replay-%d.json" % os.getpid())
    json.dump(ov, open(p, "w"))
    cexfile = os.path.join("/tmp", "verif-evm-cex-%d.json" % os.getpid())
    json.dump(cex, open(cexfile, "w"))
    try:
        out = subprocess.run(["go", "test", "-vet=off", "-count=1", "-overlay", p, "./syscontracts", "-run", "TestVerifEvmReplay", "-v"], cwd=repo,
                             env=dict(ENV, VERIF_EVM_CEX=cexfile, VERIF_EVM_REPO=repo), capture_output=True, text=True, timeout=900)
    finally:
        os.remove(p)
        os.remove(cexfile)
    txt = out.stdout + out.stderr
    if "REPLAY: executed without revert" in txt:
        return True, "reproduced on go-ethereum's EVM: the call executes without reverting"
    if "REPLAY: reverted" in txt:
        return False, "not reproduced: the call reverts on go-ethereum's EVM (" + txt.split("REPLAY: reverted")[1].splitlines()[0][:120] + ")"
    return None, "replay could not run: " + txt[-300:]


def main():
    if sys.argv[1] == "--replay":
        path, prop, repo = sys.argv[2], sys.argv[3], sys.argv[4]
        cex = json.load(open(path))
        if "calldata" not in cex:
            print("no byte-level replay for this kind of counterexample (%s)" % cex.get("obligation", ""))
            sys.exit(2)
        ok, note = replay_guard(repo, cex, None)
        print(note)
        if ok:
            print("VIOLATION property=%s replay=%s" % (prop, path))
            sys.exit(1)
        sys.exit(0 if ok is False else 2)
    prop, tier, verif, repo, rc0 = sys.argv[1], sys.argv[2], sys.argv[3], sys.argv[4], int(sys.argv[5])
    t0 = time.time()
    env = dict(os.environ, VERIF_REPO=repo, VERIF_TIER=tier)
    lines, code = [], 0
    try:
        if prop == "C06":
            addrs = go_addresses(repo)
            out = subprocess.run([sys.executable, os.path.join(HERE, "guards.py"), json.dumps(addrs)], env=env, capture_output=True, text=True, timeout=3000)
        else:
            addrs = {}
            out = subprocess.run([sys.executable, os.path.join(HERE, "events.py")], env=env, capture_output=True, text=True, timeout=3000)
        if out.returncode != 0:
            raise RuntimeError(out.stderr[-500:])
        res = json.loads(out.stdout)
    except Exception as e:  # noqa: BLE001
        print("INCONCLUSIVE property=%s evmsym: %s" % (prop, str(e)[:300]))
        sys.exit(rc0 if rc0 == 1 else 2)
    results, cexs = res["results"], res["counterexamples"]
    replay_dir = os.path.join(verif, "replay", prop)
    n_viol = 0
    for i, c in enumerate(cexs):
        os.makedirs(replay_dir, exist_ok=True)
        path = os.path.join(replay_dir, "evmsym-%s-%d.json" % ("".join(ch if ch.isalnum() else "_" for ch in c["method"])[:40], i + 1))
        confirmed, note = (None, "no byte-level replay for this kind of counterexample")
        if prop == "C06":
            confirmed, note = replay_guard(repo, c, verif)
        c["native_replay"] = note
        json.dump(c, open(path, "w"), indent=1)
        if confirmed is False or (confirmed is None and prop == "C06"):
            lines.append("INCONCLUSIVE property=%s evmsym %s: counterexample %s (%s)" % (prop, c["method"], note, path))
            code = max(code, 2)
        else:
            lines.append("VIOLATION property=%s replay=%s" % (prop, path))
            n_viol += 1
            code = 1
    for r in results:
        if r["verdict"] == "inconclusive":
            lines.append("INCONCLUSIVE property=%s evmsym %s %s [%s]: %s" % (prop, r.get("contract", "").split("/")[-1], r["method"], r.get("shape", ""), r.get("reason", "")))
            if code == 0:
                code = 2
    held = sum(1 for r in results if r["verdict"] == "held")
    for ln in lines:
        print(ln)
    print("%s (contract byte code): %s — %d method runs, %d held, %d counterexamples, %.1fs" % (
        prop, {0: "held within bounds", 1: "violated", 2: "inconclusive"}[code], len(results), held, len(cexs), time.time() - t0))
    # merge into the evidence file gosmt wrote
    evp = os.path.join(verif, "evidence", prop + ".json")
    if os.path.exists(evp) and os.environ.get("VERIF_NO_EVIDENCE") != "1":
        ev = json.load(open(evp))
        cov = ev.setdefault("coverage", {})
        cov["evm_bytecode"] = {
            "engine": "evmsym (symbolic execution of the compiled contracts' byte code with z3, /verif/evmsym)",
            "what": "caller guards of the privileged methods of the packet and endpoint contracts" if prop == "C06" else "events emitted by the staking and gov contracts",
            "go_side_addresses": addrs,
            "method_runs": [{k: r.get(k) for k in ("contract", "method", "selector", "shape", "allowed_names", "event", "verdict", "reason", "paths", "ends", "guards", "obligations", "discharged", "non_reverting_feasible", "queries", "solver_s", "wall_s", "steps", "code_bytes", "bound_hits", "kept_on_unknown") if r.get(k) is not None} for r in results],
            "counterexamples": len(cexs),
            "wall_s": round(time.time() - t0, 2),
        }
        for k in ("obligations", "discharged"):
            if isinstance(cov.get(k), int):
                cov[k] += sum((r.get(k) or (1 if (k == "obligations" or r["verdict"] == "held") else 0)) for r in results) if prop == "C17" else sum(1 for r in results if (k == "obligations" or r["verdict"] == "held"))
        if isinstance(cov.get("states"), int):
            cov["states"] += sum(r.get("paths") or 0 for r in results)
        if isinstance(cov.get("transitions"), int):
            cov["transitions"] += sum(r.get("steps") or 0 for r in results)
        ev["wall_s"] = round(ev.get("wall_s", 0) + time.time() - t0, 2)
        if n_viol:
            ev["violations"] = ev.get("violations", 0) + n_viol
        ev.setdefault("assumptions", []).append(
            "evmsym: KECCAK256 is an uninterpreted function of its pre-image; call data is read through uninterpreted word/byte functions of the offset (a superset of the real behaviours); every external call may fail and returns arbitrary data, and havocs this contract's storage; storage, call value and block environment are arbitrary; gas is not modelled")
        json.dump(ev, open(evp, "w"), indent=1)
    final = rc0 if rc0 == 1 else max(rc0, code) if code != 1 else 1
    sys.exit(final)


if __name__ == "__main__":
    main()
