#!/bin/bash
# usage: seed_eval.sh <seed-id> <property> <agent-worktree>
# Verifies an agent-produced seeded change in a scratch worktree of /repo's HEAD and runs the property's check against it.
set -u
id="$1"; prop="$2"; wt="$3"
export GOFLAGS=-mod=mod GOPROXY=off GOSUMDB=off GOTOOLCHAIN=local
S=/verif/seeded/$id
mkdir -p $S
cp "$wt/MUTANT.diff" $S/patch.diff
cp "$wt/NOTES.md" $S/NOTES.md 2>/dev/null
demo=$(cd "$wt" && git status --short | grep '^??' | awk '{print $2}' | grep '_test.go$' | head -1)
[ -z "$demo" ] && { echo "no demo test found"; exit 1; }
mkdir -p $S/demo/$(dirname $demo); cp "$wt/$demo" $S/demo/$demo
pkg=./$(dirname $demo)
sv=/tmp/sv/$id; rm -rf $sv; git -C /repo worktree prune; git -C /repo worktree add -q $sv HEAD || exit 1
cp "$wt/$demo" $sv/$demo
run=$(grep -o '^func Test[A-Za-z0-9_]*' "$wt/$demo" | sed 's/func //' | paste -sd'|')
meth=$(grep -o '^func ([^)]*) Test[A-Za-z0-9_]*' "$wt/$demo" | sed 's/.*) //' | paste -sd'|')
if [ -n "$meth" ]; then
  # testify suite methods: run the package's suite entry points with -testify.m
  runargs="-testify.m ^($meth)\$"
  [ -n "$run" ] && runargs="-run ^($run)\$"
else
  runargs="-run ^($run)\$"
fi
echo "== demo without the change ($pkg $runargs)"
(cd $sv && go test -vet=off -count=1 $pkg $runargs 2>&1 | tail -3) | tee $S/demo_without.txt
echo "== applying patch"
(cd $sv && git apply $S/patch.diff) || { echo "PATCH DOES NOT APPLY to current HEAD"; git -C /repo worktree remove --force $sv; exit 1; }
(cd $sv && go build ./... ) || { echo "BUILD FAILS"; }
echo "== demo with the change"
(cd $sv && go test -vet=off -count=1 $pkg $runargs 2>&1 | grep -v "^\s*/\|^\s*$" | tail -8) | tee $S/demo_with.txt
echo "== existing tests of the touched packages with the change (demo removed)"
rm $sv/$demo
pkgs=$(cd $sv && git diff --name-only | xargs -n1 dirname | sort -u | sed 's|^|./|' | paste -sd' ')
(cd $sv && go test -vet=off -count=1 $pkgs ./x/xibc/... ./x/aggregate/... 2>&1 | grep -v "no test files" | grep -v "^ok" | tail -8) | tee $S/existing_tests_with.txt
git -C /repo worktree remove --force $sv
echo "== check $prop against the change (scratch worktree, never /repo itself)"
cw=/tmp/seed_check_wt_$prop; git -C /repo worktree prune; [ -d $cw ] && git -C /repo worktree remove --force $cw
git -C /repo worktree add -q --detach $cw HEAD || exit 1
git -C $cw apply $S/patch.diff && (cd /verif && VERIF_REPO=$cw ./check $prop --tier quick --no-evidence 2>&1 | grep -v "^KNOWN" | tail -4) | tee $S/check_quick.txt
git -C /repo worktree remove --force $cw
