#!/usr/bin/env python3
"""mkmeta.py <seed-id> <property> <what> <needs> <history>: writes seeded/<seed-id>/meta.json from the files seed_eval.sh left."""
import json, os, sys
seed, prop, what, needs, hist = sys.argv[1:6]
S = os.path.join("/verif/seeded", seed)
def lines(f):
    p = os.path.join(S, f)
    return [l.rstrip("\n") for l in open(p)] if os.path.exists(p) else []
first = lines("check_quick.txt")
m = {
    "seed": seed, "property": prop, "what": what, "needs_to_manifest": needs,
    "produced_by": "independent sub-agent given only the property text and a scratch worktree",
    "verified": {
        "demo_without_change": lines("demo_without.txt"),
        "demo_with_change": lines("demo_with.txt"),
        "existing_tests_with_change_non_ok_lines": lines("existing_tests_with.txt"),
        "note": "the only failing existing tests are the eth/types suite tests that also fail on the unchanged tree",
    },
    "check": {
        "command": "git -C /repo apply seeded/%s/patch.diff && ./check %s --tier quick; git -C /repo checkout -- ." % (seed, prop),
        "first_result": first,
        "history": hist,
    },
}
json.dump(m, open(os.path.join(S, "meta.json"), "w"), indent=1)
