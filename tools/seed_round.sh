#!/bin/bash
# usage: seed_round.sh <round dir> <seed-id> <Cxx> : evaluates one sub-agent result (tools/seed_eval.sh) and prints the essentials
rd="$1"; id="$2"; prop="$3"
bash /verif/tools/seed_eval.sh "$id" "$prop" "$rd/$prop" > "$rd/eval_$prop.log" 2>&1
sed -n '/demo without/,$p' "$rd/eval_$prop.log" | grep -v "^\s*/\|^\s*github\|^\s*$\|Error Trace\|^KNOWN" | cut -c1-260 | head -${4:-24}
