#!/usr/bin/env python3
# usage: mkseedprompt.py <Cxx> <worktree>   -> prints the prompt for a seeding sub-agent (property text + prior one-line descriptions only)
import json,sys,glob,os
pid,wt=sys.argv[1],sys.argv[2]
prop=None
for l in open('/verif/properties.jsonl'):
    p=json.loads(l)
    if p['id']==pid: prop=p
prior=[]
for d in sorted(glob.glob('/verif/seeded/%s*/meta.json'%pid)):
    m=json.load(open(d)); prior.append(m.get('what','').strip())
print(f"""You are working in a scratch git worktree of the teleport-network/teleport repository at {wt} (a Cosmos-SDK/Ethermint app chain with the XIBC cross-chain packet protocol, Ethereum/BSC/Tendermint/TSS light clients, an ERC20/coin aggregate module, a reward-vesting module and staking/gov adapters). Work ONLY inside that directory; never touch /repo or /verif. The sandbox has no network: prefix every go command with `GOFLAGS=-mod=mod GOPROXY=off GOSUMDB=off GOTOOLCHAIN=local`. Use at most 4 parallel test processes (`-p 4`).

This is a mutation-testing exercise for a verification framework. Here is a semantic property the code base is supposed to satisfy (JSON):

{json.dumps(prop,indent=1)}

YOUR TASK: produce one realistic change to NON-TEST Go source (the kind of slip a maintainer could introduce in a refactor, optimisation, "clean-up" or small feature) that BREAKS this property, while
 (a) everything still compiles (`go build ./...`),
 (b) the existing tests still pass (run the tests of the packages you touched and `go test -vet=off -count=1 -p 4 ./x/... ./adapter/... ./ibc/... ./types/...`; note that three tests of x/xibc/clients/light-clients/eth/types — TestETHTestSuite/TestCheckHeaderAndUpdateState, /TestUpgradeClient and the suite itself — already FAIL on the unchanged tree because a fixture is expired by wall-clock time: ignore exactly those),
 (c) the breakage needs something SPECIFIC to manifest: a particular multi-step sequence of operations, an unusual input value (boundary, special byte, repeated element, large number), a failure at a particular point, a particular ordering, or two cooperating sites that each look fine alone. NOT something every ordinary use would expose at once.

Earlier attempts for this same property — do NOT repeat these; pick a different function, mechanism and manifestation:
""" + "\n".join(" - "+x for x in prior) + f"""

Prefer a change in the Go code named by the property's anchors (or code they call). Keep it small (roughly <= 30 changed lines), plausible, and subtle. Do not add build tags, do not edit tests, do not change go.mod.

DELIVERABLES, all in the worktree root {wt} unless stated:
 1. MUTANT.diff — `git diff` of the source change only (non-test files), such that `git apply MUTANT.diff` works on a clean checkout of HEAD.
 2. One NEW demonstration test file (a new untracked `*_test.go` in the appropriate package directory, top-level `func TestXxx(t *testing.T)` functions or testify suite methods of the package's existing suite) that FAILS with the change applied and PASSES without it. You must run it both ways yourself and confirm.
 3. NOTES.md — what the change is, why it breaks the property, exactly what is needed for it to manifest, and the exact commands you ran with their outcomes (demo with / without the change, existing tests with the change).
Leave the worktree with the change APPLIED and the demo test present; do not commit. In your final answer state: the file(s)/function(s) changed, the mechanism in two sentences, what it needs to manifest, the demo test path and name, and the results of your own with/without runs.""")
