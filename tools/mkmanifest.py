#!/usr/bin/env python3
"""Regenerates MANIFEST.json from checks.json (claimed checks) and tools/manifest_meta.json (texts)."""
import json, os
V = os.path.dirname(os.path.dirname(os.path.abspath(__file__)))
checks = json.load(open(os.path.join(V, "checks.json")))
meta = json.load(open(os.path.join(V, "tools", "manifest_meta.json")))
props = [json.loads(l)["id"] for l in open(os.path.join(V, "properties.jsonl"))]
m = {
    "version": 1,
    "setup_cmd": "cd /verif/engine && GOFLAGS=-mod=mod GOPROXY=off GOSUMDB=off GOTOOLCHAIN=local go build -o /verif/bin/gosmt .",
    "hooks": {
        "guard": "verif",
        "enable": "none needed: harnesses and the zzverifrt runtime package are injected with go/packages overlays (symbolic run) and go test -overlay (native replay); /repo is never modified by a check",
        "baseline_off_cmd": "cd /repo && go test -vet=off -count=1 -timeout 25m ./...",
        "source_commits": [],
        "add_only": True,
    },
    "engines": [{
        "name": "gosmt",
        "path": "/verif/engine",
        "serves_properties": sorted(checks.keys()),
        "kind_free_text": "symbolic executor for Go SSA (golang.org/x/tools/go/ssa, rebuilt from /repo on every run) emitting SMT-LIB2 to a live z3 process; path-wise exploration with solver-checked branch feasibility, obligations discharged as unsat queries, counterexamples returned as models",
    }, {
        "name": "evmsym",
        "path": "/verif/evmsym",
        "serves_properties": ["C06", "C17"],
        "kind_free_text": "symbolic executor for EVM byte code (the compiled system contracts, read from /repo on every run) on the z3 Python API: call data, caller, storage, external-call results as solver variables, branch feasibility and obligations decided by z3, counterexamples replayed on go-ethereum's core/vm",
    }],
    "checks": [],
    "notes": meta.get("notes", ""),
    "not_applicable": [],
}
for p in props:
    if p in checks and p in meta["checks"]:
        mc = meta["checks"][p]
        m["checks"].append({
            "property_id": p,
            "quick_cmd": "./check %s --tier quick" % p,
            "thorough_cmd": "./check %s --tier thorough" % p,
            "evidence_file": "/verif/evidence/%s.json" % p,
            "replay_cmd_template": "./check %s --replay {path}" % p,
            "engine": "gosmt",
            "level_claimed": {"category": "model_checking", "text": mc["text"], "design_ref": mc.get("design_ref", "DESIGN.md §4 " + p)},
            "level_note": mc["note"],
            "technique": "bounded symbolic execution of the real Go functions (go/ssa -> SMT-LIB2), every obligation decided by z3 over all inputs within the stated bounds" + ("; plus bounded symbolic execution of the compiled contracts' EVM byte code (evmsym -> z3)" if p in ("C06", "C17") else ""),
        })
    else:
        m["not_applicable"].append({"property_id": p, "reason": meta.get("not_applicable", {}).get(p, "check not built yet (work in progress)")})
json.dump(m, open(os.path.join(V, "MANIFEST.json"), "w"), indent=1)
print("checks:", len(m["checks"]), "not_applicable:", len(m["not_applicable"]))
