#!/bin/bash
# Runs every check of one tier in sequence (sequential on purpose: solver time-outs are wall-clock, see DESIGN section 11)
# and prints one line per property. usage: tools/run_all.sh [quick|thorough] [--no-evidence]
cd "$(dirname "$0")/.."
tier=${1:-quick}; shift
for i in 01 02 03 04 05 06 07 08 10 11 12 13 14 15 16 17 18 20 19 09; do
  s=$(date +%s); out=$(./check C$i --tier $tier "$@" 2>&1); rc=$?; e=$(date +%s)
  echo "C$i rc=$rc t=$((e-s))s $(echo "$out" | grep -v '^KNOWN' | tail -1 | cut -c1-160)"
  echo "$out" | grep -E '^(VIOLATION|INCONCLUSIVE)' | cut -c1-300
done
