#!/bin/bash
# Applies every seeded change in turn to a scratch worktree of /repo's HEAD (never to /repo itself), runs the property's
# quick check against it and expects exit 1 with a VIOLATION line. Writes seeded/<id>/check_current.txt.
# usage: seeded_regress.sh [Cxx | seed-id]      (VERIF_REGRESS_WT: scratch worktree, default /tmp/verif_regress_wt)
cd /verif
wt=${VERIF_REGRESS_WT:-/tmp/verif_regress_wt}
git -C /repo worktree prune
[ -d "$wt" ] && git -C /repo worktree remove --force "$wt"
git -C /repo worktree add -q "$wt" HEAD || exit 2
trap 'git -C /repo worktree remove --force "$wt"' EXIT
fail=0
for d in /verif/seeded/*/; do
  id=$(basename $d); prop=${id:0:3}
  [ -n "${1:-}" ] && [ "$1" != "$prop" ] && [ "$1" != "$id" ] && continue
  patch=${d}patch.diff
  der=$(ls ${d}derived_patch_*.diff 2>/dev/null | head -1)
  [ -n "$der" ] && patch=$der
  git -C "$wt" apply $patch || { echo "$id: patch does not apply"; fail=1; continue; }
  VERIF_REPO="$wt" ./check $prop --tier quick --no-evidence > ${d}check_current.txt 2>&1; rc=$?
  git -C "$wt" checkout -- . ; git -C "$wt" clean -fdq
  if [ $rc -eq 1 ] && grep -q "^VIOLATION property=$prop" ${d}check_current.txt; then
    echo "$id: caught ($(grep -c '^VIOLATION' ${d}check_current.txt) violation lines; $(tail -1 ${d}check_current.txt))"
  else
    echo "$id: MISSED (exit $rc; $(tail -1 ${d}check_current.txt))"; fail=1
  fi
done
exit $fail
