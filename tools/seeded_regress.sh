#!/bin/bash
# Applies every seeded change to /repo in turn, runs the property's quick check and expects exit 1 with a VIOLATION line.
# Writes seeded/<id>/check_current.txt. /repo must be clean; it is restored after each change.
cd /verif
[ -n "$(git -C /repo status --short)" ] && { echo "/repo is not clean"; exit 2; }
fail=0
for d in /verif/seeded/*/; do
  id=$(basename $d); prop=${id:0:3}
  [ -n "${1:-}" ] && [ "$1" != "$prop" ] && [ "$1" != "$id" ] && continue
  patch=${d}patch.diff
  der=$(ls ${d}derived_patch_*.diff 2>/dev/null | head -1)
  [ -n "$der" ] && patch=$der
  git -C /repo apply $patch || { echo "$id: patch does not apply"; fail=1; continue; }
  ./check $prop --tier quick --no-evidence > ${d}check_current.txt 2>&1; rc=$?
  git -C /repo checkout -- .
  if [ $rc -eq 1 ] && grep -q "^VIOLATION property=$prop" ${d}check_current.txt; then
    echo "$id: caught ($(grep -c '^VIOLATION' ${d}check_current.txt) violation lines; $(tail -1 ${d}check_current.txt))"
  else
    echo "$id: MISSED (exit $rc; $(tail -1 ${d}check_current.txt))"; fail=1
  fi
done
exit $fail
