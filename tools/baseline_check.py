#!/usr/bin/env python3
"""Runs the repository's test suite (guard off) and checks that every test of BASELINE.stable_pass passes."""
import json, subprocess, sys, os
env = dict(os.environ, GOFLAGS="-mod=mod", GOPROXY="off", GOSUMDB="off", GOTOOLCHAIN="local")
p = subprocess.run("go test -json -vet=off -count=1 -timeout 25m ./...", shell=True, cwd="/repo", env=env, capture_output=True, text=True)
res = {}
for line in p.stdout.splitlines():
    try:
        e = json.loads(line)
    except Exception:
        continue
    if e.get("Action") in ("pass", "fail") and e.get("Test"):
        res[e["Package"] + "::" + e["Test"]] = e["Action"]
base = json.load(open("/root/.vp/BASELINE.json"))["stable_pass"]
bad = [t for t in base if res.get(t) != "pass"]
print("stable_pass:", len(base), "passing now:", len(base) - len(bad))
for t in bad[:40]:
    print("  NOT PASSING:", t, res.get(t))
sys.exit(1 if bad else 0)
