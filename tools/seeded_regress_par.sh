#!/bin/bash
# Runs tools/seeded_regress.sh in four lanes (one scratch worktree each; a property's seeds stay in one lane because the
# replay directory is per property). Output: /tmp/verif_regress_lane<k>.log, summary on stdout.
cd /verif
lanes=("C09" "C01 C02 C03 C04 C05 C06 C07" "C08 C10 C11 C12 C13 C14" "C15 C16 C17 C18 C19 C20")
pids=()
for k in 0 1 2 3; do
  ( for p in ${lanes[$k]}; do VERIF_REGRESS_WT=/tmp/verif_regress_wt$k bash tools/seeded_regress.sh $p; done ) > /tmp/verif_regress_lane$k.log 2>&1 &
  pids+=($!)
done
for p in "${pids[@]}"; do wait $p; done
cat /tmp/verif_regress_lane?.log | grep -E ": (caught|MISSED|patch)" | sort
echo "caught: $(cat /tmp/verif_regress_lane?.log | grep -c ': caught')  not caught: $(cat /tmp/verif_regress_lane?.log | grep -cE ': (MISSED|patch)')"
