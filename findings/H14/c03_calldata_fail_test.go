package xibc_test

// Demonstration for finding H14 (property C03): a transfer with call data whose execution fails on the destination is
// answered with a non-zero result code by the packet contract WITHOUT an EVM error, so msg_server.RecvPacket commits the
// callback's state (the minted tokens stay) under an acknowledgement with code 3 - and the source refunds on that code.
// On the unchanged (pre-fix) tree the final assertions fail: the receiver on B keeps 1000 and the sender on A has its 1000 back.

import (
	"crypto/sha256"
	"encoding/hex"
	"math/big"
	"strings"

	"github.com/ethereum/go-ethereum/common"

	endpointcontract "github.com/teleport-network/teleport/syscontracts/xibc_endpoint"
	packettypes "github.com/teleport-network/teleport/x/xibc/core/packet/types"
	xibctesting "github.com/teleport-network/teleport/x/xibc/testing"
)

func (suite *XIBCTestSuite) TestH14FailedCallDataIsNotDeliveredAndRefunded() {
	suite.SetupTest()
	pathAToB := xibctesting.NewPath(suite.chainA, suite.chainB)
	suite.coordinator.SetupClients(pathAToB)

	chainAERC20 := suite.DeployERC20ByCrossChain(suite.chainA)
	chainBERC20 := suite.DeployERC20ByCrossChain(suite.chainB)
	suite.GrantERC20MintRoleByCrossChain(suite.chainA, chainAERC20, suite.chainA.SenderAddress)
	suite.MintERC20Token(suite.chainA, suite.chainA.SenderAddress, chainAERC20, big.NewInt(10000))
	err := suite.chainB.App.AggregateKeeper.RegisterERC20Trace(suite.chainB.GetContext(), chainBERC20, strings.ToLower(chainAERC20.String()), suite.chainA.ChainID, uint8(0))
	suite.Require().NoError(err)

	// call data that fails on the destination: an unknown selector on the ERC-20 contract
	badCall := []byte{0xde, 0xad, 0xbe, 0xef}
	crossChainData := packettypes.CrossChainData{
		DstChain:        suite.chainB.ChainID,
		TokenAddress:    chainAERC20,
		Receiver:        strings.ToLower(suite.chainB.SenderAddress.String()),
		Amount:          big.NewInt(1000),
		ContractAddress: strings.ToLower(chainBERC20.String()),
		CallData:        badCall,
		CallbackAddress: common.BigToAddress(big.NewInt(0)),
		FeeOption:       0,
	}
	fee := packettypes.Fee{TokenAddress: chainAERC20, Amount: big.NewInt(0)}
	suite.Approve(suite.chainA, chainAERC20, endpointcontract.EndpointContractAddress, big.NewInt(1000))
	suite.CrossChainCall(suite.chainA, crossChainData, fee)
	suite.Equal(int64(9000), suite.ERC20Balance(suite.chainA, chainAERC20, suite.chainA.SenderAddress).Int64())
	suite.Require().Equal(int64(1000), suite.OutTokens(suite.chainA, chainAERC20, suite.chainB.ChainID).Int64())

	amount, _ := hex.DecodeString("00000000000000000000000000000000000000000000000000000000000003e8")
	transferData := packettypes.TransferData{Receiver: strings.ToLower(crossChainData.Receiver), Amount: amount, Token: strings.ToLower(chainAERC20.String()), OriToken: ""}
	transferDataAbi, err := transferData.ABIPack()
	suite.Require().NoError(err)
	callDataAbi, err := (&packettypes.CallData{ContractAddress: crossChainData.ContractAddress, CallData: badCall}).ABIPack()
	suite.Require().NoError(err)
	packet := packettypes.Packet{
		SrcChain: suite.chainA.ChainID, DstChain: suite.chainB.ChainID, Sequence: 1, Sender: strings.ToLower(suite.chainA.SenderAddress.String()),
		TransferData: transferDataAbi, CallData: callDataAbi, CallbackAddress: common.BigToAddress(big.NewInt(0)).String(), FeeOption: 0,
	}

	// receive on B
	suite.Require().NoError(pathAToB.EndpointB.UpdateClient())
	suite.Require().NoError(pathAToB.EndpointB.RecvPacket(packet))

	// the acknowledgement B committed is an error acknowledgement (code 3)
	ack := packettypes.NewAcknowledgement(3, []byte(""), "execute call data failed", strings.ToLower(suite.chainB.SenderAcc.String()), 0)
	ackData, err := ack.ABIPack()
	suite.Require().NoError(err)
	stored, found := suite.chainB.App.XIBCKeeper.PacketKeeper.GetPacketAcknowledgement(suite.chainB.GetContext(), packet.SrcChain, packet.DstChain, 1)
	suite.Require().True(found)
	sum := sha256.Sum256(ackData)
	suite.Require().Equal(stored, sum[:], "B committed the code-3 error acknowledgement")

	// relay the acknowledgement to A: A refunds
	suite.Require().NoError(pathAToB.EndpointA.UpdateClient())
	suite.Require().NoError(pathAToB.EndpointA.AcknowledgePacket(packet, ackData))
	suite.Require().Equal(uint8(2), suite.GetAckStatus(suite.chainA, suite.chainB.ChainID, 1))
	refunded := suite.ERC20Balance(suite.chainA, chainAERC20, suite.chainA.SenderAddress).Int64() == 10000
	suite.Require().True(refunded, "the source refunds on the error acknowledgement")

	// C03: refunded => no token effect left on the destination
	delivered := suite.ERC20Balance(suite.chainB, chainBERC20, suite.chainB.SenderAddress).Int64()
	bindings := suite.Bindings(suite.chainB, chainBERC20, suite.chainA.ChainID)
	suite.Equal(int64(0), delivered, "the receiver on B keeps the delivered tokens although the sender on A was refunded")
	suite.Equal(int64(0), bindings.Amount.Int64(), "B still counts the amount as minted for A")
}
