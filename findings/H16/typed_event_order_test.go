package types_test

// Demonstration for the recorded finding H16 (property C14): the cosmos-sdk version the repository builds against converts a
// typed event by ranging over a Go map, so the attribute order of every event teleport emits with EmitTypedEvent differs from
// run to run (and node to node). The test converts one teleport event repeatedly and FAILS when two different attribute
// orders are seen - which is what happens on this tree.

import (
	"strings"
	"testing"

	sdk "github.com/cosmos/cosmos-sdk/types"

	packettypes "github.com/teleport-network/teleport/x/xibc/core/packet/types"
)

func TestH16TypedEventAttributeOrderIsStable(t *testing.T) {
	ev := &packettypes.EventSendPacket{SrcChain: "a", DstChain: "b", Sequence: "1", Packet: []byte{1}}
	seen := map[string]bool{}
	for i := 0; i < 400; i++ {
		e, err := sdk.TypedEventToEvent(ev)
		if err != nil {
			t.Fatal(err)
		}
		var keys []string
		for _, a := range e.Attributes {
			keys = append(keys, string(a.Key))
		}
		seen[strings.Join(keys, ",")] = true
	}
	if len(seen) != 1 {
		t.Fatalf("the same event was rendered with %d different attribute orders: %v", len(seen), seen)
	}
}
