package keeper_test

// Demonstration for finding H17 (properties C16 / C11): balanceOf returns nil when the token contract's balanceOf call fails
// or answers with something that is not a uint256, and convertCoinNativeCoin / convertCoinNativeERC20 used that result
// without a nil test (big.Int.Add(nil, ...), nil.Cmp): a conversion against a misbehaving token contract PANICS instead of
// failing with an error. Behind a message that only fails the transaction; behind the ICS-20 receive hook it aborts the whole
// MsgRecvPacket, so a transfer that the ICS-20 application accepted is never received or acknowledged.
// On the pre-fix tree the NotPanics assertion fails.

import (
	sdk "github.com/cosmos/cosmos-sdk/types"
	"github.com/ethereum/go-ethereum/common"

	"github.com/teleport-network/teleport/x/aggregate/types"
)

func (suite *KeeperTestSuite) TestH17ConvertCoinAgainstATokenWhoseBalanceOfReverts() {
	suite.mintFeeCollector = true
	suite.SetupTest()
	_, pair := suite.setupRegisterCoin()
	// the registered contract stops behaving like an ERC-20 (an upgradeable or malicious external token): every call answers
	// "true" except balanceOf, which reverts. Hand-assembled:
	//   PUSH1 0 CALLDATALOAD PUSH1 0xe0 SHR PUSH4 balanceOf EQ PUSH1 0x19 JUMPI | PUSH1 1 PUSH1 0 MSTORE PUSH1 0x20 PUSH1 0 RETURN | JUMPDEST PUSH1 0 PUSH1 0 REVERT
	code := common.FromHex("0x60003560e01c6370a082311460195760016000526020600" + "0f35b60006000fd")
	addr := common.HexToAddress("0x00000000000000000000000000000000000badc0")
	stateDb := suite.StateDB()
	stateDb.SetCode(addr, code)
	suite.Require().NoError(stateDb.Commit())
	k := suite.app.AggregateKeeper
	broken := types.NewTokenPair(addr, pair.Denoms, true, types.OWNER_EXTERNAL)
	k.DeleteTokenPair(suite.ctx, *pair)
	k.SetTokenPair(suite.ctx, broken)
	k.SetDenomsMap(suite.ctx, broken.Denoms, broken.GetID())
	k.SetERC20Map(suite.ctx, broken.GetERC20Contract(), broken.GetID())

	sender := sdk.AccAddress(suite.address.Bytes())
	coins := sdk.NewCoins(sdk.NewCoin(cosmosTokenBase, sdk.NewInt(100)))
	suite.Require().NoError(suite.app.BankKeeper.MintCoins(suite.ctx, types.ModuleName, coins))
	suite.Require().NoError(suite.app.BankKeeper.SendCoinsFromModuleToAccount(suite.ctx, types.ModuleName, sender, coins))
	msg := types.NewMsgConvertCoin(sdk.NewCoin(cosmosTokenBase, sdk.NewInt(10)), suite.address, sender)
	var err error
	suite.Require().NotPanics(func() { _, err = k.ConvertCoin(sdk.WrapSDKContext(suite.ctx), msg) }, "a failing balanceOf must be an error, not a panic")
	suite.Require().Error(err)
}
