package client_test

// Demonstration for finding H15 (property C13): UpgradeClient stores the proposal's consensus state at the new client's
// latest height for every client type; a TSS client has no heights (latest height 0-0), so after an upgrade of a TSS client
// the store holds a consensus state at height zero and the exported genesis fails the module's own validation
// ("consensus state height cannot be zero") - CreateClient and ToggleClient both skip that write for TSS.
// On the pre-fix tree the last assertion fails.

import (
	"testing"

	sdk "github.com/cosmos/cosmos-sdk/types"
	"github.com/stretchr/testify/require"
	tmproto "github.com/tendermint/tendermint/proto/tendermint/types"

	"github.com/teleport-network/teleport/app"
	tsstypes "github.com/teleport-network/teleport/x/xibc/clients/tss-client/types"
	client "github.com/teleport-network/teleport/x/xibc/core/client"
)

func TestH15UpgradedTSSClientExportsAValidGenesis(t *testing.T) {
	tp := app.Setup(false, nil)
	ctx := tp.BaseApp.NewContext(false, tmproto.Header{Height: 1})
	k := tp.XIBCKeeper.ClientKeeper
	addr := sdk.AccAddress(make([]byte, 20)).String()
	cs := &tsstypes.ClientState{TssAddress: addr, Pubkey: []byte{1}, Threshold: 1}
	require.NoError(t, k.CreateClient(ctx, "tss-chain", cs, &tsstypes.ConsensusState{}))
	gs := client.ExportGenesis(ctx, k)
	require.NoError(t, gs.Validate(), "export after create")
	cs2 := &tsstypes.ClientState{TssAddress: addr, Pubkey: []byte{2}, Threshold: 2}
	require.NoError(t, k.UpgradeClient(ctx, "tss-chain", cs2, &tsstypes.ConsensusState{}))
	gs = client.ExportGenesis(ctx, k)
	require.NoError(t, gs.Validate(), "export after the upgrade of a TSS client must pass the module's genesis validation")
}
