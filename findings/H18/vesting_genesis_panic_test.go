package keeper_test

// Demonstration for finding H18 (property C15): a reward-vesting genesis with vesting disabled and an empty per-block reward
// passes the module's own ValidateGenesis, but InitGenesis panics: SetParams hands the value to the params subspace, which
// runs the validator registered for PerBlockReward unconditionally ("value from ParamSetPair is invalid").
// Run: go test -overlay (this file as /repo/x/rvesting/keeper/zz_h18_test.go) ./x/rvesting/keeper -run TestH18

import (
	"testing"

	sdk "github.com/cosmos/cosmos-sdk/types"
	tmproto "github.com/tendermint/tendermint/proto/tendermint/types"

	"github.com/teleport-network/teleport/app"
	"github.com/teleport-network/teleport/x/rvesting/types"
)

func TestH18ValidatedGenesisPanicsOnImport(t *testing.T) {
	a := app.Setup(false, nil)
	ctx := a.BaseApp.NewContext(false, tmproto.Header{Height: 1})
	gs := &types.GenesisState{Params: types.Params{EnableVesting: false, PerBlockReward: sdk.Coins{}}}
	if err := types.ValidateGenesis(gs); err != nil {
		t.Skipf("genesis validation rejects the state (defect repaired): %v", err)
	}
	defer func() {
		if r := recover(); r != nil {
			t.Fatalf("InitGenesis panicked on a genesis state that passed ValidateGenesis: %v", r)
		}
	}()
	a.RVestingKeeper.InitGenesis(ctx, gs)
}
