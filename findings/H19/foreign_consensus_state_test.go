package client_test

// Demonstration for finding H19 (properties C18 / C13): a create-client proposal whose client state is an ETH client state and
// whose consensus state belongs to another client type passes ValidateBasic (only the client state is validated) and is
// executed successfully: the keeper stores the foreign consensus state under the ETH client. Proofs at the installed height
// can then never verify (the ETH client cannot read its consensus state), and the exported genesis fails the module's own
// validation ("consensus state client type ... does not equal client state client type ...").
// Run: go test -overlay (this file as /repo/x/xibc/core/client/zz_h19_test.go) ./x/xibc/core/client -run TestH19

import (
	"bytes"
	"testing"

	"github.com/stretchr/testify/require"
	tmproto "github.com/tendermint/tendermint/proto/tendermint/types"

	"github.com/teleport-network/teleport/app"
	xibcbsctypes "github.com/teleport-network/teleport/x/xibc/clients/light-clients/bsc/types"
	xibcethtypes "github.com/teleport-network/teleport/x/xibc/clients/light-clients/eth/types"
	xibcclient "github.com/teleport-network/teleport/x/xibc/core/client"
	clienttypes "github.com/teleport-network/teleport/x/xibc/core/client/types"
)

func TestH19CreateClientWithAConsensusStateOfAnotherClientType(t *testing.T) {
	teleport := app.Setup(false, nil)
	ctx := teleport.BaseApp.NewContext(false, tmproto.Header{Height: 1})
	root := bytes.Repeat([]byte{0xab}, 32)
	cs := &xibcethtypes.ClientState{
		Header: xibcethtypes.Header{ParentHash: bytes.Repeat([]byte{0x01}, 32), Root: root, Difficulty: []byte{0x02},
			Height: clienttypes.NewHeight(0, 100), GasLimit: 30000000, GasUsed: 21000, Time: 1650000000},
		ChainId: 1, ContractAddress: bytes.Repeat([]byte{0xcc}, 20), TrustingPeriod: 1000000, BlockDelay: 1,
	}
	foreign := &xibcbsctypes.ConsensusState{Timestamp: 1650000000, Height: clienttypes.NewHeight(0, 100), Root: root}
	content, err := clienttypes.NewCreateClientProposal("create", "create eth client", "eth-chain", cs, foreign)
	require.NoError(t, err)
	require.NoError(t, content.ValidateBasic(), "accepted at submission")

	err = xibcclient.NewClientProposalHandler(teleport.XIBCKeeper.ClientKeeper)(ctx, content)
	if err != nil {
		t.Logf("the proposal is refused (defect repaired): %v", err)
		_, found := teleport.XIBCKeeper.ClientKeeper.GetClientConsensusState(ctx, "eth-chain", clienttypes.NewHeight(0, 100))
		require.False(t, found)
		return
	}
	gs := xibcclient.ExportGenesis(ctx, teleport.XIBCKeeper.ClientKeeper)
	require.NoError(t, gs.Validate(), "the state a successful create-client proposal leaves must export to a valid genesis")
}
