package client_test

// Demonstration for finding H21 (property C15): the client sub-module's genesis validation does not look at the relayers at
// all. A genesis whose relayer entry has an empty address passes GenesisState.Validate; InitGenesis registers it with
// store.Set([]byte(address), ...) on a prefix store, which asserts a non-empty key and panics ("key is nil"): the chain
// cannot start from a genesis file its own validation accepted.
// Run: go test -overlay (this file as /repo/x/xibc/core/client/zz_h21_test.go) ./x/xibc/core/client -run TestH21

import (
	"testing"

	tmproto "github.com/tendermint/tendermint/proto/tendermint/types"

	"github.com/teleport-network/teleport/app"
	xibcclient "github.com/teleport-network/teleport/x/xibc/core/client"
	clienttypes "github.com/teleport-network/teleport/x/xibc/core/client/types"
)

func TestH21GenesisRelayerWithAnEmptyAddress(t *testing.T) {
	gs := clienttypes.GenesisState{
		NativeChainName: "teleport",
		Relayers:        []clienttypes.IdentifiedRelayer{{Address: "", Chains: []string{"eth-chain"}, Addresses: []string{"0x01"}}},
	}
	if err := gs.Validate(); err != nil {
		t.Skipf("genesis validation rejects the state (defect repaired): %v", err)
	}
	teleport := app.Setup(false, nil)
	ctx := teleport.BaseApp.NewContext(false, tmproto.Header{Height: 1})
	defer func() {
		if r := recover(); r != nil {
			t.Fatalf("InitGenesis panicked on a genesis state that passed Validate: %v", r)
		}
	}()
	xibcclient.InitGenesis(ctx, teleport.XIBCKeeper.ClientKeeper, gs)
}
