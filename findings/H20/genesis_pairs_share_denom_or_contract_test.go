package aggregate_test

// Demonstration for finding H20 (property C12): the aggregate module's genesis validation compares only the FIRST
// denomination of each pair and the SPELLING of the contract address. A genesis with two pairs that share a later
// denomination, or that name the same contract in two spellings, passes GenesisState.Validate; after InitGenesis the shared
// denomination / the contract leads to one pair only, so the other pair lists a denomination (has a contract) that belongs
// to another pair: the registry is inconsistent from block one.
// Run: go test -overlay (this file as /repo/x/aggregate/zz_h20_test.go) ./x/aggregate -run TestH20

import (
	"strings"
	"testing"

	"github.com/ethereum/go-ethereum/common"
	"github.com/stretchr/testify/require"
	tmproto "github.com/tendermint/tendermint/proto/tendermint/types"

	"github.com/teleport-network/teleport/app"
	"github.com/teleport-network/teleport/x/aggregate"
	"github.com/teleport-network/teleport/x/aggregate/types"
)

func h20Import(t *testing.T, gs types.GenesisState) (*app.Teleport, bool) {
	if err := gs.Validate(); err != nil {
		t.Logf("genesis validation rejects the state (defect repaired): %v", err)
		return nil, false
	}
	teleport := app.Setup(false, nil)
	ctx := teleport.BaseApp.NewContext(false, tmproto.Header{Height: 1})
	aggregate.InitGenesis(ctx, *teleport.AggregateKeeper, teleport.AccountKeeper, gs)
	k := teleport.AggregateKeeper
	for _, pair := range gs.TokenPairs {
		id := k.GetERC20Map(ctx, pair.GetERC20Contract())
		got, found := k.GetTokenPair(ctx, id)
		require.True(t, found)
		require.Equal(t, pair.Denoms, got.Denoms, "the contract of a genesis pair leads to another pair")
		for _, d := range pair.Denoms {
			require.Equal(t, pair.GetID(), k.GetDenomMap(ctx, d), "denomination %s of a genesis pair leads to another pair", d)
		}
	}
	return teleport, true
}

func TestH20TwoGenesisPairsShareALaterDenomination(t *testing.T) {
	a := types.NewTokenPair(common.HexToAddress("0x00000000000000000000000000000000000000aa"), []string{"acoin", "shared"}, true, types.OWNER_MODULE)
	b := types.NewTokenPair(common.HexToAddress("0x00000000000000000000000000000000000000bb"), []string{"bcoin", "shared"}, true, types.OWNER_MODULE)
	h20Import(t, types.NewGenesisState(types.DefaultParams(), []types.TokenPair{a, b}))
}

func TestH20TwoGenesisPairsNameOneContractInTwoSpellings(t *testing.T) {
	addr := common.HexToAddress("0x5aeda56215b167893e80b4fe645ba6d5bab767de")
	a := types.NewTokenPair(addr, []string{"acoin"}, true, types.OWNER_MODULE)
	b := types.NewTokenPair(addr, []string{"bcoin"}, true, types.OWNER_MODULE)
	b.ERC20Address = strings.ToLower(b.ERC20Address)
	require.NotEqual(t, a.ERC20Address, b.ERC20Address)
	h20Import(t, types.NewGenesisState(types.DefaultParams(), []types.TokenPair{a, b}))
}
