package main

import (
	"fmt"
	"go/constant"
	"go/token"
	"go/types"
	"math/big"
	"strings"

	"golang.org/x/tools/go/ssa"
)

const teleportMod = "github.com/teleport-network/teleport"
const rtPkg = teleportMod + "/zzverifrt"

type deferred struct {
	fn   Val
	args []Val
	site ssa.Instruction
}

type frame struct {
	fn      *ssa.Function
	env     map[ssa.Value]Val
	block   *ssa.BasicBlock
	prev    *ssa.BasicBlock
	defers  []*deferred
	result  Val
	visits  map[int]int
	caller  *frame
	curInst ssa.Instruction
}

type Interp struct {
	prog       *ssa.Program
	ex         *Explorer
	p          *Path
	globals    map[*ssa.Global]Ptr
	inited     map[*ssa.Package]bool
	depth      int
	top        *frame
	overrides  map[string]Val
	inOverride map[string]bool
	abstracted map[string]bool
	autoAll    bool
	inInit     int
	panicking  []*targetPanic
}

func newBig(s string) (*big.Int, bool) { return new(big.Int).SetString(s, 10) }

func (it *Interp) fail(format string, args ...interface{}) {
	pos := ""
	if it.top != nil && it.top.curInst != nil {
		pos = " at " + it.prog.Fset.Position(it.top.curInst.Pos()).String() + " in " + it.top.fn.String()
	}
	panic(engineErr{fmt.Sprintf(format, args...) + pos})
}

func (it *Interp) tpanic(desc string) {
	pos := ""
	if it.top != nil && it.top.curInst != nil {
		pos = " at " + it.prog.Fset.Position(it.top.curInst.Pos()).String()
	}
	panic(targetPanic{desc: desc + pos})
}

func (it *Interp) get(fr *frame, v ssa.Value) Val {
	switch v := v.(type) {
	case nil:
		return nil
	case *ssa.Function, *ssa.Builtin:
		return v
	case *ssa.Const:
		return it.constVal(v)
	case *ssa.Global:
		return it.globalAddr(v)
	}
	if r, ok := fr.env[v]; ok {
		return r
	}
	it.fail("get: no value for %T %s", v, v.Name())
	return nil
}

func (it *Interp) constVal(c *ssa.Const) Val {
	t := c.Type()
	if c.Value == nil {
		return it.zero(t)
	}
	switch u := t.Underlying().(type) {
	case *types.Basic:
		switch {
		case u.Info()&types.IsBoolean != 0:
			return Bool(constant.BoolVal(c.Value))
		case u.Info()&types.IsInteger != 0:
			w, _ := intWidth(u)
			bi, ok := new(big.Int).SetString(constant.ToInt(c.Value).ExactString(), 10)
			if !ok {
				it.fail("bad int const %s", c.Value)
			}
			return BV(w, bi)
		case u.Info()&types.IsString != 0:
			return strLit(constant.StringVal(c.Value))
		case u.Info()&types.IsFloat != 0:
			f, _ := constant.Float64Val(c.Value)
			return &Native{Kind: "float", Data: f}
		}
	case *types.Slice, *types.Pointer, *types.Interface, *types.Map, *types.Signature:
		return it.zero(t)
	}
	// typeparam-free generic zero consts etc.
	return it.zero(t)
}

func isTeleportPkg(p *ssa.Package) bool {
	return p != nil && p.Pkg != nil && strings.HasPrefix(p.Pkg.Path(), teleportMod)
}

func (it *Interp) globalAddr(g *ssa.Global) Ptr {
	it.ex.gmu.Lock()
	defer it.ex.gmu.Unlock()
	if p, ok := it.globals[g]; ok {
		return p
	}
	// lazily run the package initialiser of teleport packages
	if isTeleportPkg(g.Pkg) && !it.inited[g.Pkg] {
		it.inited[g.Pkg] = true
		it.ex.gmu.Unlock()
		it.runInit(g.Pkg)
		it.ex.gmu.Lock()
		if p, ok := it.globals[g]; ok {
			return p
		}
	}
	elem := g.Type().(*types.Pointer).Elem()
	var v Val
	if isTeleportPkg(g.Pkg) {
		v = it.zero(elem)
	} else {
		if elem.String() == "error" {
			// sentinel errors of dependencies are non-nil
			v = IfaceV{V: &Native{Kind: "error", Data: &ErrData{registered: true, desc: g.String()}, Tag: g.String()}}
		} else if cv, ok := it.constGlobalInit(g); ok {
			v = cv
		} else {
			v = it.opaqueOfType(elem, "global:"+g.String())
		}
	}
	p := new(Val)
	*p = v
	it.globals[g] = p
	return p
}

// constGlobalInit: the value of a dependency's package-level variable when its initialiser is a constant or
// big.NewInt(constant) (e.g. go-ethereum's common.Big1); read from the dependency's own init function.
func (it *Interp) constGlobalInit(g *ssa.Global) (Val, bool) {
	initFn := g.Pkg.Func("init")
	if initFn == nil {
		return nil, false
	}
	var found *ssa.Store
	n := 0
	for _, b := range initFn.Blocks {
		for _, in := range b.Instrs {
			if st, ok := in.(*ssa.Store); ok && st.Addr == ssa.Value(g) {
				found = st
				n++
			}
		}
	}
	if n != 1 {
		return nil, false
	}
	switch v := found.Val.(type) {
	case *ssa.Const:
		if v.Value == nil {
			return nil, false
		}
		return it.constVal(v), true
	case *ssa.Call:
		if f := v.Call.StaticCallee(); f != nil && f.String() == "math/big.NewInt" && len(v.Call.Args) == 1 {
			if c, ok := v.Call.Args[0].(*ssa.Const); ok && c.Value != nil {
				i, _ := constant.Int64Val(constant.ToInt(c.Value))
				var iv Val = IntV{IntI(i)}
				return Ptr(&iv), true
			}
		}
	}
	return nil, false
}

// runInit executes the synthetic init of a teleport package, skipping inits of imports.
func (it *Interp) runInit(pkg *ssa.Package) {
	initFn := pkg.Func("init")
	if initFn == nil || len(initFn.Blocks) == 0 {
		return
	}
	// allocate all globals of the package first
	it.ex.gmu.Lock()
	for _, m := range pkg.Members {
		if g, ok := m.(*ssa.Global); ok {
			if _, ok := it.globals[g]; !ok {
				p := new(Val)
				*p = it.zero(g.Type().(*types.Pointer).Elem())
				it.globals[g] = p
			}
		}
	}
	it.ex.gmu.Unlock()
	saved := it.top
	savedP := it.p
	it.top = nil
	it.p = it.ex.initPath
	defer func() { it.top = saved; it.p = savedP }()
	it.inInit++
	defer func() { it.inInit-- }()
	it.callFunction(initFn, nil, nil)
}

func (it *Interp) runFrame(fr *frame) {
	for fr.block != nil {
		it.p.steps++
		if it.p.steps > it.ex.cfg.MaxSteps {
			panic(unwindErr{fmt.Sprintf("step bound %d exceeded in %s", it.ex.cfg.MaxSteps, fr.fn)})
		}
		fr.visits[fr.block.Index]++
		if fr.visits[fr.block.Index] > it.ex.cfg.MaxBlockVisits {
			panic(unwindErr{fmt.Sprintf("unwinding bound %d exceeded in %s block %d", it.ex.cfg.MaxBlockVisits, fr.fn, fr.block.Index)})
		}
		it.ex.transitions++
		block := fr.block
		// phis
		var phiVals []Val
		nphi := 0
		for _, ins := range block.Instrs {
			phi, ok := ins.(*ssa.Phi)
			if !ok {
				break
			}
			nphi++
			idx := -1
			for i, p := range block.Preds {
				if p == fr.prev {
					idx = i
					break
				}
			}
			phiVals = append(phiVals, it.get(fr, phi.Edges[idx]))
		}
		for i := 0; i < nphi; i++ {
			fr.env[block.Instrs[i].(*ssa.Phi)] = phiVals[i]
		}
		jumped := false
		for _, ins := range block.Instrs[nphi:] {
			fr.curInst = ins
			switch it.step(fr, ins) {
			case kJump:
				jumped = true
			case kReturn:
				return
			}
			if jumped {
				break
			}
		}
		if !jumped {
			it.fail("block fell through")
		}
	}
}

type cont int

const (
	kNext cont = iota
	kJump
	kReturn
)

type unwindErr struct{ msg string }

func (it *Interp) step(fr *frame, instr ssa.Instruction) cont {
	switch instr := instr.(type) {
	case *ssa.DebugRef:
	case *ssa.UnOp:
		fr.env[instr] = it.unop(instr, it.get(fr, instr.X))
	case *ssa.BinOp:
		fr.env[instr] = it.binop(instr.Op, instr.X.Type(), it.get(fr, instr.X), it.get(fr, instr.Y))
	case *ssa.Call:
		fn, args := it.prepareCall(fr, &instr.Call)
		if it.inInit > 0 && fr.fn.Synthetic == "package initializer" {
			fr.env[instr] = it.initCall(fr, fn, args, instr)
		} else {
			fr.env[instr] = it.call(fn, args, instr)
		}
	case *ssa.ChangeInterface:
		fr.env[instr] = it.get(fr, instr.X)
	case *ssa.ChangeType:
		fr.env[instr] = it.get(fr, instr.X)
	case *ssa.Convert:
		fr.env[instr] = it.conv(instr.Type(), instr.X.Type(), it.get(fr, instr.X))
	case *ssa.MakeInterface:
		fr.env[instr] = IfaceV{T: instr.X.Type(), V: copyVal(it.get(fr, instr.X))}
	case *ssa.Extract:
		fr.env[instr] = it.get(fr, instr.Tuple).(Tuple)[instr.Index]
	case *ssa.Slice:
		fr.env[instr] = it.sliceOp(instr, it.get(fr, instr.X), it.get(fr, instr.Low), it.get(fr, instr.High), it.get(fr, instr.Max))
	case *ssa.Return:
		switch len(instr.Results) {
		case 0:
		case 1:
			fr.result = copyVal(it.get(fr, instr.Results[0]))
		default:
			var res Tuple
			for _, r := range instr.Results {
				res = append(res, copyVal(it.get(fr, r)))
			}
			fr.result = res
		}
		fr.block = nil
		return kReturn
	case *ssa.RunDefers:
		it.runDefers(fr)
	case *ssa.Panic:
		v := it.get(fr, instr.X)
		panic(targetPanic{v: v, desc: "panic(" + it.describe(v) + ") at " + it.prog.Fset.Position(instr.Pos()).String()})
	case *ssa.Store:
		it.store(it.get(fr, instr.Addr), it.get(fr, instr.Val))
	case *ssa.If:
		c := it.get(fr, instr.Cond).(*Term)
		succ := 1
		if it.p.branch(c) {
			succ = 0
		}
		fr.prev, fr.block = fr.block, fr.block.Succs[succ]
		return kJump
	case *ssa.Jump:
		fr.prev, fr.block = fr.block, fr.block.Succs[0]
		return kJump
	case *ssa.Defer:
		fn, args := it.prepareCall(fr, &instr.Call)
		fr.defers = append(fr.defers, &deferred{fn: fn, args: args, site: instr})
	case *ssa.Alloc:
		p := new(Val)
		*p = it.zero(instr.Type().(*types.Pointer).Elem())
		fr.env[instr] = Ptr(p)
	case *ssa.MakeSlice:
		n := it.concreteInt(it.get(fr, instr.Len), "MakeSlice len")
		c := it.concreteInt(it.get(fr, instr.Cap), "MakeSlice cap")
		et := instr.Type().Underlying().(*types.Slice).Elem()
		if isByteType(et) {
			bs := make([]*Term, n, c)
			for i := range bs {
				bs[i] = BVu(8, 0)
			}
			fr.env[instr] = &StrV{Bytes: bs, IsB: true}
		} else {
			arr := make([]Val, c)
			for i := range arr {
				arr[i] = it.zero(et)
			}
			fr.env[instr] = &SliceV{Arr: &arr, Len: n, Cap: c}
		}
	case *ssa.MakeMap:
		fr.env[instr] = &MapV{}
	case *ssa.Range:
		fr.env[instr] = it.rangeIter(it.get(fr, instr.X), instr.X.Type())
	case *ssa.Next:
		fr.env[instr] = it.get(fr, instr.Iter).(*iterV).next(it, instr)
	case *ssa.FieldAddr:
		x := it.get(fr, instr.X)
		p, ok := x.(Ptr)
		if !ok {
			it.fail("FieldAddr on %T", x)
		}
		if p == nil {
			it.tpanic("nil pointer dereference (field)")
		}
		s, ok := (*p).(*StructV)
		if !ok {
			it.fail("FieldAddr: pointee is %T (%s), not a struct; type %s", *p, it.describe(*p), instr.X.Type())
		}
		fr.env[instr] = Ptr(&s.F[instr.Field])
	case *ssa.Field:
		x := it.get(fr, instr.X)
		s, ok := x.(*StructV)
		if !ok {
			it.fail("Field on %T type %s", x, instr.X.Type())
		}
		fr.env[instr] = s.F[instr.Field]
	case *ssa.IndexAddr:
		fr.env[instr] = it.indexAddr(it.get(fr, instr.X), it.get(fr, instr.Index))
	case *ssa.Index:
		fr.env[instr] = it.index(it.get(fr, instr.X), it.get(fr, instr.Index))
	case *ssa.Lookup:
		fr.env[instr] = it.lookup(instr, it.get(fr, instr.X), it.get(fr, instr.Index))
	case *ssa.MapUpdate:
		it.mapUpdate(it.get(fr, instr.Map), it.get(fr, instr.Key), it.get(fr, instr.Value))
	case *ssa.TypeAssert:
		fr.env[instr] = it.typeAssert(instr, it.get(fr, instr.X))
	case *ssa.MakeClosure:
		var b []Val
		for _, x := range instr.Bindings {
			b = append(b, it.get(fr, x))
		}
		fr.env[instr] = &Closure{Fn: instr.Fn.(*ssa.Function), Bindings: b}
	case *ssa.SliceToArrayPointer:
		it.fail("SliceToArrayPointer unsupported")
	default:
		it.fail("cannot encode instruction %T", instr)
	}
	return kNext
}

func (it *Interp) concreteInt(v Val, what string) int {
	t, ok := v.(*Term)
	if !ok || !t.IsConst() {
		// enumerate small values by branching
		if ok {
			for k := 0; k <= it.ex.cfg.MaxEnum; k++ {
				if it.p.branch(Eq(t, BVu(t.w, uint64(k)))) {
					return k
				}
			}
			panic(unwindErr{fmt.Sprintf("%s: symbolic size exceeds enumeration bound %d", what, it.ex.cfg.MaxEnum)})
		}
		it.fail("%s: not an integer %T", what, v)
	}
	return int(signed(t.w, t.val).Int64())
}

func (it *Interp) load(addr Val) Val {
	switch p := addr.(type) {
	case Ptr:
		if p == nil {
			it.tpanic("nil pointer dereference (load)")
		}
		return copyVal(*p)
	case *BytePtr:
		return p.S.Bytes[p.I]
	}
	it.fail("load from %T", addr)
	return nil
}

func (it *Interp) store(addr Val, v Val) {
	switch p := addr.(type) {
	case Ptr:
		if p == nil {
			it.tpanic("nil pointer dereference (store)")
		}
		*p = copyVal(v)
		return
	case *BytePtr:
		p.S.Bytes[p.I] = v.(*Term)
		return
	}
	it.fail("store to %T", addr)
}

type BytePtr struct {
	S *StrV
	I int
}

func (it *Interp) runDefers(fr *frame) {
	for len(fr.defers) > 0 {
		d := fr.defers[len(fr.defers)-1]
		fr.defers = fr.defers[:len(fr.defers)-1]
		it.call(d.fn, d.args, d.site)
	}
}

func (it *Interp) prepareCall(fr *frame, c *ssa.CallCommon) (Val, []Val) {
	var args []Val
	var fn Val
	if c.Method == nil {
		fn = it.get(fr, c.Value)
	} else {
		recv := it.get(fr, c.Value)
		iv, ok := recv.(IfaceV)
		if !ok {
			it.fail("invoke on non-interface %T", recv)
		}
		if iv.IsNil() {
			it.tpanic("method call on nil interface (" + c.Method.Name() + ")")
		}
		if n, ok := iv.V.(*Native); ok && iv.T == nil {
			fn = &nativeMethod{n: n, name: c.Method.Name(), sig: c.Signature()}
		} else {
			f := it.prog.LookupMethod(iv.T, c.Method.Pkg(), c.Method.Name())
			if f == nil {
				it.fail("no method %s on %s", c.Method.Name(), iv.T)
			}
			fn = f
			args = append(args, iv.V)
		}
	}
	for _, a := range c.Args {
		args = append(args, it.get(fr, a))
	}
	return fn, args
}

// initCall: a failing initialiser expression leaves an opaque value instead of aborting the whole package init.
func (it *Interp) initCall(fr *frame, fn Val, args []Val, instr *ssa.Call) (res Val) {
	saved, savedDepth := it.top, it.depth
	defer func() {
		if r := recover(); r != nil {
			it.top, it.depth = saved, savedDepth
			msg := ""
			switch e := r.(type) {
			case engineErr:
				msg = e.msg
			case targetPanic:
				msg = "panic: " + e.desc
			default:
				panic(r)
			}
			it.ex.initNotes = append(it.ex.initNotes, fmt.Sprintf("%s: initialiser abstracted (%s)", fr.fn.Pkg.Pkg.Path(), trunc(msg, 160)))
			t := instr.Type()
			if tu, ok := t.(*types.Tuple); ok && tu.Len() == 0 {
				res = nil
				return
			}
			res = it.opaqueOfType(t, "init")
		}
	}()
	return it.call(fn, args, instr)
}

// fallThrough is returned by a model that does not apply to these arguments: the real body is executed instead.
var fallThrough Val = &Native{Kind: "fallthrough"}

type nativeMethod struct {
	n    *Native
	name string
	sig  *types.Signature
}

func (it *Interp) call(fn Val, args []Val, site ssa.Instruction) Val {
	switch fn := fn.(type) {
	case *ssa.Function:
		if fn == nil {
			it.tpanic("call of nil function")
		}
		return it.callFunction(fn, args, nil)
	case *Closure:
		if fn == nil {
			it.tpanic("call of nil func value")
		}
		return it.callFunction(fn.Fn, args, fn.Bindings)
	case *ssa.Builtin:
		return it.callBuiltin(fn, args, site)
	case *nativeMethod:
		if it.autoAll && fn.n.Kind == "opaque" && fn.sig != nil {
			// abstract-all mode: a method of an arbitrary dependency object returns an arbitrary value
			res := fn.sig.Results()
			switch res.Len() {
			case 0:
				return nil
			case 1:
				return it.opaqueOfType(res.At(0).Type(), "auto:"+fn.name)
			}
			return it.opaqueOfType(res, "auto:"+fn.name)
		}
		return it.callNative(fn.n, fn.name, args)
	case *boundModel:
		return fn.f(it, args)
	}
	it.fail("call of %T", fn)
	return nil
}

type boundModel struct {
	f func(it *Interp, args []Val) Val
}

func funcKey(fn *ssa.Function) string {
	if o := fn.Origin(); o != nil {
		fn = o
	}
	return fn.String()
}

func (it *Interp) callFunction(fn *ssa.Function, args []Val, bindings []Val) Val {
	key := funcKey(fn)
	if it.inInit > 0 && fn.Synthetic == "package initializer" && it.top != nil {
		return nil // imported packages are initialised separately
	}
	if fn.Pkg != nil && fn.Pkg.Pkg.Path() == rtPkg {
		return it.intrinsic(fn.Name(), fn, args)
	}
	if ov, ok := it.overrides[key]; ok && !it.inOverride[key] {
		it.inOverride[key] = true
		defer func() { it.inOverride[key] = false }()
		it.ex.noteOverride(key)
		return it.call(ov, args, nil)
	}
	if it.abstracted[key] {
		if r, ok := it.autoModel(fn, args); ok {
			return r
		}
	}
	if m, ok := models[key]; ok {
		if r := m(it, args); r != fallThrough {
			it.ex.noteModel(key)
			return r
		}
	}
	if len(fn.Blocks) == 0 || !(it.executable(fn)) {
		if r, ok := it.autoModel(fn, args); ok {
			return r
		}
		it.fail("cannot encode call to %s (no body/model)", key)
	}
	it.ex.noteFunc(fn)
	it.depth++
	if it.depth > 200 {
		panic(unwindErr{"call depth bound exceeded in " + key})
	}
	fr := &frame{fn: fn, env: make(map[ssa.Value]Val), block: fn.Blocks[0], visits: map[int]int{}, caller: it.top}
	for i, p := range fn.Params {
		fr.env[p] = args[i]
	}
	for i, fv := range fn.FreeVars {
		fr.env[fv] = bindings[i]
	}
	saved := it.top
	it.top = fr
	defer func() {
		it.depth--
		it.top = saved
	}()
	it.runGuarded(fr)
	return fr.result
}

// runGuarded runs the frame; on a target panic it runs the deferred calls and, if
// fn has a Recover block and a deferred call invoked recover(), resumes there.
func (it *Interp) runGuarded(fr *frame) {
	defer func() {
		if r := recover(); r != nil {
			tp, ok := r.(targetPanic)
			if !ok {
				panic(r)
			}
			// run deferred functions during panicking
			it.top = fr
			it.panicking = append(it.panicking, &tp)
			recovered := false
			func() {
				defer func() {
					n := len(it.panicking)
					if it.panicking[n-1] == nil {
						recovered = true
					}
					it.panicking = it.panicking[:n-1]
				}()
				it.runDefers(fr)
			}()
			if !recovered {
				panic(tp)
			}
			if fr.fn.Recover != nil {
				fr.block = fr.fn.Recover
				fr.prev = nil
				it.runFrame(fr)
			} else {
				// named results are not tracked: return zero results
				fr.result = it.zeroResults(fr.fn)
			}
		}
	}()
	it.runFrame(fr)
}

func (it *Interp) zeroResults(fn *ssa.Function) Val {
	res := fn.Signature.Results()
	switch res.Len() {
	case 0:
		return nil
	case 1:
		return it.zero(res.At(0).Type())
	}
	return it.zero(res)
}

func (it *Interp) executable(fn *ssa.Function) bool {
	if fn.Pkg == nil {
		// synthetic wrappers / bound methods / instantiations
		return fn.Synthetic != ""
	}
	path := fn.Pkg.Pkg.Path()
	if strings.HasPrefix(path, teleportMod) {
		return true
	}
	key := funcKey(fn)
	if execThrough[key] {
		return true
	}
	for _, pre := range execThroughPrefixes {
		if strings.HasPrefix(key, pre) {
			return true
		}
	}
	if file := it.prog.Fset.Position(fn.Pos()).Filename; file != "" {
		// generated protobuf getters
		if strings.HasSuffix(file, ".pb.go") && strings.HasPrefix(fn.Name(), "Get") {
			return true
		}
		for _, suf := range execThroughFiles {
			if strings.HasSuffix(file, suf) {
				return true
			}
		}
	}
	for _, pre := range execThroughPkgs {
		if path == pre {
			return true
		}
	}
	return false
}

func (it *Interp) describe(v Val) string {
	switch v := v.(type) {
	case nil:
		return "nil"
	case *Term:
		return v.String()
	case *StrV:
		if s, ok := v.concreteString(); ok {
			return fmt.Sprintf("%q", s)
		}
		if v.T != nil {
			return "str:" + v.T.String()
		}
		if v.Boxed != nil {
			return "boxed:" + it.describe(v.Boxed)
		}
		return fmt.Sprintf("bytes[%d]", len(v.Bytes))
	case IfaceV:
		if v.IsNil() {
			return "nil-iface"
		}
		if v.T != nil {
			return "iface(" + v.T.String() + ")"
		}
		return "iface(native " + it.describe(v.V) + ")"
	case *Native:
		return "native:" + v.Kind + ":" + v.Tag
	case *StructV:
		return "struct " + v.T.String()
	case Ptr:
		if v == nil {
			return "nil-ptr"
		}
		return "&" + it.describe(*v)
	case IntV:
		return "big:" + v.T.String()
	}
	return fmt.Sprintf("%T", v)
}

var _ = token.NoPos
