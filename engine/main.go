package main

import (
	"encoding/json"
	"flag"
	"fmt"
	"go/types"
	"os"
	"path/filepath"
	"sort"
	"strings"
	"sync"
	"time"

	"golang.org/x/tools/go/packages"
	"golang.org/x/tools/go/ssa"
	"golang.org/x/tools/go/ssa/ssautil"
)

type Unit struct {
	Pkg   string   `json:"pkg"`   // package directory relative to the repo root, e.g. x/xibc/core/host
	Files []string `json:"files"` // harness files relative to /verif
}

type CheckCfg struct {
	Units        []Unit            `json:"units"`
	Entries      []string          `json:"entries,omitempty"` // default: all Verif<ID>* functions in the harness files
	ThoroughOnly []string          `json:"thorough_only,omitempty"`
	Bounds       map[string]string `json:"bounds"`
	Outside      []string          `json:"outside_claim"`
	Assumptions  []string          `json:"assumptions"`
	MaxPaths     int               `json:"max_paths,omitempty"`
	ScanSites    string            `json:"scan_sites,omitempty"` // allow-list of nondeterminism sites (C14)
	Replayable   []string          `json:"replayable,omitempty"` // harnesses whose counterexamples are replayed natively
	TimeoutMs    int               `json:"timeout_ms,omitempty"`
}

type KnownFinding struct {
	Property   string `json:"property"`
	ID         string `json:"id"`
	Status     string `json:"status"` // known | fixed
	What       string `json:"what"`
	Commit     string `json:"commit,omitempty"`
	Obligation string `json:"obligation,omitempty"`
}

type KnownFile struct {
	Findings []KnownFinding `json:"findings"`
	Log      []string       `json:"log"`
}

func must(err error) {
	if err != nil {
		fmt.Fprintln(os.Stderr, "gosmt:", err)
		os.Exit(2)
	}
}

func main() {
	var (
		verifDir = flag.String("verif", "/verif", "verification directory")
		repoDir  = flag.String("repo", "/repo", "repository root")
		prop     = flag.String("prop", "", "property id")
		tier     = flag.String("tier", "quick", "quick|thorough")
		only     = flag.String("only", "", "comma-separated entry names to run (debug)")
		logSMT   = flag.String("logsmt", "", "prefix for SMT logs (debug)")
		workers  = flag.Int("workers", 0, "worker count (default: 16 / entries)")
		solver   = flag.String("solver", "z3", "z3|z3-new|cvc5")
		noEvid   = flag.Bool("no-evidence", false, "do not write the evidence file (debug)")
		verbose  = flag.Bool("v", false, "verbose")
		maxPaths = flag.Int("maxpaths", 0, "override the path bound (debug)")
		scanOnly = flag.Bool("scan", false, "print the nondeterminism sites and exit (debug)")
		replay   = flag.String("replay", "", "replay a counterexample file natively and exit")
	)
	flag.Parse()
	if t := os.Getenv("VERIF_TIER"); t != "" && !flagSet("tier") {
		*tier = t
	}
	seed := int64(0)
	if s := os.Getenv("VERIF_SEED"); s != "" {
		fmt.Sscan(s, &seed)
	}
	t0 := time.Now()
	if *verbose {
		var mu sync.Mutex
		n := 0
		SlowLog = func(d time.Duration, res string, asserts []string) {
			mu.Lock()
			defer mu.Unlock()
			n++
			if n <= 12 {
				fmt.Fprintf(os.Stderr, "  slow query %.1fs -> %s: %s\n", d.Seconds(), res, trunc(strings.Join(asserts, " ; "), 600))
			}
		}
	}

	var checks map[string]*CheckCfg
	bz, err := os.ReadFile(filepath.Join(*verifDir, "checks.json"))
	must(err)
	must(json.Unmarshal(bz, &checks))
	cc := checks[*prop]
	if cc == nil {
		must(fmt.Errorf("no check configured for property %q", *prop))
	}
	var kf KnownFile
	if bz, err := os.ReadFile(filepath.Join(*verifDir, "known_findings.json")); err == nil {
		must(json.Unmarshal(bz, &kf))
	}
	known := map[string]bool{}
	knownWhat := map[string]KnownFinding{}
	for _, f := range kf.Findings {
		if f.Property == *prop && f.Status == "known" {
			known[f.ID] = true
			knownWhat[f.ID] = f
		}
	}

	if *replay != "" {
		r := replayNative(*verifDir, *repoDir, cc, *replay)
		bz, _ := json.MarshalIndent(r, "", " ")
		fmt.Println(string(bz))
		if r.Supported && r.Confirmed {
			fmt.Printf("VIOLATION property=%s replay=%s\n", *prop, *replay)
			os.Exit(1)
		}
		if !r.Supported {
			os.Exit(2)
		}
		os.Exit(0)
	}
	// ---- load ----
	overlay := map[string][]byte{}
	rtSrc, err := os.ReadFile(filepath.Join(*verifDir, "rt", "rt.go"))
	must(err)
	overlay[filepath.Join(*repoDir, "zzverifrt", "rt.go")] = rtSrc
	var patterns []string
	harnessFiles := map[string]bool{}
	for _, u := range cc.Units {
		patterns = append(patterns, "./"+u.Pkg)
		for _, f := range u.Files {
			src, err := os.ReadFile(filepath.Join(*verifDir, f))
			must(err)
			virt := filepath.Join(*repoDir, u.Pkg, "zz_verif_"+filepath.Base(f))
			overlay[virt] = src
			harnessFiles[virt] = true
		}
	}
	cfg := &packages.Config{
		Mode:    packages.LoadAllSyntax,
		Dir:     *repoDir,
		Overlay: overlay,
		Env:     append(os.Environ(), "GOFLAGS=-mod=mod", "GOPROXY=off", "GOSUMDB=off", "GOTOOLCHAIN=local", "CGO_ENABLED=1"),
	}
	pkgs, err := packages.Load(cfg, patterns...)
	must(err)
	nerr := 0
	packages.Visit(pkgs, nil, func(p *packages.Package) {
		for _, e := range p.Errors {
			if strings.HasPrefix(p.PkgPath, teleportMod) {
				fmt.Fprintln(os.Stderr, "load error:", e)
				nerr++
			}
		}
	})
	if nerr > 0 {
		writeBroken(*verifDir, *prop, *tier, seed, t0, "harness or repository does not type-check", *noEvid)
		fmt.Println("INCONCLUSIVE property=" + *prop + " reason=load-errors")
		os.Exit(2)
	}
	loadS := time.Since(t0).Seconds()
	prog, spkgs := ssautil.AllPackages(pkgs, ssa.InstantiateGenerics)
	for _, sp := range spkgs {
		if sp != nil {
			sp.Build()
		}
	}
	prog.Build()

	if *scanOnly {
		for _, st := range scanSites(prog, harnessFiles) {
			fmt.Printf("%s\t%s\t%d\t%s\t%s\n", st.Kind, st.Func, st.N, st.Pos, st.What)
		}
		return
	}
	// ---- entries ----
	var entries []*ssa.Function
	onlySet := map[string]bool{}
	for _, n := range strings.Split(*only, ",") {
		if n != "" {
			onlySet[n] = true
		}
	}
	thoroughOnly := map[string]bool{}
	for _, n := range cc.ThoroughOnly {
		thoroughOnly[n] = true
	}
	for _, sp := range spkgs {
		if sp == nil {
			continue
		}
		for _, m := range sp.Members {
			fn, ok := m.(*ssa.Function)
			if !ok || !strings.HasPrefix(fn.Name(), "Verif"+*prop) {
				continue
			}
			file := prog.Fset.Position(fn.Pos()).Filename
			if !harnessFiles[file] {
				continue
			}
			if len(onlySet) > 0 && !onlySet[fn.Name()] {
				continue
			}
			if len(cc.Entries) > 0 && !contains(cc.Entries, fn.Name()) {
				continue
			}
			if thoroughOnly[fn.Name()] && *tier != "thorough" {
				continue
			}
			entries = append(entries, fn)
		}
	}
	sort.Slice(entries, func(i, j int) bool { return entries[i].Name() < entries[j].Name() })
	if len(entries) == 0 {
		must(fmt.Errorf("no harness entry functions found for %s", *prop))
	}

	// ---- run ----
	nw := *workers
	if nw == 0 {
		nw = 16 / len(entries)
		if nw < 4 {
			nw = 4
		}
	}
	results := make([]*Explorer, len(entries))
	var wg sync.WaitGroup
	sem := make(chan bool, 8)
	for i, e := range entries {
		wg.Add(1)
		go func(i int, e *ssa.Function) {
			defer wg.Done()
			sem <- true
			defer func() { <-sem }()
			c := &Config{MaxSteps: 4000000, MaxBlockVisits: 400, MaxEnum: 8, MaxPaths: 20000, Workers: nw, TimeoutMs: 12000,
				InjectiveSprintf: true, Solver: *solver, LogSMT: *logSMT, Known: known, Tier: *tier, Seed: seed, DecodeMaxLen: 2, ParamMaxLen: 2}
			if cc.MaxPaths > 0 {
				c.MaxPaths = cc.MaxPaths
			}
			if *maxPaths > 0 {
				c.MaxPaths = *maxPaths
			}
			if cc.TimeoutMs > 0 {
				c.TimeoutMs = cc.TimeoutMs
			}
			ex := NewExplorer(prog, e, c)
			ex.expectedReach = scanReach(e, harnessFiles, prog)
			ex.Run()
			results[i] = ex
			if *verbose {
				for _, n := range ex.initNotes {
					fmt.Fprintln(os.Stderr, "  init:", n)
				}
				for _, n := range ex.engineErrs {
					fmt.Fprintln(os.Stderr, "  engine:", n)
				}
				type kv struct {
					k string
					v int
				}
				var fs []kv
				for k, v := range ex.forkSites {
					fs = append(fs, kv{k, v})
				}
				sort.Slice(fs, func(i, j int) bool { return fs[i].v > fs[j].v })
				for i := 0; i < len(fs) && i < 12; i++ {
					fmt.Fprintf(os.Stderr, "  fork %6d %s\n", fs[i].v, fs[i].k)
				}
				fmt.Fprintf(os.Stderr, "[%s] paths=%d states=%d obligations=%d time=%.1fs\n", e.Name(), ex.paths, ex.states, len(ex.obs), time.Since(ex.start).Seconds())
			}
		}(i, e)
	}
	wg.Wait()

	var extraInconclusive []string
	var siteReport map[string]interface{}
	if cc.ScanSites != "" {
		extraInconclusive, siteReport = checkSites(prog, harnessFiles, filepath.Join(*verifDir, cc.ScanSites), entries)
	}
	replayer := func(path string) ReplayResult { return replayNative(*verifDir, *repoDir, cc, path) }
	code := report(*verifDir, *prop, *tier, seed, t0, loadS, cc, entries, results, knownWhat, *noEvid, prog, extraInconclusive, siteReport, replayer)
	os.Exit(code)
}

func contains(xs []string, s string) bool {
	for _, x := range xs {
		if x == s {
			return true
		}
	}
	return false
}

func flagSet(name string) bool {
	set := false
	flag.Visit(func(f *flag.Flag) {
		if f.Name == name {
			set = true
		}
	})
	return set
}

// scanReach lists the constant ids passed to rt.Reach in the entry and the harness functions it references.
func scanReach(entry *ssa.Function, harnessFiles map[string]bool, prog *ssa.Program) []string {
	seen := map[*ssa.Function]bool{}
	ids := map[string]bool{}
	var visit func(f *ssa.Function)
	visit = func(f *ssa.Function) {
		if f == nil || seen[f] {
			return
		}
		seen[f] = true
		pos := prog.Fset.Position(f.Pos()).Filename
		if f != entry && !harnessFiles[pos] {
			if f.Parent() == nil || !seen[f.Parent()] {
				return
			}
		}
		for _, af := range f.AnonFuncs {
			visit(af)
		}
		for _, b := range f.Blocks {
			for _, ins := range b.Instrs {
				var ops [16]*ssa.Value
				for _, op := range ins.Operands(ops[:0]) {
					if op == nil || *op == nil {
						continue
					}
					if g, ok := (*op).(*ssa.Function); ok {
						visit(g)
					}
					if mc, ok := (*op).(*ssa.MakeClosure); ok {
						visit(mc.Fn.(*ssa.Function))
					}
				}
				if c, ok := ins.(ssa.CallInstruction); ok {
					cc := c.Common()
					if callee := cc.StaticCallee(); callee != nil && callee.Pkg != nil && callee.Pkg.Pkg.Path() == rtPkg && callee.Name() == "Reach" {
						if k, ok := cc.Args[0].(*ssa.Const); ok {
							ids[strings.Trim(k.Value.ExactString(), "\"")] = true
						}
					}
					// methods of harness types invoked dynamically
					if cc.Method != nil {
						continue
					}
				}
			}
		}
	}
	visit(entry)
	// also all methods of types declared in harness files of the entry's package (stubs called through interfaces)
	if entry.Pkg != nil {
		for _, m := range entry.Pkg.Members {
			if t, ok := m.(*ssa.Type); ok {
				if !harnessFiles[prog.Fset.Position(t.Pos()).Filename] {
					continue
				}
				for _, tt := range []types.Type{t.Type(), types.NewPointer(t.Type())} {
					ms := prog.MethodSets.MethodSet(tt)
					for i := 0; i < ms.Len(); i++ {
						_ = i
					}
				}
			}
		}
	}
	var out []string
	for k := range ids {
		out = append(out, k)
	}
	sort.Strings(out)
	return out
}

func ssautilAll(prog *ssa.Program) map[*ssa.Function]bool { return ssautil.AllFunctions(prog) }
