package main

// A live solver process (z3 -in by default) driven over a pipe with push/pop.

import (
	"bufio"
	"fmt"
	"io"
	"os/exec"
	"strings"
	"sync/atomic"
	"time"
)

type scope struct {
	declared map[string]bool
	defined  map[int]string
}

type Solver struct {
	name        string
	cmd         *exec.Cmd
	in          io.WriteCloser
	out         *bufio.Reader
	scopes      []*scope
	log         io.Writer
	Queries     int
	Errors      []string
	LastReason  string
	lines       chan string
	Dead        bool
	hardTimeout time.Duration
	kind        string
	timeoutMs   int
	Time        time.Duration
}

var totalQueries, totalSolverNs int64

func solverArgv(kind string, timeoutMs int) []string {
	switch kind {
	case "z3":
		return []string{"z3", "-in", "-smt2", fmt.Sprintf("-t:%d", timeoutMs)}
	case "z3-new":
		return []string{"z3-new", "-in", "-smt2", fmt.Sprintf("-t:%d", timeoutMs)}
	case "cvc5":
		return []string{"cvc5", "--incremental", "--lang=smt2", "--produce-models", fmt.Sprintf("--tlimit-per=%d", timeoutMs)}
	}
	panic("unknown solver " + kind)
}

func NewSolver(kind string, timeoutMs int, log io.Writer) (*Solver, error) {
	argv := solverArgv(kind, timeoutMs)
	cmd := exec.Command(argv[0], argv[1:]...)
	in, err := cmd.StdinPipe()
	if err != nil {
		return nil, err
	}
	outp, err := cmd.StdoutPipe()
	if err != nil {
		return nil, err
	}
	cmd.Stderr = cmd.Stdout
	if err := cmd.Start(); err != nil {
		return nil, err
	}
	s := &Solver{name: kind, cmd: cmd, in: in, out: bufio.NewReaderSize(outp, 1<<20), log: log}
	s.hardTimeout = time.Duration(timeoutMs)*time.Millisecond + 10*time.Second
	s.kind, s.timeoutMs = kind, timeoutMs
	s.lines = make(chan string, 1<<16)
	go func() {
		// drain the solver's output continuously so that a burst of (error ...) lines can never block it
		for {
			line, err := s.out.ReadString('\n')
			if line != "" {
				s.lines <- line
			}
			if err != nil {
				close(s.lines)
				return
			}
		}
	}()
	s.scopes = []*scope{{declared: map[string]bool{}, defined: map[int]string{}}}
	if kind == "cvc5" {
		s.send("(set-logic ALL)")
	}
	s.send("(set-option :produce-models true)")
	s.send("(declare-sort Str 0)")
	return s, nil
}

func (s *Solver) Close() {
	if s.cmd != nil {
		s.in.Close()
		s.cmd.Process.Kill()
		s.cmd.Wait()
		s.cmd = nil
	}
}

func (s *Solver) send(line string) {
	if s.Dead {
		return
	}
	if s.log != nil {
		fmt.Fprintln(s.log, line)
	}
	io.WriteString(s.in, line)
	io.WriteString(s.in, "\n")
}

func (s *Solver) Push() {
	s.send("(push 1)")
	s.scopes = append(s.scopes, &scope{declared: map[string]bool{}, defined: map[int]string{}})
}
func (s *Solver) Pop() {
	s.send("(pop 1)")
	s.scopes = s.scopes[:len(s.scopes)-1]
}

func (s *Solver) isDeclared(n string) bool {
	for _, sc := range s.scopes {
		if sc.declared[n] {
			return true
		}
	}
	return false
}
func (s *Solver) definedName(id int) (string, bool) {
	for _, sc := range s.scopes {
		if n, ok := sc.defined[id]; ok {
			return n, true
		}
	}
	return "", false
}

// prepare emits declarations and shared-subterm definitions for t and returns its text.
func (s *Solver) prepare(t *Term) string {
	decls := map[string]string{}
	collectDecls(t, map[int]bool{}, decls)
	top := s.scopes[len(s.scopes)-1]
	for _, k := range sortedKeys(decls) {
		if !s.isDeclared(k) {
			s.send(decls[k])
			top.declared[k] = true
		}
	}
	// shared subterms -> define-fun, in post-order
	refs := map[int]int{}
	var count func(t *Term)
	count = func(t *Term) {
		refs[t.id]++
		if refs[t.id] > 1 {
			return
		}
		for _, a := range t.args {
			count(a)
		}
	}
	count(t)
	names := map[int]string{}
	for _, sc := range s.scopes {
		for id, n := range sc.defined {
			names[id] = n
		}
	}
	var visit func(t *Term)
	done := map[int]bool{}
	visit = func(t *Term) {
		if done[t.id] {
			return
		}
		done[t.id] = true
		if _, ok := names[t.id]; ok {
			return
		}
		for _, a := range t.args {
			visit(a)
		}
		if refs[t.id] > 1 && len(t.args) > 0 {
			var sb strings.Builder
			t.write(&sb, names)
			if sb.Len() > 40 {
				n := fmt.Sprintf("d!%d", t.id)
				s.send(fmt.Sprintf("(define-fun %s () %s %s)", n, t.sort, sb.String()))
				names[t.id] = n
				top.defined[t.id] = n
			}
		}
	}
	visit(t)
	var sb strings.Builder
	t.write(&sb, names)
	return sb.String()
}

func (s *Solver) Assert(t *Term) {
	if t.IsTrue() {
		return
	}
	txt := s.prepare(t)
	s.send("(assert " + txt + ")")
}

// Check returns "sat", "unsat" or "unknown" (the latter also for errors, which are recorded).
func (s *Solver) Check() string {
	t0 := time.Now()
	s.send("(check-sat)")
	res := "unknown"
	for {
		var line string
		var ok bool
		if s.Dead {
			res = "unknown"
			break
		}
		select {
		case line, ok = <-s.lines:
		case <-time.After(s.hardTimeout):
			// the solver ignores its soft timeout (typically while bit-blasting): kill it; the path is inconclusive
			s.Dead = true
			s.LastReason = "hard timeout: solver killed"
			s.cmd.Process.Kill()
			ok = true
			line = "unknown"
		}
		if !ok {
			s.Errors = append(s.Errors, "solver died")
			s.Dead = true
			res = "unknown"
			break
		}
		line = strings.TrimSpace(line)
		if s.log != nil {
			fmt.Fprintln(s.log, "; <- "+line)
		}
		if line == "sat" || line == "unsat" || line == "unknown" || line == "timeout" {
			res = line
			if line == "timeout" {
				res = "unknown"
			}
			break
		}
		if strings.HasPrefix(line, "(error") {
			s.Errors = append(s.Errors, line)
			continue
		}
	}
	if res == "unknown" && len(s.Errors) == 0 && s.cmd != nil && !s.Dead {
		s.send("(get-info :reason-unknown)")
		s.LastReason = strings.TrimSpace(s.readSexp())
	}
	d := time.Since(t0)
	s.Queries++
	s.Time += d
	atomic.AddInt64(&totalQueries, 1)
	atomic.AddInt64(&totalSolverNs, int64(d))
	if len(s.Errors) > 0 {
		return "unknown"
	}
	return res
}

// CheckWith runs check-sat under extra assumptions in a nested scope.
func (s *Solver) CheckWith(ts ...*Term) string {
	// definitions must be emitted at the enclosing level so they survive the pop
	texts := make([]string, 0, len(ts))
	for _, t := range ts {
		if t.IsFalse() {
			return "unsat"
		}
		texts = append(texts, s.prepare(t))
	}
	s.send("(push 1)")
	for _, x := range texts {
		s.send("(assert " + x + ")")
	}
	t0 := time.Now()
	r := s.Check()
	if d := time.Since(t0); d > 3*time.Second && SlowLog != nil {
		SlowLog(d, r, texts)
	}
	s.send("(pop 1)")
	return r
}

// SlowLog, when set, is told about queries that take longer than 3 s.
var SlowLog func(d time.Duration, res string, asserts []string)

// readSexp reads one balanced s-expression (or atom line) from the solver.
func (s *Solver) readSexp() string {
	var sb strings.Builder
	depth := 0
	started := false
	inBar := false
	inStr := false
	for {
		if s.Dead {
			return sb.String()
		}
		line, ok := <-s.lines
		if !ok {
			return sb.String()
		}
		sb.WriteString(line)
		for i := 0; i < len(line); i++ {
			c := line[i]
			if inBar {
				if c == '|' {
					inBar = false
				}
				continue
			}
			if inStr {
				if c == '"' {
					inStr = false
				}
				continue
			}
			switch c {
			case '|':
				inBar = true
			case '"':
				inStr = true
			case '(':
				depth++
				started = true
			case ')':
				depth--
			}
		}
		if started && depth <= 0 {
			return sb.String()
		}
		if !started && strings.TrimSpace(sb.String()) != "" {
			return sb.String()
		}
	}
}

// ModelWith checks sat under extra assumptions and, if sat, evaluates the given terms in the model.
// Returns result and the values as raw SMT-LIB text, aligned with terms.
func (s *Solver) ModelWith(assume []*Term, terms []*Term) (string, []string) {
	texts := make([]string, 0, len(assume))
	for _, t := range assume {
		texts = append(texts, s.prepare(t))
	}
	var tt []string
	for _, t := range terms {
		tt = append(tt, s.prepare(t))
	}
	s.send("(push 1)")
	for _, x := range texts {
		s.send("(assert " + x + ")")
	}
	r := s.Check()
	var vals []string
	if r == "sat" {
		for _, x := range tt {
			s.send("(get-value (" + x + "))")
			resp := strings.TrimSpace(s.readSexp())
			if s.log != nil {
				fmt.Fprintln(s.log, "; <- "+resp)
			}
			// resp = ((expr value))
			v := resp
			if strings.HasPrefix(resp, "((") && strings.HasSuffix(resp, "))") {
				inner := resp[2 : len(resp)-2]
				// value is the last balanced item
				v = lastItem(inner)
			}
			vals = append(vals, v)
		}
	}
	s.send("(pop 1)")
	return r, vals
}

func lastItem(s string) string {
	s = strings.TrimSpace(s)
	if strings.HasSuffix(s, ")") {
		depth := 0
		for i := len(s) - 1; i >= 0; i-- {
			switch s[i] {
			case ')':
				depth++
			case '(':
				depth--
				if depth == 0 {
					return s[i:]
				}
			}
		}
	}
	if strings.HasSuffix(s, "|") {
		i := strings.LastIndex(s[:len(s)-1], "|")
		if i >= 0 {
			return s[i:]
		}
	}
	i := strings.LastIndexAny(s, " \t\n")
	return s[i+1:]
}
