package main

import (
	"fmt"
	"os"
	"runtime/debug"
	"sort"
	"strconv"
	"strings"
	"sync"
	"time"

	"golang.org/x/tools/go/ssa"
)

type Config struct {
	MaxSteps         int
	MaxBlockVisits   int
	MaxEnum          int
	MaxPaths         int
	Workers          int
	TimeoutMs        int
	InjectiveConcat  bool
	InjectiveSprintf bool
	ExactDecimal     bool
	StructuredKeys   bool
	DecodeMaxLen     int
	DecodeMaxAt      map[string]int
	ParamMaxLen      int
	Solver           string
	LogSMT           string
	Known            map[string]bool // ids of findings with status "known"
	Tier             string
	Seed             int64
}

type Cex struct {
	Harness    string            `json:"harness"`
	Pkg        string            `json:"pkg,omitempty"` // package of the harness relative to the module (a harness file may be shared by several packages)
	Obligation string            `json:"obligation"`
	Kind       string            `json:"kind"` // "new" or "known:<id>"
	Desc       string            `json:"desc"`
	Values     []CexValue        `json:"values"`
	PathNotes  []string          `json:"path_notes,omitempty"`
	Decisions  []bool            `json:"decisions"`
	Extra      map[string]string `json:"extra,omitempty"`
	Literals   map[string]string `json:"literals,omitempty"` // abstract string element -> literal content
	Lens       map[string]uint64 `json:"lens,omitempty"`     // abstract string element -> its length in the model
}

type CexValue struct {
	Kind  string   `json:"kind"`
	Tag   string   `json:"tag"`
	Vals  []string `json:"vals"`
	Extra string   `json:"extra,omitempty"`
}

type ObStat struct {
	Checked    int
	Discharged int
	Violated   int
	KnownHits  map[string]int
	Sample     string
}

type Explorer struct {
	prog  *ssa.Program
	entry *ssa.Function
	cfg   *Config

	mu            sync.Mutex
	cond          *sync.Cond
	queue         [][]bool
	active        int
	paths         int
	pathsDead     int
	states        int
	transitions   int
	obs           map[string]*ObStat
	cexs          []*Cex
	knownSeen     map[string]*Cex
	reach         map[string]int
	reachSample   map[string][]CexValue
	reachCex      map[string]*Cex // the full witness (values, literal table, lengths): replayed natively for replayable harnesses
	engineErrs    []string
	unwinds       []string
	unknowns      []string
	funcs         map[string]int
	modelsUsed    map[string]int
	overridesUsed map[string]int
	autoUsed      map[string]int
	panicsSeen    map[string]int
	forkSites     map[string]int
	stopped       bool

	gmu           sync.Mutex
	globals       map[*ssa.Global]Ptr
	inited        map[*ssa.Package]bool
	initPath      *Path
	initAxioms    []*Term
	initNotes     []string
	start         time.Time
	expectedReach []string
}

func NewExplorer(prog *ssa.Program, entry *ssa.Function, cfg *Config) *Explorer {
	ex := &Explorer{prog: prog, entry: entry, cfg: cfg,
		obs: map[string]*ObStat{}, knownSeen: map[string]*Cex{}, reach: map[string]int{}, reachSample: map[string][]CexValue{}, reachCex: map[string]*Cex{},
		funcs: map[string]int{}, modelsUsed: map[string]int{}, overridesUsed: map[string]int{}, autoUsed: map[string]int{}, panicsSeen: map[string]int{}, forkSites: map[string]int{},
		globals: map[*ssa.Global]Ptr{}, inited: map[*ssa.Package]bool{}}
	ex.cond = sync.NewCond(&ex.mu)
	ex.initPath = &Path{ex: ex, isInit: true, lits: map[string]*Term{}, litVal: map[string]string{}, lenAx: map[int]bool{}, inj: map[string][]*Term{}, known: map[string]*Term{}, stores: map[string]*StoreData{}, fmtNames: map[string]string{}, fmtLenAx: map[int]bool{}}
	return ex
}

func (ex *Explorer) noteFunc(fn *ssa.Function) {
	ex.mu.Lock()
	ex.funcs[fn.String()]++
	ex.mu.Unlock()
}
func (ex *Explorer) noteModel(k string)    { ex.mu.Lock(); ex.modelsUsed[k]++; ex.mu.Unlock() }
func (ex *Explorer) noteOverride(k string) { ex.mu.Lock(); ex.overridesUsed[k]++; ex.mu.Unlock() }
func (ex *Explorer) noteAuto(k string)     { ex.mu.Lock(); ex.autoUsed[k]++; ex.mu.Unlock() }
func (ex *Explorer) noteFork(pos string) {
	ex.mu.Lock()
	ex.forkSites[pos]++
	ex.mu.Unlock()
}

func (ex *Explorer) noteUnknown(s string) {
	ex.mu.Lock()
	if len(ex.unknowns) < 50 {
		ex.unknowns = append(ex.unknowns, s)
	}
	ex.mu.Unlock()
}

func (ex *Explorer) enqueue(prefix []bool) {
	ex.mu.Lock()
	ex.queue = append(ex.queue, prefix)
	ex.mu.Unlock()
	ex.cond.Signal()
}

func (ex *Explorer) newInterp(p *Path) *Interp {
	return &Interp{prog: ex.prog, ex: ex, p: p, globals: ex.globals, inited: ex.inited, overrides: map[string]Val{}, inOverride: map[string]bool{}, abstracted: map[string]bool{}}
}

// initPackages runs the initialisers of all teleport packages in dependency order (single-threaded).
func (ex *Explorer) initPackages() {
	it := ex.newInterp(ex.initPath)
	it.inInit = 1
	var pkgs []*ssa.Package
	for _, p := range ex.prog.AllPackages() {
		if isTeleportPkg(p) && p.Pkg.Path() != rtPkg {
			pkgs = append(pkgs, p)
		}
	}
	// order by import depth
	depth := map[string]int{}
	var dep func(p *ssa.Package) int
	dep = func(p *ssa.Package) int {
		if d, ok := depth[p.Pkg.Path()]; ok {
			return d
		}
		depth[p.Pkg.Path()] = 0
		d := 0
		for _, imp := range p.Pkg.Imports() {
			if ip := ex.prog.Package(imp); ip != nil && isTeleportPkg(ip) {
				if x := dep(ip) + 1; x > d {
					d = x
				}
			}
		}
		depth[p.Pkg.Path()] = d
		return d
	}
	sort.Slice(pkgs, func(i, j int) bool {
		di, dj := dep(pkgs[i]), dep(pkgs[j])
		if di != dj {
			return di < dj
		}
		return pkgs[i].Pkg.Path() < pkgs[j].Pkg.Path()
	})
	for _, p := range pkgs {
		ex.inited[p] = true
		func() {
			defer func() {
				if r := recover(); r != nil {
					ex.initNotes = append(ex.initNotes, fmt.Sprintf("init of %s incomplete: %v", p.Pkg.Path(), r))
					it.top = nil
					it.depth = 0
				}
			}()
			it.runInit(p)
		}()
	}
}

func (ex *Explorer) Run() {
	ex.start = time.Now()
	ex.initPackages()
	ex.queue = append(ex.queue, []bool{})
	var wg sync.WaitGroup
	for w := 0; w < ex.cfg.Workers; w++ {
		wg.Add(1)
		go func(w int) {
			defer wg.Done()
			var logf *os.File
			if ex.cfg.LogSMT != "" {
				logf, _ = os.Create(fmt.Sprintf("%s.%s.%d.smt2", ex.cfg.LogSMT, ex.entry.Name(), w))
				defer logf.Close()
			}
			var lw *os.File = logf
			var s *Solver
			var err error
			if lw != nil {
				s, err = NewSolver(ex.cfg.Solver, ex.cfg.TimeoutMs, lw)
			} else {
				s, err = NewSolver(ex.cfg.Solver, ex.cfg.TimeoutMs, nil)
			}
			if err != nil {
				ex.mu.Lock()
				ex.engineErrs = append(ex.engineErrs, "cannot start solver: "+err.Error())
				ex.mu.Unlock()
				return
			}
			defer func() { s.Close() }()
			for {
				ex.mu.Lock()
				for len(ex.queue) == 0 && ex.active > 0 && !ex.stopped {
					ex.cond.Wait()
				}
				if len(ex.queue) == 0 || ex.stopped {
					ex.mu.Unlock()
					ex.cond.Broadcast()
					return
				}
				// depth-first: take the most recent
				prefix := ex.queue[len(ex.queue)-1]
				ex.queue = ex.queue[:len(ex.queue)-1]
				ex.active++
				ex.paths++
				if ex.paths > ex.cfg.MaxPaths {
					ex.stopped = true
					ex.unwinds = append(ex.unwinds, fmt.Sprintf("path bound %d exceeded", ex.cfg.MaxPaths))
				}
				ex.mu.Unlock()
				if s.Dead {
					s.Close()
					s, err = NewSolver(ex.cfg.Solver, ex.cfg.TimeoutMs, nil)
					if err != nil {
						ex.recordEngineErr("cannot restart solver: " + err.Error())
						return
					}
				}
				ex.runPath(s, prefix)
				ex.mu.Lock()
				ex.active--
				ex.mu.Unlock()
				ex.cond.Broadcast()
			}
		}(w)
	}
	wg.Wait()
}

func (ex *Explorer) runPath(s *Solver, prefix []bool) {
	p := &Path{ex: ex, s: s, prefix: prefix, lits: map[string]*Term{}, litVal: map[string]string{}, lenAx: map[int]bool{}, inj: map[string][]*Term{}, known: map[string]*Term{}, stores: map[string]*StoreData{}, fmtNames: map[string]string{}, fmtLenAx: map[int]bool{}}
	ip := ex.initPath
	for _, n := range ip.litOrder {
		p.lits[n] = ip.lits[n]
		p.litVal[n] = ip.litVal[n]
		p.litOrder = append(p.litOrder, n)
	}
	for k := range ip.lenAx {
		p.lenAx[k] = true
	}
	for k, v := range ip.inj {
		p.inj[k] = append([]*Term(nil), v...)
	}
	s.Errors = nil
	s.Push()
	defer s.Pop()
	for _, a := range ex.initAxioms {
		s.Assert(a)
	}
	it := ex.newInterp(p)
	p.curInst = func() string {
		if it.top != nil && it.top.curInst != nil {
			return ex.prog.Fset.Position(it.top.curInst.Pos()).String() + " " + it.top.fn.Name()
		}
		return "?"
	}
	defer func() {
		if r := recover(); r != nil {
			switch e := r.(type) {
			case pathEnd:
				ex.mu.Lock()
				ex.pathsDead++
				ex.mu.Unlock()
			case targetPanic:
				// an unguarded panic of the target inside a harness: treated as an obligation failure "no-panic"
				func() {
					defer func() {
						if r2 := recover(); r2 != nil {
							if _, ok := r2.(pathEnd); !ok {
								ex.recordEngineErr(fmt.Sprint(r2))
							}
						}
					}()
					it.obligation("uncaught-panic", TFalse, e.desc)
				}()
			case engineErr:
				ex.recordEngineErr(e.msg)
			case unwindErr:
				ex.mu.Lock()
				if len(ex.unwinds) < 20 {
					ex.unwinds = append(ex.unwinds, e.msg)
				}
				ex.mu.Unlock()
			default:
				ex.recordEngineErr(fmt.Sprintf("internal error: %v\n%s", r, debug.Stack()))
			}
		}
	}()
	it.callFunction(ex.entry, nil, nil)
}

func (ex *Explorer) recordEngineErr(msg string) {
	ex.mu.Lock()
	defer ex.mu.Unlock()
	for _, e := range ex.engineErrs {
		if e == msg {
			return
		}
	}
	if len(ex.engineErrs) < 30 {
		ex.engineErrs = append(ex.engineErrs, msg)
	}
}

// obligation checks cond under the path condition; known-finding predicates split the verdict.
func (it *Interp) obligation(id string, cond *Term, desc string) {
	p := it.p
	ex := it.ex
	ex.mu.Lock()
	st := ex.obs[id]
	if st == nil {
		st = &ObStat{KnownHits: map[string]int{}}
		ex.obs[id] = st
	}
	st.Checked++
	ex.mu.Unlock()
	if cond.IsTrue() {
		ex.mu.Lock()
		st.Discharged++
		ex.mu.Unlock()
		return
	}
	neg := Not(cond)
	// known findings: K predicates declared on this path
	var ks []string
	for k := range p.known {
		ks = append(ks, k)
	}
	sort.Strings(ks)
	notK := []*Term{neg}
	for _, k := range ks {
		notK = append(notK, Not(p.known[k]))
	}
	srcTerms := p.queryTerms()
	r, vals := p.s.ModelWith(notK, srcTerms)
	violated := false
	switch r {
	case "sat":
		violated = true
		cex := p.buildCex(id, "new", desc, vals)
		cex.Extra["condition"] = trunc(cond.String(), 3000)
		ex.mu.Lock()
		st.Violated++
		if len(ex.cexs) < 40 {
			ex.cexs = append(ex.cexs, cex)
		}
		ex.mu.Unlock()
	case "unknown":
		ex.noteUnknown("obligation " + id + ": " + p.lastErr())
	}
	for _, k := range ks {
		r2, vals2 := p.s.ModelWith([]*Term{neg, p.known[k]}, srcTerms)
		if r2 == "sat" {
			ex.mu.Lock()
			st.KnownHits[k]++
			if _, ok := ex.knownSeen[k]; !ok {
				ex.knownSeen[k] = p.buildCex(id, "known:"+k, desc, vals2)
			}
			ex.mu.Unlock()
		} else if r2 == "unknown" {
			ex.noteUnknown("obligation " + id + " (known " + k + "): " + p.lastErr())
		}
	}
	if !violated && r == "unsat" {
		ex.mu.Lock()
		st.Discharged++
		if st.Sample == "" {
			st.Sample = fmt.Sprintf("%s: unsat(pc[%d conjuncts] ∧ ¬(%s))", id, len(p.pc), trunc(cond.String(), 300))
		}
		ex.mu.Unlock()
	}
	// continue under the assumption that the obligation holds
	if cond.IsFalse() {
		panic(pathEnd{"obligation false"})
	}
	p.assume(cond)
}

func trunc(s string, n int) string {
	if len(s) > n {
		return s[:n] + "…"
	}
	return s
}

func (p *Path) sourceTerms() []*Term {
	var ts []*Term
	for _, s := range p.sources {
		ts = append(ts, s.Terms...)
	}
	return ts
}

// queryTerms: everything a counterexample reports - the sources, the literal table, and the length of every opaque string source.
func (p *Path) queryTerms() []*Term {
	ts := p.sourceTerms()
	n := len(ts)
	for _, l := range p.litOrder {
		ts = append(ts, p.lits[l])
	}
	for _, t := range ts[:n] {
		if t.sort == SStr {
			ts = append(ts, App("len", bvSort(64), t))
		}
	}
	return ts
}

func (p *Path) buildCex(id, kind, desc string, vals []string) *Cex {
	c := &Cex{Harness: p.ex.entry.Name(), Pkg: entryPkgRel(p.ex.entry), Obligation: id, Kind: kind, Desc: desc, PathNotes: append([]string(nil), p.notes...)}
	for _, d := range p.trace {
		c.Decisions = append(c.Decisions, d.val)
	}
	i := 0
	for _, s := range p.sources {
		cv := CexValue{Kind: s.Kind, Tag: s.Tag, Extra: s.Extra}
		for range s.Terms {
			if i < len(vals) {
				cv.Vals = append(cv.Vals, strings.TrimSpace(vals[i]))
			}
			i++
		}
		c.Values = append(c.Values, cv)
	}
	// literal table so that replays can map abstract string elements back to literals
	c.Extra = map[string]string{}
	c.Literals = map[string]string{}
	for _, n := range p.litOrder {
		if i < len(vals) {
			c.Literals[strings.TrimSpace(vals[i])] = p.litVal[n]
		}
		i++
	}
	c.Lens = map[string]uint64{}
	k := 0
	for _, s := range p.sources {
		for _, t := range s.Terms {
			if t.sort == SStr {
				if i < len(vals) && k < len(vals) {
					if n, err := strconv.ParseUint(strings.TrimPrefix(strings.TrimSpace(vals[i]), "#x"), 16, 64); err == nil {
						c.Lens[strings.TrimSpace(vals[k])] = n
					}
				}
				i++
			}
			k++
		}
	}
	return c
}

func entryPkgRel(f *ssa.Function) string {
	if f == nil || f.Pkg == nil {
		return ""
	}
	return strings.TrimPrefix(strings.TrimPrefix(f.Pkg.Pkg.Path(), teleportMod), "/")
}
