package main

// Engine-side models of sdk.Context, KV stores (havoc / empty base + write log, cache scopes), prefix stores.

import (
	"fmt"
)

type storeWrite struct {
	key *StrV
	val *StrV
	del bool
}

type StoreData struct {
	name   string
	parent *StoreData
	havoc  bool
	has0   *Term
	val0   *Term
	log    []storeWrite
	reads  int
	gets   int // Get/Has calls made through this scope (gas is charged per access)
}

type CtxData struct {
	id      int
	parent  *CtxData
	stores  map[string]*StoreData
	havoc   bool
	time    TimeV
	height  *Term
	chainID *StrV
	events  *Native
	values  map[string]Val
	isCheck *Term
}

type StoreView struct {
	base   *StoreData
	prefix *StrV // may be nil
}

func (it *Interp) ctxOf(v Val) *CtxData {
	n, ok := v.(*Native)
	if !ok || n.Kind != "ctx" {
		it.fail("expected sdk.Context, got %s", it.describe(v))
	}
	d, _ := n.Data.(*CtxData)
	if d == nil {
		it.fail("use of zero sdk.Context")
	}
	return d
}

var ctxCounter int

func (it *Interp) newCtx(havoc bool) *Native {
	p := it.p
	ctxCounter++
	d := &CtxData{id: ctxCounter, stores: map[string]*StoreData{}, havoc: havoc, values: map[string]Val{}}
	tn := it.freshTime("ctx.blocktime")
	d.time = TimeV{tn}
	h := Var(p.freshName("blockheight"), bvSort(64))
	p.sources = append(p.sources, Source{Kind: "i64", Tag: "ctx.height", Terms: []*Term{h}})
	p.assertAxiom(BVCmp("bvsge", h, BVu(64, 0)))
	d.height = h
	d.chainID = strLit("teleport_7001-1")
	d.events = &Native{Kind: "eventmanager", Data: &[]Val{}}
	return &Native{Kind: "ctx", Data: d}
}

func (it *Interp) storeFor(d *CtxData, name string) *StoreData {
	if s, ok := d.stores[name]; ok {
		return s
	}
	s := &StoreData{name: name}
	if d.parent != nil {
		s.parent = it.storeFor(d.parent, name)
	} else {
		s.havoc = d.havoc
		if s.havoc {
			s.has0 = Var("has0!"+name, arraySort(SStr, SBool))
			s.val0 = Var("val0!"+name, arraySort(SStr, SStr))
		}
	}
	d.stores[name] = s
	return s
}

func (it *Interp) cacheCtx(d *CtxData) (*Native, Val) {
	ctxCounter++
	c := &CtxData{id: ctxCounter, parent: d, stores: map[string]*StoreData{}, havoc: d.havoc, time: d.time, height: d.height, chainID: d.chainID, values: d.values}
	c.events = &Native{Kind: "eventmanager", Data: &[]Val{}}
	write := &boundModel{f: func(it *Interp, args []Val) Val {
		for name, cs := range c.stores {
			ps := it.storeFor(d, name)
			ps.log = append(ps.log, cs.log...)
			cs.log = nil
		}
		return nil
	}}
	return &Native{Kind: "ctx", Data: c}, write
}

func (it *Interp) fullKey(v *StoreView, key *StrV) *StrV {
	if v.prefix == nil {
		return key
	}
	if it.ex.cfg.StructuredKeys && isPlainB(v.prefix) && isPlainB(key) {
		return it.strConcat(v.prefix, key)
	}
	// opaque keys: concat(prefix, key) as an uninterpreted term so that keys of different prefix families never alias
	return it.strConcatA(v.prefix, key)
}

// storeGet returns the value (nil *StrV if absent).
func (it *Interp) storeGet(v *StoreView, key *StrV) *StrV {
	k := it.fullKey(v, key)
	v.base.gets++
	for s := v.base; s != nil; s = s.parent {
		for i := len(s.log) - 1; i >= 0; i-- {
			w := s.log[i]
			if it.p.branch(it.strEq(w.key, k)) {
				if w.del {
					return nil
				}
				return w.val
			}
		}
		if s.parent == nil {
			if !s.havoc {
				return nil
			}
			ka := it.toA(k)
			has := Select(s.has0, ka)
			s.reads++
			it.p.sources = append(it.p.sources, Source{Kind: "storeget", Tag: s.name, Terms: []*Term{ka, has, Select(s.val0, ka)}})
			if !it.p.branch(has) {
				return nil
			}
			val := Select(s.val0, ka)
			return &StrV{T: val, FromStore: true}
		}
	}
	return nil
}

func (it *Interp) storeSet(v *StoreView, key, val *StrV) {
	if val == nil || val.Nil {
		it.tpanic("store.Set with nil value")
	}
	// the SDK's stores assert a non-empty key on Set (types.AssertValidKey, also in prefix stores, on the key they are given):
	// decided here for structured keys and for keys that are a bare symbolic string (keys assembled from literals are not empty)
	if isPlainB(key) {
		if len(key.Bytes) == 0 {
			it.tpanic("store.Set with an empty key (key is nil)")
		}
	} else if t := it.toA(key); t.op == "var" {
		if _, lit := it.p.litVal[t.name]; !lit {
			if it.p.branch(Eq(it.strLenTerm(t), BVu(64, 0))) {
				it.tpanic("store.Set with an empty key (key is nil)")
			}
		}
	}
	k := it.fullKey(v, key)
	v.base.log = append(v.base.log, storeWrite{key: k, val: val})
	it.p.calllog = append(it.p.calllog, fmt.Sprintf("set %s %s", v.base.name, it.describe(k)))
}

func (it *Interp) storeDelete(v *StoreView, key *StrV) {
	k := it.fullKey(v, key)
	v.base.log = append(v.base.log, storeWrite{key: k, del: true})
}

// storeWrites lists the writes visible in this scope that are not yet in the root (used by harness assertions through rt.StoreDirty).
func storeDirty(s *StoreData) int {
	n := 0
	for ; s != nil; s = s.parent {
		n += len(s.log)
	}
	return n
}
