package main

import (
	"fmt"
	"go/types"

	"golang.org/x/tools/go/ssa"
)

// Val is a run-time value of the symbolic interpreter.
//
//	*Term        bool (Bool), intN/uintN (BV N), float (unsupported)
//	*StrV        string, []byte, [N]byte
//	*StructV     struct
//	*ArrayV      array (non-byte)
//	*Val (Ptr)   pointer (Go pointer to a slot); nil pointer is Ptr(nil)
//	*SliceV      slice (non-byte)
//	*MapV        map
//	IfaceV       interface value
//	*Closure, *ssa.Function, *ssa.Builtin   function values
//	Tuple        multiple results
//	IntV         math/big.Int value (struct), mathematical integer
//	TimeV        time.Time value, mathematical nanoseconds since Unix epoch
//	*Native      engine-side object (context, store, codec, opaque foreign object ...)
type Val interface{}

type Ptr = *Val

type StructV struct {
	T types.Type // named or struct type
	F []Val
}

type ArrayV struct {
	E []Val
}

type SliceV struct {
	Arr      *[]Val // backing store; nil for nil slice
	Off, Len int
	Cap      int
}

type mapEntry struct {
	K, V Val
}
type MapV struct {
	E []mapEntry
}

type IfaceV struct {
	T types.Type // dynamic type (nil for nil interface or native object)
	V Val
}

func (i IfaceV) IsNil() bool { return i.T == nil && i.V == nil }

type Closure struct {
	Fn       *ssa.Function
	Bindings []Val
}

type Tuple []Val

type IntV struct{ T *Term } // sort Int

type TimeV struct{ NS *Term } // sort Int (ns since Unix epoch)

// Native is an engine-side object.
type Native struct {
	Kind string
	Data interface{}
	Tag  string
}

// StrV: string / []byte / byte array.
//   - mode B (structured): Bytes != nil or Len0: concrete length, each byte a BV8 term
//   - mode A (opaque):     T != nil (sort Str), symbolic length len(T)
//   - Boxed != nil: "the canonical encoding of this Go value" (codec output); opaque otherwise
//   - Nil: nil slice
type StrV struct {
	T         *Term
	Bytes     []*Term
	IsB       bool
	IsArr     bool
	fmtLit    bool
	fullKey   bool // iterator key that already includes the iterated prefix
	FromStore bool // read from the arbitrary pre-state of a store (invariant I2: written by the module's setters)
	Nil       bool
	Boxed     Val
	BoxT      types.Type
	BoxK      string // encoding family: "" (codec), "abi"
}

func strLit(s string) *StrV {
	bs := make([]*Term, len(s))
	for i := 0; i < len(s); i++ {
		bs[i] = BVu(8, uint64(s[i]))
	}
	return &StrV{Bytes: bs, IsB: true}
}

// concreteString returns the Go string if all bytes are constants (mode B).
func (s *StrV) concreteString() (string, bool) {
	if !s.IsB {
		return "", false
	}
	b := make([]byte, len(s.Bytes))
	for i, t := range s.Bytes {
		if !t.IsConst() {
			return "", false
		}
		b[i] = byte(t.val.Uint64())
	}
	return string(b), true
}

type targetPanic struct {
	v    Val
	desc string
}

func isByteType(t types.Type) bool {
	b, ok := t.Underlying().(*types.Basic)
	return ok && (b.Kind() == types.Uint8)
}

// isStrLike reports whether values of type t are represented as *StrV.
func isStrLike(t types.Type) bool {
	switch u := t.Underlying().(type) {
	case *types.Basic:
		return u.Info()&types.IsString != 0
	case *types.Slice:
		return isByteType(u.Elem())
	case *types.Array:
		return isByteType(u.Elem())
	}
	return false
}

func namedString(t types.Type) string {
	if n, ok := t.(*types.Named); ok {
		if n.Obj().Pkg() != nil {
			return n.Obj().Pkg().Path() + "." + n.Obj().Name()
		}
		return n.Obj().Name()
	}
	return t.String()
}

func intWidth(b *types.Basic) (w int, signedT bool) {
	switch b.Kind() {
	case types.Int8:
		return 8, true
	case types.Int16:
		return 16, true
	case types.Int32:
		return 32, true
	case types.Int64, types.Int:
		return 64, true
	case types.Uint8:
		return 8, false
	case types.Uint16:
		return 16, false
	case types.Uint32:
		return 32, false
	case types.Uint64, types.Uint, types.Uintptr:
		return 64, false
	case types.UntypedInt, types.UntypedRune:
		return 64, true
	}
	return 0, false
}

const zeroTimeNS = "-62135596800000000000"

// zero returns the zero value of a type.
func (it *Interp) zero(t types.Type) Val {
	switch ns := namedString(t); ns {
	case "math/big.Int":
		return IntV{IntI(0)}
	case "time.Time":
		z, _ := newBig(zeroTimeNS)
		return TimeV{timeConst(z)}
	case "github.com/cosmos/cosmos-sdk/types.Context":
		return &Native{Kind: "ctx", Data: (*CtxData)(nil)}
	}
	switch u := t.Underlying().(type) {
	case *types.Basic:
		switch {
		case u.Info()&types.IsBoolean != 0:
			return TFalse
		case u.Info()&types.IsInteger != 0:
			w, _ := intWidth(u)
			return BVu(w, 0)
		case u.Info()&types.IsString != 0:
			return strLit("")
		case u.Kind() == types.UnsafePointer:
			return Ptr(nil)
		case u.Info()&types.IsFloat != 0:
			return &Native{Kind: "float", Data: 0.0}
		}
	case *types.Struct:
		s := &StructV{T: t, F: make([]Val, u.NumFields())}
		for i := range s.F {
			s.F[i] = it.zero(u.Field(i).Type())
		}
		return s
	case *types.Array:
		if isByteType(u.Elem()) {
			bs := make([]*Term, u.Len())
			for i := range bs {
				bs[i] = BVu(8, 0)
			}
			return &StrV{Bytes: bs, IsB: true, IsArr: true}
		}
		a := &ArrayV{E: make([]Val, u.Len())}
		for i := range a.E {
			a.E[i] = it.zero(u.Elem())
		}
		return a
	case *types.Pointer:
		return Ptr(nil)
	case *types.Slice:
		if isByteType(u.Elem()) {
			return &StrV{IsB: true, Nil: true}
		}
		return &SliceV{}
	case *types.Map:
		return (*MapV)(nil)
	case *types.Interface:
		return IfaceV{}
	case *types.Signature:
		return (*Closure)(nil)
	case *types.Chan:
		return &Native{Kind: "chan"}
	case *types.Tuple:
		tu := make(Tuple, u.Len())
		for i := range tu {
			tu[i] = it.zero(u.At(i).Type())
		}
		return tu
	}
	panic(engineErr{fmt.Sprintf("zero: unsupported type %s", t)})
}

// copyVal copies aggregate values (struct/array value semantics).
func copyVal(v Val) Val {
	switch v := v.(type) {
	case *StructV:
		n := &StructV{T: v.T, F: make([]Val, len(v.F))}
		for i, f := range v.F {
			n.F[i] = copyVal(f)
		}
		return n
	case *ArrayV:
		n := &ArrayV{E: make([]Val, len(v.E))}
		for i, f := range v.E {
			n.E[i] = copyVal(f)
		}
		return n
	case *StrV:
		if v.IsArr && v.IsB {
			n := *v
			n.Bytes = append([]*Term(nil), v.Bytes...)
			return &n
		}
		return v
	case Tuple:
		n := make(Tuple, len(v))
		for i, f := range v {
			n[i] = copyVal(f)
		}
		return n
	}
	return v
}
