package main

import (
	"fmt"
	"go/types"
	"strings"
)

// leafMaker produces the symbolic leaf for a path inside a generated value.
type leafMaker func(path string, sort string, kind string) *Term

type freshOpts struct {
	maxLen  int
	nilPtrs bool
	depth   int
	// strB > 0: strings are structured with that many bytes
}

// freshValue builds a symbolic value of type t. Slice lengths are chosen by branching on a symbolic length leaf.
func (it *Interp) freshValue(t types.Type, path string, mk leafMaker, o freshOpts) Val {
	if o.depth > 12 {
		it.fail("freshValue: type too deep at %s (%s)", path, t)
	}
	o.depth++
	switch namedString(t) {
	case "math/big.Int":
		return IntV{mk(path, SInt, "bigint")}
	case "time.Time":
		return TimeV{it.plausibleTime(mk(path, bvSort(timeW), "time"))}
	case "github.com/cosmos/cosmos-sdk/types.Int":
		// struct{ i *big.Int }
		st := t.Underlying().(*types.Struct)
		s := &StructV{T: t, F: make([]Val, st.NumFields())}
		if o.nilPtrs && it.p.branch(mk(path+".isnil", SBool, "bool")) {
			s.F[0] = Ptr(nil)
			return s
		}
		v := mk(path, SInt, "bigint")
		s.F[0] = Ptr(newVal(IntV{v}))
		return s
	case "github.com/cosmos/cosmos-sdk/codec/types.Any":
		it.fail("freshValue: Any at %s must be built by the harness", path)
	}
	switch u := t.Underlying().(type) {
	case *types.Basic:
		switch {
		case u.Info()&types.IsBoolean != 0:
			return mk(path, SBool, "bool")
		case u.Info()&types.IsInteger != 0:
			w, sg := intWidth(u)
			k := fmt.Sprintf("u%d", w)
			if sg {
				k = fmt.Sprintf("i%d", w)
			}
			return mk(path, bvSort(w), k)
		case u.Info()&types.IsString != 0:
			return &StrV{T: mk(path, SStr, "str")}
		}
	case *types.Struct:
		s := &StructV{T: t, F: make([]Val, u.NumFields())}
		for i := range s.F {
			f := u.Field(i)
			if !f.Exported() || len(f.Name()) > 4 && f.Name()[:4] == "XXX_" {
				s.F[i] = it.zero(f.Type())
				continue
			}
			s.F[i] = it.freshValue(f.Type(), path+"."+f.Name(), mk, o)
		}
		return s
	case *types.Pointer:
		if o.nilPtrs && it.p.branch(mk(path+".isnil", SBool, "bool")) {
			return Ptr(nil)
		}
		return Ptr(newVal(it.freshValue(u.Elem(), path, mk, o)))
	case *types.Slice:
		if isByteType(u.Elem()) {
			return &StrV{T: mk(path, SStr, "bytes")}
		}
		ln := mk(path+".len", bvSort(64), "len")
		maxLen := o.maxLen
		decodeMaxMu.RLock()
		for suffix, m := range it.ex.cfg.DecodeMaxAt {
			if strings.HasSuffix(path, suffix) {
				maxLen = m // a per-field bound set by the harness (rt.Opt("decode-max-at:<field path suffix>=<n>"))
			}
		}
		decodeMaxMu.RUnlock()
		n := 0
		for ; n < maxLen; n++ {
			if it.p.branch(Eq(ln, BVu(64, uint64(n)))) {
				break
			}
		}
		if n == maxLen {
			it.p.assume(Eq(ln, BVu(64, uint64(n))))
		}
		if n == 0 {
			return &SliceV{}
		}
		arr := make([]Val, n)
		for i := range arr {
			arr[i] = it.freshValue(u.Elem(), fmt.Sprintf("%s[%d]", path, i), mk, o)
		}
		return &SliceV{Arr: &arr, Len: n, Cap: n}
	case *types.Array:
		if isByteType(u.Elem()) {
			bs := make([]*Term, u.Len())
			for i := range bs {
				bs[i] = mk(fmt.Sprintf("%s[%d]", path, i), bvSort(8), "u8")
			}
			return &StrV{Bytes: bs, IsB: true, IsArr: true}
		}
		a := &ArrayV{E: make([]Val, u.Len())}
		for i := range a.E {
			a.E[i] = it.freshValue(u.Elem(), fmt.Sprintf("%s[%d]", path, i), mk, o)
		}
		return a
	case *types.Map:
		return &MapV{}
	case *types.Interface:
		return IfaceV{}
	}
	it.fail("freshValue: unsupported type %s at %s", t, path)
	return nil
}

// sourceMaker creates fresh variables registered as replay sources.
func (it *Interp) sourceMaker(tag string) leafMaker {
	return func(path, sort, kind string) *Term {
		v := Var(it.p.freshName(tag+path), sort)
		it.p.sources = append(it.p.sources, Source{Kind: kind, Tag: tag + path, Terms: []*Term{v}})
		if kind == "len" {
			it.p.assertAxiom(BVCmp("bvult", v, BVu(64, 1<<20)))
		}
		return v
	}
}

// decodeMaker makes leaves that are uninterpreted functions of the encoded bytes (deterministic decoding).
func (it *Interp) decodeMaker(bz *Term, typ string) leafMaker {
	return func(path, sort, kind string) *Term {
		return App("dec!"+typ+"!"+path, sort, bz)
	}
}

// opaqueOfType: a value of a foreign type about which nothing is known.
func (it *Interp) opaqueOfType(t types.Type, tag string) Val {
	switch namedString(t) {
	case "math/big.Int":
		return IntV{Var(it.p.freshName(tag), SInt)}
	case "time.Time":
		return TimeV{Var(it.p.freshName(tag), bvSort(timeW))}
	}
	switch u := t.Underlying().(type) {
	case *types.Basic:
		switch {
		case u.Info()&types.IsBoolean != 0:
			return Var(it.p.freshName(tag), SBool)
		case u.Info()&types.IsInteger != 0:
			w, _ := intWidth(u)
			return Var(it.p.freshName(tag), bvSort(w))
		case u.Info()&types.IsString != 0:
			return &StrV{T: Var(it.p.freshName(tag), SStr)}
		case u.Info()&types.IsFloat != 0:
			return &Native{Kind: "float", Data: 0.0}
		}
	case *types.Pointer:
		if namedString(u.Elem()) == "github.com/cosmos/cosmos-sdk/types/errors.Error" {
			return &Native{Kind: "error", Data: &ErrData{registered: true, desc: tag}, Tag: tag}
		}
		return Ptr(newVal(it.opaqueOfType(u.Elem(), tag)))
	case *types.Struct:
		if it.autoAll && strings.Count(tag, ".") < 6 {
			// in abstract-all mode an arbitrary struct is a struct of arbitrary fields (so that its fields can be read)
			sv := &StructV{T: t, F: make([]Val, u.NumFields())}
			for i := range sv.F {
				sv.F[i] = it.opaqueOfType(u.Field(i).Type(), tag+"."+u.Field(i).Name())
			}
			return sv
		}
		return &Native{Kind: "opaque", Tag: t.String() + "@" + tag}
	case *types.Interface:
		if t.String() == "error" {
			// an abstracted function may fail: the choice is a solver variable
			if it.inInit == 0 && it.p != nil && !it.p.isInit {
				v := Var(it.p.freshName(tag+".fails"), SBool)
				it.p.sources = append(it.p.sources, Source{Kind: "bool", Tag: tag + ".fails", Terms: []*Term{v}})
				if it.p.branch(v) {
					return it.newErr(IfaceV{}, tag)
				}
			}
			return IfaceV{}
		}
		return IfaceV{V: &Native{Kind: "opaque", Tag: t.String() + "@" + tag}}
	case *types.Slice:
		if isByteType(u.Elem()) {
			return &StrV{T: Var(it.p.freshName(tag), SStr)}
		}
		return &SliceV{}
	case *types.Array:
		if isByteType(u.Elem()) {
			bs := make([]*Term, u.Len())
			for i := range bs {
				bs[i] = Var(it.p.freshName(fmt.Sprintf("%s[%d]", tag, i)), bvSort(8))
			}
			return &StrV{Bytes: bs, IsB: true, IsArr: true}
		}
		a := &ArrayV{E: make([]Val, u.Len())}
		for i := range a.E {
			a.E[i] = it.opaqueOfType(u.Elem(), tag)
		}
		return a
	case *types.Map:
		return &MapV{}
	case *types.Signature:
		return (*Closure)(nil)
	case *types.Tuple:
		tu := make(Tuple, u.Len())
		for i := range tu {
			tu[i] = it.opaqueOfType(u.At(i).Type(), fmt.Sprintf("%s.%d", tag, i))
		}
		return tu
	case *types.Chan:
		return &Native{Kind: "chan"}
	}
	it.fail("opaqueOfType: %s", t)
	return nil
}

// plausibleTime restricts a symbolic instant to [1970, 2116) (0 <= ns < 2^62): a stated bound of every check that uses time.
func (it *Interp) plausibleTime(t *Term) *Term {
	it.p.assertAxiom(And(BVCmp("bvsge", t, BVu(timeW, 0)), BVCmp("bvslt", t, BV(timeW, pow2(62)))))
	return t
}

func (it *Interp) freshTime(tag string) *Term {
	v := Var(it.p.freshName(tag), bvSort(timeW))
	it.p.sources = append(it.p.sources, Source{Kind: "time", Tag: tag, Terms: []*Term{v}})
	return it.plausibleTime(v)
}
