package main

import (
	"encoding/json"
	"fmt"
	"os"
	"path/filepath"
	"sort"
	"strings"
	"sync/atomic"
	"time"

	"golang.org/x/tools/go/ssa"
)

type Evidence struct {
	PropertyID  string                 `json:"property_id"`
	Tier        string                 `json:"tier"`
	Seed        int64                  `json:"seed"`
	Level       string                 `json:"level"`
	Coverage    map[string]interface{} `json:"coverage"`
	Assumptions []string               `json:"assumptions"`
	WallS       float64                `json:"wall_s"`
	Violations  int                    `json:"violations"`
}

func writeBroken(verifDir, prop, tier string, seed int64, t0 time.Time, why string, noEvid bool) {
	if noEvid {
		return
	}
	ev := Evidence{PropertyID: prop, Tier: tier, Seed: seed, Level: "model_checking", WallS: time.Since(t0).Seconds(),
		Coverage: map[string]interface{}{"states": 0, "transitions": 0, "traces_validated_against_impl": 0, "samples": []string{}, "verdict": "inconclusive", "reason": why}}
	bz, _ := json.MarshalIndent(ev, "", " ")
	os.MkdirAll(filepath.Join(verifDir, "evidence"), 0o755)
	os.WriteFile(filepath.Join(verifDir, "evidence", prop+".json"), bz, 0o644)
}

func (ex *Explorer) missingReach() []string {
	var out []string
	for _, id := range ex.expectedReach {
		if ex.reach[id] == 0 {
			out = append(out, id)
		}
	}
	return out
}

func report(verifDir, prop, tier string, seed int64, t0 time.Time, loadS float64, cc *CheckCfg, entries []*ssa.Function, results []*Explorer, known map[string]KnownFinding, noEvid bool, prog *ssa.Program, extraInconclusive []string, extraCoverage map[string]interface{}, replayer func(string) ReplayResult) int {
	states, transitions, paths := 0, 0, 0
	obligations, discharged := 0, 0
	var samples []interface{}
	var inconclusive []string
	var newCex []*Cex
	knownSeen := map[string]*Cex{}
	funcs := map[string]int{}
	modelsUsed := map[string]bool{}
	overrides := map[string]bool{}
	autos := map[string]bool{}
	reachAll := map[string]int{}
	perEntry := []interface{}{}
	panics := map[string]int{}
	for i, ex := range results {
		states += ex.states + ex.paths
		transitions += ex.transitions
		paths += ex.paths
		entry := map[string]interface{}{"harness": entries[i].Name(), "paths": ex.paths, "infeasible_paths": ex.pathsDead, "fork_points": ex.states, "wall_s": time.Since(ex.start).Seconds()}
		obst := map[string]interface{}{}
		var ids []string
		for id := range ex.obs {
			ids = append(ids, id)
		}
		sort.Strings(ids)
		for _, id := range ids {
			st := ex.obs[id]
			obligations += st.Checked
			discharged += st.Discharged
			obst[id] = map[string]interface{}{"checked": st.Checked, "discharged": st.Discharged, "violated": st.Violated, "known_hits": st.KnownHits}
			if st.Sample != "" && len(samples) < 12 {
				samples = append(samples, map[string]interface{}{"harness": entries[i].Name(), "obligation": st.Sample})
			}
		}
		entry["obligations"] = obst
		entry["reach"] = ex.reach
		for k, v := range ex.reach {
			reachAll[entries[i].Name()+":"+k] = v
		}
		for id, vals := range ex.reachSample {
			if len(samples) < 24 {
				samples = append(samples, map[string]interface{}{"harness": entries[i].Name(), "reach_witness": id, "inputs": compactVals(vals)})
			}
		}
		if m := ex.missingReach(); len(m) > 0 {
			inconclusive = append(inconclusive, fmt.Sprintf("%s: reach witnesses not satisfiable (vacuous harness?): %v", entries[i].Name(), m))
		}
		for _, e := range ex.engineErrs {
			inconclusive = append(inconclusive, entries[i].Name()+": cannot encode: "+e)
		}
		for _, e := range ex.unwinds {
			inconclusive = append(inconclusive, entries[i].Name()+": unwinding failure: "+e)
		}
		for _, e := range ex.unknowns {
			inconclusive = append(inconclusive, entries[i].Name()+": solver unknown: "+e)
		}
		if len(ex.initNotes) > 0 {
			entry["init_notes"] = ex.initNotes
		}
		for _, c := range ex.cexs {
			newCex = append(newCex, c)
		}
		for k, c := range ex.knownSeen {
			if _, ok := knownSeen[k]; !ok {
				knownSeen[k] = c
			}
		}
		for f, n := range ex.funcs {
			funcs[f] += n
		}
		for f := range ex.modelsUsed {
			modelsUsed[f] = true
		}
		for f := range ex.overridesUsed {
			overrides[f] = true
		}
		for f := range ex.autoUsed {
			autos[f] = true
		}
		for k, v := range ex.panicsSeen {
			panics[k] += v
		}
		perEntry = append(perEntry, entry)
	}
	inconclusive = append(inconclusive, extraInconclusive...)
	// functions encoded: teleport functions only, with SSA instruction counts
	type fe struct {
		Name   string `json:"name"`
		Instrs int    `json:"ssa_instructions"`
		Calls  int    `json:"symbolic_calls"`
	}
	var fes []fe
	fnByName := map[string]*ssa.Function{}
	for fn := range ssautilAll(prog) {
		fnByName[fn.String()] = fn
	}
	for name, n := range funcs {
		f := fnByName[name]
		cnt := 0
		if f != nil {
			for _, b := range f.Blocks {
				cnt += len(b.Instrs)
			}
		}
		fes = append(fes, fe{name, cnt, n})
	}
	sort.Slice(fes, func(i, j int) bool { return fes[i].Name < fes[j].Name })

	code := 0
	verdict := "held within bounds"
	replays, replaysConfirmed := 0, 0
	var replayMismatch []string
	replayDir := filepath.Join(verifDir, "replay", prop)
	var violLines []string
	if len(newCex) > 0 {
		os.MkdirAll(replayDir, 0o755)
		seen := map[string]int{}
		for _, c := range newCex {
			key := c.Harness + "-" + c.Obligation
			seen[key]++
			if seen[key] > 2 || (seen[key] > 1 && contains(cc.Replayable, c.Harness)) {
				continue // for natively replayable harnesses only the replayed counterexample is reported
			}
			path := filepath.Join(replayDir, fmt.Sprintf("%s-%d.json", sanitize(key), seen[key]))
			bz, _ := json.MarshalIndent(c, "", " ")
			os.WriteFile(path, bz, 0o644)
			if contains(cc.Replayable, c.Harness) && seen[key] == 1 {
				r := replayer(path)
				replays++
				c.Extra["native_replay"] = fmt.Sprintf("supported=%v confirmed=%v assumptions_held=%v failed=%v panicked=%q %s", r.Supported, r.Confirmed, r.AssumptionsHeld, r.Failed, r.Panicked, r.Reason)
				bz, _ = json.MarshalIndent(c, "", " ")
				os.WriteFile(path, bz, 0o644)
				if r.Supported && !r.Confirmed {
					// the model does not reproduce against the natively built code: the encoding or a model is wrong.
					// Never reported as a violation.
					replayMismatch = append(replayMismatch, fmt.Sprintf("%s: counterexample for %s does not reproduce natively (%s)", c.Harness, c.Obligation, path))
					continue
				}
				if r.Confirmed {
					replaysConfirmed++
				}
			}
			violLines = append(violLines, fmt.Sprintf("VIOLATION property=%s replay=%s", prop, path))
			if len(samples) < 30 {
				samples = append(samples, map[string]interface{}{"violation": c.Obligation, "harness": c.Harness, "desc": c.Desc, "inputs": compactVals(c.Values)})
			}
		}
		inconclusive = append(inconclusive, replayMismatch...)
		if len(violLines) > 0 {
			code = 1
			verdict = "violated"
		} else {
			code = 2
			verdict = "inconclusive"
		}
	} else if len(inconclusive) > 0 {
		code = 2
		verdict = "inconclusive"
	}
	// Validation of the encoding against the real code: for natively replayable harnesses the solver's reach witnesses
	// (concrete inputs that drive the harness to each of its reach points) are run through the natively compiled harness;
	// every obligation the encoding discharged must hold there too. A failure is a concrete input on which the real code
	// breaks an obligation although the encoding said it could not - reported as a violation (with that input).
	witnessRuns, witnessFailed := 0, 0
	knownIDs := known // findings listed with status "known" for this property
	if code != 1 && os.Getenv("VERIF_NO_WITNESS_REPLAY") == "" {
		for i, ex := range results {
			h := entries[i].Name()
			if !contains(cc.Replayable, h) {
				continue
			}
			var ids []string
			for id := range ex.reachCex {
				ids = append(ids, id)
			}
			sort.Strings(ids)
			if len(ids) > 2 {
				ids = ids[:2]
			}
			for _, id := range ids {
				c := ex.reachCex[id]
				if c.Extra == nil {
					c.Extra = map[string]string{}
				}
				os.MkdirAll(replayDir, 0o755)
				path := filepath.Join(replayDir, "witness-"+sanitize(h+"-"+id)+".json")
				bz, _ := json.MarshalIndent(c, "", " ")
				os.WriteFile(path, bz, 0o644)
				r := replayer(path)
				if !r.Supported || !r.AssumptionsHeld {
					os.Remove(path)
					continue
				}
				witnessRuns++
				if len(r.Failed) > 0 || r.Panicked != "" {
					isKnown := false
					for _, n := range r.Notes {
						// the native run is inside the predicate of a finding listed in known_findings.json
						if strings.HasPrefix(n, "known-finding-predicate-holds: ") {
							if _, listed := knownIDs[strings.TrimPrefix(n, "known-finding-predicate-holds: ")]; listed {
								isKnown = true
							}
						}
					}
					if isKnown {
						os.Remove(path)
						continue
					}
					witnessFailed++
					c.Extra["native_run"] = fmt.Sprintf("failed=%v panicked=%q", r.Failed, r.Panicked)
					bz, _ = json.MarshalIndent(c, "", " ")
					os.WriteFile(path, bz, 0o644)
					violLines = append(violLines, fmt.Sprintf("VIOLATION property=%s replay=%s", prop, path))
					samples = append(samples, map[string]interface{}{"violation": fmt.Sprintf("native run of a solver witness fails %v %s", r.Failed, r.Panicked), "harness": h, "inputs": compactVals(c.Values)})
					code = 1
					verdict = "violated"
				} else {
					os.Remove(path)
				}
			}
		}
	}
	var knownLines []string
	var ks []string
	for k := range knownSeen {
		ks = append(ks, k)
	}
	sort.Strings(ks)
	for _, k := range ks {
		c := knownSeen[k]
		os.MkdirAll(replayDir, 0o755)
		path := filepath.Join(replayDir, "known-"+sanitize(k)+".json")
		bz, _ := json.MarshalIndent(c, "", " ")
		os.WriteFile(path, bz, 0o644)
		native := ""
		if contains(cc.Replayable, c.Harness) {
			r := replayer(path)
			replays++
			if r.Confirmed {
				replaysConfirmed++
				native = "; reproduced natively against the real code"
			} else {
				native = fmt.Sprintf("; native replay did not reproduce it (assumptions_held=%v failed=%v %s)", r.AssumptionsHeld, r.Failed, r.Reason)
			}
		}
		knownLines = append(knownLines, fmt.Sprintf("KNOWN-FINDING: property=%s %s [%s; obligation %s in %s; witness %s%s]", prop, known[k].What, k, c.Obligation, c.Harness, path, native))
		if len(samples) < 30 {
			samples = append(samples, map[string]interface{}{"known_finding": k, "harness": c.Harness, "obligation": c.Obligation, "inputs": compactVals(c.Values)})
		}
	}
	if len(samples) == 0 {
		samples = append(samples, map[string]interface{}{"note": "no obligation was reached"})
	}
	ev := Evidence{PropertyID: prop, Tier: tier, Seed: seed, Level: "model_checking", WallS: time.Since(t0).Seconds(), Violations: len(violLines)}
	ev.Assumptions = append([]string{}, cc.Assumptions...)
	if states == 0 {
		states = 1
	}
	if transitions == 0 {
		transitions = 1
	}
	ev.Coverage = map[string]interface{}{
		"states":                            states,
		"transitions":                       transitions,
		"traces_validated_against_impl":     replays + witnessRuns,
		"native_replays_confirmed":          replaysConfirmed,
		"solver_witnesses_run_natively":     witnessRuns,
		"solver_witnesses_failing_natively": witnessFailed,
		"samples":                           samples,
		"verdict":                           verdict,
		"paths":                             paths,
		"obligations":                       obligations,
		"discharged":                        discharged,
		"queries":                           atomic.LoadInt64(&totalQueries),
		"solver_time_s":                     float64(atomic.LoadInt64(&totalSolverNs)) / 1e9,
		"load_time_s":                       loadS,
		"solver":                            "z3 4.8.12 (z3 -in), incremental push/pop",
		"functions_encoded":                 fes,
		"library_models_used":               keysOf(modelsUsed),
		"harness_overrides":                 keysOf(overrides),
		"auto_opaque_calls":                 keysOf(autos),
		"bounds":                            cc.Bounds,
		"outside_claim":                     cc.Outside,
		"harnesses":                         perEntry,
		"inconclusive":                      inconclusive,
		"known_findings_seen":               ks,
		"target_panics_seen":                panics,
		"states_meaning":                    "symbolic path states created (paths + fork points)",
		"transitions_meaning":               "SSA basic blocks executed symbolically",
	}
	for k, v := range extraCoverage {
		ev.Coverage[k] = v
	}
	if !noEvid {
		os.MkdirAll(filepath.Join(verifDir, "evidence"), 0o755)
		bz, _ := json.MarshalIndent(ev, "", " ")
		must(os.WriteFile(filepath.Join(verifDir, "evidence", prop+".json"), bz, 0o644))
	}
	for _, l := range knownLines {
		fmt.Println(l)
	}
	for _, l := range violLines {
		fmt.Println(l)
	}
	if code == 2 {
		for _, l := range inconclusive {
			fmt.Println("INCONCLUSIVE property=" + prop + " " + l)
		}
	}
	fmt.Printf("%s: %s — %d harnesses, %d paths, %d/%d obligations discharged, %d queries, %.1fs\n", prop, verdict, len(entries), paths, discharged, obligations, atomic.LoadInt64(&totalQueries), time.Since(t0).Seconds())
	return code
}

func compactVals(vs []CexValue) []string {
	var out []string
	for _, v := range vs {
		if v.Kind == "storeget" && len(v.Vals) == 3 {
			out = append(out, fmt.Sprintf("store[%s] key=%s present=%s val=%s", v.Tag, v.Vals[0], v.Vals[1], v.Vals[2]))
			continue
		}
		s := v.Tag + "="
		for i, x := range v.Vals {
			if i > 0 {
				s += ","
			}
			s += x
		}
		out = append(out, s)
		if len(out) > 60 {
			out = append(out, "…")
			break
		}
	}
	return out
}

func keysOf(m map[string]bool) []string {
	out := []string{}
	for k := range m {
		out = append(out, k)
	}
	sort.Strings(out)
	return out
}

func sanitize(s string) string {
	b := []byte(s)
	for i, c := range b {
		if !(c >= 'a' && c <= 'z' || c >= 'A' && c <= 'Z' || c >= '0' && c <= '9' || c == '-' || c == '_' || c == '.') {
			b[i] = '_'
		}
	}
	return string(b)
}
