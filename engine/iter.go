package main

// Store iterators over explicit (non-havoc) stores with structured keys.

type iterData struct {
	keys []*StrV
	vals []*StrV
	i    int
}

// visibleEntries materialises the content of an explicit store: later writes shadow earlier ones (branching on key equality).
func (it *Interp) visibleEntries(v *StoreView) ([]*StrV, []*StrV) {
	var chain []*StoreData
	for s := v.base; s != nil; s = s.parent {
		chain = append(chain, s)
		if s.parent == nil && s.havoc {
			it.fail("iteration over a havoc store is not encodable; use rt.EmptyCtx and populate the store")
		}
	}
	var keys, vals []*StrV
	var dels []*StrV
	// newest first
	for _, s := range chain {
		for i := len(s.log) - 1; i >= 0; i-- {
			w := s.log[i]
			shadowed := false
			for _, k := range keys {
				if it.p.branch(it.strEq(k, w.key)) {
					shadowed = true
					break
				}
			}
			if !shadowed {
				for _, k := range dels {
					if it.p.branch(it.strEq(k, w.key)) {
						shadowed = true
						break
					}
				}
			}
			if shadowed {
				continue
			}
			if w.del {
				dels = append(dels, w.key)
			} else {
				keys = append(keys, w.key)
				vals = append(vals, w.val)
			}
		}
	}
	return keys, vals
}

func (it *Interp) storeRangeIterator(v *StoreView, start, end *StrV, reverse bool) Val {
	keys, vals := it.visibleEntries(v)
	var ks, vs []*StrV
	opaqueKeys := 0
	for i, k := range keys {
		rel := k
		if v.prefix != nil {
			if !isPlainB(v.prefix) {
				// opaque prefix (e.g. a client store under a symbolic chain name): a key lies under it if it was built
				// as prefix ++ rest from the very same prefix term; keys whose known leading bytes differ lie outside
				pt, kt := it.toA(v.prefix), it.toA(k)
				var rest *Term
				switch {
				case kt == pt:
					rest = it.litTerm("")
				case kt.op == "app" && kt.name == "concat" && kt.args[0] == pt:
					rest = kt.args[1]
				default:
					kp, _ := it.knownPrefix(kt)
					pp, _ := it.knownPrefix(pt)
					n := len(kp)
					if len(pp) < n {
						n = len(pp)
					}
					if kp[:n] != pp[:n] {
						continue
					}
					it.fail("prefix iteration: cannot decide whether key %s lies under the opaque prefix %s", it.describe(k), it.describe(v.prefix))
				}
				r := it.fromA(rest)
				if isPlainB(r) {
					ks = append(ks, r)
				} else {
					ks = append(ks, r)
					opaqueKeys++
				}
				vs = append(vs, vals[i])
				continue
			}
			if !isPlainB(k) {
				// an opaque key whose leading bytes are known from its construction (format literals, literal operands)
				pre, _ := v.prefix.concreteString()
				kp, complete := it.knownPrefix(it.toA(k))
				n := len(pre)
				if len(kp) < n {
					n = len(kp)
				}
				if kp[:n] != pre[:n] {
					continue // provably outside the iterated prefix
				}
				if len(kp) < len(pre) {
					if complete {
						continue
					}
					it.fail("prefix iteration: cannot decide whether opaque key %s has prefix %q", it.describe(k), pre)
				}
				// inside the iterated prefix: usable as long as no ordering decision involves it (checked below)
				kt := it.toA(k)
				if kt.op == "app" && kt.name == "concat" {
					if a, ca := it.knownPrefix(kt.args[0]); ca && a == pre {
						ks = append(ks, &StrV{T: kt.args[1]})
						vs = append(vs, vals[i])
						opaqueKeys++
						continue
					}
				}
				ks = append(ks, &StrV{T: kt, fullKey: true})
				vs = append(vs, vals[i])
				opaqueKeys++
				continue
			}
			if !it.p.branch(it.strHasPrefix(k, v.prefix)) {
				continue
			}
			rel = &StrV{Bytes: k.Bytes[len(v.prefix.Bytes):], IsB: true}
		}
		if start != nil && !start.Nil {
			if !isPlainB(rel) || !isPlainB(start) {
				it.fail("range iteration needs structured keys")
			}
			lt, _ := it.bytesLess(rel.Bytes, start.Bytes)
			if it.p.branch(lt) {
				continue
			}
		}
		if end != nil && !end.Nil {
			lt, _ := it.bytesLess(rel.Bytes, end.Bytes)
			if !it.p.branch(lt) {
				continue
			}
		}
		ks = append(ks, rel)
		vs = append(vs, vals[i])
	}
	// the bytes every key is known to start with (relative to the iterated prefix): an ordering decision that involves
	// an opaque key is taken from these literal leading bytes when they differ; otherwise the order is not encodable
	lead := func(k *StrV) string {
		if isPlainB(k) {
			b := []byte{}
			for _, t := range k.Bytes {
				if !t.IsConst() {
					break
				}
				b = append(b, byte(t.val.Uint64()))
			}
			return string(b)
		}
		kp, _ := it.knownPrefix(it.toA(k))
		if k.fullKey && v.prefix != nil {
			if pre, ok := v.prefix.concreteString(); ok && len(kp) >= len(pre) {
				return kp[len(pre):]
			}
			return ""
		}
		return kp
	}
	// insertion sort by key, branching on comparisons
	for i := 1; i < len(ks); i++ {
		for j := i; j > 0; j-- {
			var less bool
			if isPlainB(ks[j]) && isPlainB(ks[j-1]) {
				lt, _ := it.bytesLess(ks[j].Bytes, ks[j-1].Bytes)
				less = it.p.branch(lt)
			} else {
				a, b := lead(ks[j]), lead(ks[j-1])
				n := len(a)
				if len(b) < n {
					n = len(b)
				}
				d := -1
				for x := 0; x < n; x++ {
					if a[x] != b[x] {
						d = x
						break
					}
				}
				if d < 0 {
					// not separated by their literal leading bytes: the lexicographic order of the two keys is the
					// uninterpreted strict total order on opaque strings (every order consistent with it is explored)
					_ = opaqueKeys
					less = it.p.branch(it.strLessOpaque(ks[j], ks[j-1]))
				} else {
					less = a[d] < b[d]
				}
			}
			if !less {
				break
			}
			ks[j], ks[j-1] = ks[j-1], ks[j]
			vs[j], vs[j-1] = vs[j-1], vs[j]
		}
	}
	if reverse {
		for i, j := 0, len(ks)-1; i < j; i, j = i+1, j-1 {
			ks[i], ks[j] = ks[j], ks[i]
			vs[i], vs[j] = vs[j], vs[i]
		}
	}
	return IfaceV{V: &Native{Kind: "iterator", Data: &iterData{keys: ks, vals: vs}}}
}

// prefixEnd-based iteration: sdk.KVStorePrefixIterator(store, prefix)
func (it *Interp) storePrefixIterator(v *StoreView, prefix *StrV, reverse bool) Val {
	nv := &StoreView{base: v.base, prefix: prefix}
	if v.prefix != nil {
		nv.prefix = it.strConcat(v.prefix, prefix)
	}
	r := it.storeRangeIterator(nv, nil, nil, reverse).(IfaceV)
	// keys reported by a prefix iterator include the prefix (relative to the store view it was opened on)
	d := r.V.(*Native).Data.(*iterData)
	for i := range d.keys {
		if d.keys[i].fullKey {
			// a full store key: report it relative to the prefix store the iterator was opened on
			if v.prefix != nil {
				outer, okO := v.prefix.concreteString()
				kt := d.keys[i].T
				if okO && kt.op == "app" && kt.name == "concat" {
					if a, ca := it.knownPrefix(kt.args[0]); ca && a == outer {
						d.keys[i] = it.fromA(kt.args[1])
						continue
					}
				}
				it.fail("prefix iteration: cannot strip the store prefix %s from the opaque key %s", it.describe(v.prefix), it.describe(d.keys[i]))
			}
			continue
		}
		d.keys[i] = it.strConcat(prefix, d.keys[i])
	}
	return r
}

func (it *Interp) iterMethod(n *Native, name string, a []Val) Val {
	d := n.Data.(*iterData)
	switch name {
	case "Valid":
		return Bool(d.i < len(d.keys))
	case "Next":
		if d.i >= len(d.keys) {
			it.tpanic("iterator.Next on invalid iterator")
		}
		d.i++
		return nil
	case "Key":
		if d.i >= len(d.keys) {
			it.tpanic("iterator.Key on invalid iterator")
		}
		return d.keys[d.i]
	case "Value":
		if d.i >= len(d.keys) {
			it.tpanic("iterator.Value on invalid iterator")
		}
		return d.vals[d.i]
	case "Close":
		return IfaceV{}
	case "Error":
		return IfaceV{}
	case "Domain":
		return Tuple{&StrV{IsB: true, Nil: true}, &StrV{IsB: true, Nil: true}}
	}
	it.fail("iterator method %s", name)
	return nil
}

// knownPrefix returns the leading bytes of an opaque string term that are fixed by its construction, and whether
// that is the whole string.
func (it *Interp) knownPrefix(t *Term) (string, bool) {
	if t.op == "var" {
		if v, ok := it.p.litVal[t.name]; ok {
			return v, true
		}
		return "", false
	}
	if t.op != "app" {
		return "", false
	}
	if t.name == "concat" {
		a, ca := it.knownPrefix(t.args[0])
		if !ca {
			return a, false
		}
		b, cb := it.knownPrefix(t.args[1])
		return a + b, cb
	}
	if format, ok := it.p.fmtNames[t.name]; ok {
		out := ""
		ai := 0
		i := 0
		for i < len(format) {
			c := format[i]
			if c != '%' {
				out += string(c)
				i++
				continue
			}
			if i+1 < len(format) && format[i+1] == '%' {
				out += "%"
				i += 2
				continue
			}
			// a verb: known only if its operand is fully known
			if ai >= len(t.args) {
				return out, false
			}
			arg := t.args[ai]
			ai++
			if arg.sort != SStr {
				return out, false
			}
			s, complete := it.knownPrefix(arg)
			out += s
			if !complete {
				return out, false
			}
			i += 2
		}
		return out, true
	}
	return "", false
}
