package main

import (
	"encoding/hex"
	"go/types"
	"strings"
)

const ethCommon = "github.com/ethereum/go-ethereum/common"
const ethABI = "github.com/ethereum/go-ethereum/accounts/abi"

func fixedBytes(it *Interp, s *StrV, n int, name string) *StrV {
	// BytesToAddress / BytesToHash: keep the last n bytes, left-pad with zeros
	if isPlainB(s) {
		bs := make([]*Term, n)
		src := s.Bytes
		if len(src) > n {
			src = src[len(src)-n:]
		}
		for i := range bs {
			bs[i] = BVu(8, 0)
		}
		copy(bs[n-len(src):], src)
		return &StrV{Bytes: bs, IsB: true, IsArr: true}
	}
	t := it.toA(s)
	ln := it.strLenTerm(t)
	r := App(name, SStr, t)
	if !it.p.lenAx[r.id] {
		it.p.lenAx[r.id] = true
		it.p.assertAxiom(Eq(App("len", bvSort(64), r), BVu(64, uint64(n))))
		// exact-length inputs are preserved
		it.p.assertAxiom(Implies(Eq(ln, BVu(64, uint64(n))), Eq(r, t)))
	}
	return &StrV{T: r, IsArr: true}
}

func init() {
	models[ethCommon+".BytesToAddress"] = func(it *Interp, a []Val) Val { return fixedBytes(it, a[0].(*StrV), 20, "bytes2addr") }
	models[ethCommon+".BytesToHash"] = func(it *Interp, a []Val) Val { return fixedBytes(it, a[0].(*StrV), 32, "bytes2hash") }
	hexTo := func(n int, name string) modelFn {
		return func(it *Interp, a []Val) Val {
			s := a[0].(*StrV)
			if cs, ok := s.concreteString(); ok {
				cs = strings.TrimPrefix(strings.TrimPrefix(cs, "0x"), "0X")
				if len(cs)%2 == 1 {
					cs = "0" + cs
				}
				b, _ := hex.DecodeString(cs)
				return fixedBytes(it, strLit(string(b)), n, name)
			}
			t := App("hex2"+name, SStr, it.toA(s))
			if !it.p.lenAx[t.id] {
				it.p.lenAx[t.id] = true
				it.p.assertAxiom(Eq(App("len", bvSort(64), t), BVu(64, uint64(n))))
			}
			return &StrV{T: t, IsArr: true}
		}
	}
	models[ethCommon+".HexToAddress"] = hexTo(20, "addr")
	models[ethCommon+".HexToHash"] = hexTo(32, "hash")
	models[ethCommon+".IsHexAddress"] = func(it *Interp, a []Val) Val {
		s := a[0].(*StrV)
		if cs, ok := s.concreteString(); ok {
			cs = strings.TrimPrefix(strings.TrimPrefix(cs, "0x"), "0X")
			_, err := hex.DecodeString(cs)
			return Bool(len(cs) == 40 && err == nil)
		}
		return App("ishexaddr", SBool, it.toA(s))
	}
	ident := func(it *Interp, a []Val) Val {
		s := a[0].(*StrV)
		n := *s
		n.IsArr = false
		if s.IsB {
			n.Bytes = append([]*Term(nil), s.Bytes...)
		}
		return &n
	}
	models["("+ethCommon+".Address).Bytes"] = ident
	models["("+ethCommon+".Hash).Bytes"] = ident
	hexOf := func(name string) modelFn {
		return func(it *Interp, a []Val) Val {
			s := a[0].(*StrV)
			if cs, ok := s.concreteString(); ok && name == "hashhex" {
				return strLit("0x" + hex.EncodeToString([]byte(cs)))
			}
			t := App(name, SStr, it.toA(s))
			it.p.noteInjective(name, t)
			it.strLenTerm(t)
			return &StrV{T: t}
		}
	}
	models["("+ethCommon+".Address).Hex"] = hexOf("addrhex")
	models["("+ethCommon+".Address).String"] = hexOf("addrhex")
	models["("+ethCommon+".Hash).Hex"] = hexOf("hashhex")
	models["("+ethCommon+".Hash).String"] = hexOf("hashhex")

	// ---- ABI (reflection code in go-ethereum): calls are boxed values ----
	models["("+ethABI+".ABI).Pack"] = func(it *Interp, a []Val) Val {
		args := sliceArgs(a[2])
		elems := []Val{a[1]}
		for _, x := range args {
			elems = append(elems, copyDeep(x))
		}
		return Tuple{&StrV{Boxed: &SliceV{Arr: &elems, Len: len(elems), Cap: len(elems)}, BoxK: "abicall"}, IfaceV{}}
	}
	models["("+ethABI+".ABI).UnpackIntoInterface"] = func(it *Interp, a []Val) Val {
		iv := a[1].(IfaceV)
		p, ok := iv.V.(Ptr)
		if !ok || p == nil {
			it.fail("UnpackIntoInterface into %s", it.describe(a[1]))
		}
		name, _ := a[2].(*StrV).concreteString()
		data := a[3].(*StrV)
		elem := iv.T.Underlying().(*types.Pointer).Elem()
		t := it.toA(data)
		it.strLenTerm(t)
		if !it.p.branch(App("abiunpacks!"+name, SBool, t)) {
			return it.newErr(IfaceV{}, "abi: unpack failed")
		}
		*p = it.freshValue(elem, "", it.decodeMaker(t, "abiret!"+name+"!"+typeKey(elem)), freshOpts{maxLen: it.ex.cfg.DecodeMaxLen})
		return IfaceV{}
	}
	// events: EventByID / Unpack are functions of the topic / data
	models["(*"+ethABI+".ABI).EventByID"] = func(it *Interp, a []Val) Val {
		topic := a[1].(*StrV)
		t := it.toA(topic)
		var evT types.Type
		for _, p := range it.prog.AllPackages() {
			if p.Pkg.Path() == ethABI {
				evT = p.Pkg.Scope().Lookup("Event").Type()
			}
		}
		if !it.p.branch(App("abi_event_known", SBool, t)) {
			return Tuple{Ptr(nil), it.newErr(IfaceV{}, "no event with id")}
		}
		ev := it.zero(evT).(*StructV)
		st := evT.Underlying().(*types.Struct)
		for i := 0; i < st.NumFields(); i++ {
			if st.Field(i).Name() == "Name" || st.Field(i).Name() == "RawName" {
				nm := App("abi_event_name", SStr, t)
				it.strLenTerm(nm)
				ev.F[i] = &StrV{T: nm}
			}
		}
		return Tuple{Ptr(newVal(ev)), IfaceV{}}
	}
	models["("+ethABI+".ABI).Unpack"] = func(it *Interp, a []Val) Val {
		name, _ := a[1].(*StrV).concreteString()
		if name == "" {
			name = "sym"
		}
		data := a[2].(*StrV)
		t := it.toA(data)
		it.strLenTerm(t)
		if !it.p.branch(App("abiunpacks!ev", SBool, t)) {
			return Tuple{&SliceV{}, it.newErr(IfaceV{}, "abi: unpack failed")}
		}
		el := []Val{IfaceV{V: &Native{Kind: "abiunpacked", Data: t, Tag: name}}}
		return Tuple{&SliceV{Arr: &el, Len: 1, Cap: 1}, IfaceV{}}
	}
	models["encoding/json.Unmarshal"] = func(it *Interp, a []Val) Val {
		src := a[0].(*StrV)
		iv := a[1].(IfaceV)
		p, ok := iv.V.(Ptr)
		if !ok || p == nil {
			it.fail("json.Unmarshal into %s", it.describe(a[1]))
		}
		elem := iv.T.Underlying().(*types.Pointer).Elem()
		if src.BoxK == "json" {
			if inner, ok := src.Boxed.(IfaceV); ok {
				if n, ok := inner.V.(*Native); ok && n.Kind == "abiunpacked" && isStrLike(elem) {
					d := n.Data.(*Term)
					if !it.p.branch(App("json_roundtrip_ok", SBool, d)) {
						return it.newErr(IfaceV{}, "json: cannot unmarshal")
					}
					r := App("event_payload", SStr, d)
					it.strLenTerm(r)
					*p = &StrV{T: r}
					return IfaceV{}
				}
			}
		}
		it.fail("json.Unmarshal of %s into %s is not modelled", it.describe(src), elem)
		return nil
	}
	execThrough["github.com/ethereum/go-ethereum/core/types.NewMessage"] = true
	for _, m := range []string{"From", "To", "Data", "Nonce", "Value", "Gas", "GasPrice", "GasFeeCap", "GasTipCap", "AccessList", "IsFake"} {
		execThrough["(github.com/ethereum/go-ethereum/core/types.Message)."+m] = true
	}
	execThrough["github.com/tharsis/ethermint/x/evm/types.LogsToEthereum"] = true
	execThrough["(*github.com/tharsis/ethermint/x/evm/types.Log).ToEthereum"] = true
	execThrough["(*github.com/tharsis/ethermint/x/evm/types.MsgEthereumTxResponse).Failed"] = true
	autoOpaque["github.com/tharsis/ethermint/x/evm/types.NewNoOpTracer"] = true
	models["encoding/json.Marshal"] = func(it *Interp, a []Val) Val {
		return Tuple{&StrV{Boxed: copyDeep(a[0]), BoxK: "json"}, IfaceV{}}
	}
}
