package main

import (
	"crypto/sha256"
	"encoding/hex"
	"encoding/json"
	"go/types"
	"strings"
)

const ethCommon = "github.com/ethereum/go-ethereum/common"
const ethABI = "github.com/ethereum/go-ethereum/accounts/abi"

func fixedBytes(it *Interp, s *StrV, n int, name string) *StrV {
	// BytesToAddress / BytesToHash: keep the last n bytes, left-pad with zeros
	if isPlainB(s) {
		bs := make([]*Term, n)
		src := s.Bytes
		if len(src) > n {
			src = src[len(src)-n:]
		}
		for i := range bs {
			bs[i] = BVu(8, 0)
		}
		copy(bs[n-len(src):], src)
		return &StrV{Bytes: bs, IsB: true, IsArr: true}
	}
	t := it.toA(s)
	ln := it.strLenTerm(t)
	r := App(name, SStr, t)
	if !it.p.lenAx[r.id] {
		it.p.lenAx[r.id] = true
		it.p.assertAxiom(Eq(App("len", bvSort(64), r), BVu(64, uint64(n))))
		// exact-length inputs are preserved
		it.p.assertAxiom(Implies(Eq(ln, BVu(64, uint64(n))), Eq(r, t)))
	}
	return &StrV{T: r, IsArr: true}
}

func init() {
	models[ethCommon+".BytesToAddress"] = func(it *Interp, a []Val) Val { return fixedBytes(it, a[0].(*StrV), 20, "bytes2addr") }
	models[ethCommon+".BytesToHash"] = func(it *Interp, a []Val) Val { return fixedBytes(it, a[0].(*StrV), 32, "bytes2hash") }
	hexTo := func(n int, name string) modelFn {
		return func(it *Interp, a []Val) Val {
			s := a[0].(*StrV)
			if cs, ok := s.concreteString(); ok {
				cs = strings.TrimPrefix(strings.TrimPrefix(cs, "0x"), "0X")
				if len(cs)%2 == 1 {
					cs = "0" + cs
				}
				b, _ := hex.DecodeString(cs)
				return fixedBytes(it, strLit(string(b)), n, name)
			}
			in := it.toA(s)
			if in.op == "app" && in.name == name+"hex" {
				// HexToAddress(addr.Hex()) == addr
				return &StrV{T: in.args[0], IsArr: true}
			}
			t := App("hex2"+name, SStr, in)
			if !it.p.lenAx[t.id] {
				it.p.lenAx[t.id] = true
				it.p.assertAxiom(Eq(App("len", bvSort(64), t), BVu(64, uint64(n))))
			}
			return &StrV{T: t, IsArr: true}
		}
	}
	models[ethCommon+".HexToAddress"] = hexTo(20, "addr")
	models[ethCommon+".HexToHash"] = hexTo(32, "hash")
	models[ethCommon+".IsHexAddress"] = func(it *Interp, a []Val) Val {
		s := a[0].(*StrV)
		if cs, ok := s.concreteString(); ok {
			cs = strings.TrimPrefix(strings.TrimPrefix(cs, "0x"), "0X")
			_, err := hex.DecodeString(cs)
			return Bool(len(cs) == 40 && err == nil)
		}
		t := it.toA(s)
		if t.op == "app" && t.name == "addrhex" {
			return TTrue // IsHexAddress(addr.Hex())
		}
		ok := App("ishexaddr", SBool, t)
		if !it.p.lenAx[ok.id] {
			// a hex address is 40 hex digits with an optional 0x prefix
			it.p.lenAx[ok.id] = true
			ln := it.strLenTerm(t)
			it.p.assertAxiom(Implies(ok, Or(Eq(ln, BVu(64, 40)), Eq(ln, BVu(64, 42)))))
		}
		return ok
	}
	ident := func(it *Interp, a []Val) Val {
		s := a[0].(*StrV)
		n := *s
		n.IsArr = false
		if s.IsB {
			n.Bytes = append([]*Term(nil), s.Bytes...)
		}
		return &n
	}
	models["("+ethCommon+".Address).Bytes"] = ident
	models["("+ethCommon+".Hash).Bytes"] = ident
	hexOf := func(name string) modelFn {
		return func(it *Interp, a []Val) Val {
			s := a[0].(*StrV)
			if cs, ok := s.concreteString(); ok && name == "hashhex" {
				return strLit("0x" + hex.EncodeToString([]byte(cs)))
			}
			t := App(name, SStr, it.toA(s))
			it.p.noteInjective(name, t)
			if !it.p.lenAx[t.id] {
				it.p.lenAx[t.id] = true
				n := 42
				if name == "hashhex" {
					n = 66
				}
				it.p.assertAxiom(Eq(App("len", bvSort(64), t), BVu(64, uint64(n))))
			}
			return &StrV{T: t}
		}
	}
	models["("+ethCommon+".Address).Hex"] = hexOf("addrhex")
	models["("+ethCommon+".Address).String"] = hexOf("addrhex")
	models["("+ethCommon+".Hash).Hex"] = hexOf("hashhex")
	models["("+ethCommon+".Hash).String"] = hexOf("hashhex")

	// ---- ABI (reflection code in go-ethereum): calls are boxed values ----
	models["("+ethABI+".ABI).Pack"] = func(it *Interp, a []Val) Val {
		args := sliceArgs(a[2])
		elems := []Val{a[1]}
		for _, x := range args {
			// go-ethereum's packer dereferences pointer arguments (*big.Int): a nil one panics
			if iv, ok := x.(IfaceV); ok {
				if p, isPtr := iv.V.(Ptr); isPtr && p == nil {
					it.tpanic("abi.Pack: nil pointer argument (reflect: call of reflect.Value.Type on zero Value)")
				}
			}
			elems = append(elems, copyDeep(x))
		}
		return Tuple{&StrV{Boxed: &SliceV{Arr: &elems, Len: len(elems), Cap: len(elems)}, BoxK: "abicall"}, IfaceV{}}
	}
	models["("+ethABI+".ABI).UnpackIntoInterface"] = func(it *Interp, a []Val) Val {
		iv := a[1].(IfaceV)
		p, ok := iv.V.(Ptr)
		if !ok || p == nil {
			it.fail("UnpackIntoInterface into %s", it.describe(a[1]))
		}
		name, _ := a[2].(*StrV).concreteString()
		data := a[3].(*StrV)
		elem := iv.T.Underlying().(*types.Pointer).Elem()
		t := it.toA(data)
		it.strLenTerm(t)
		if !it.p.branch(App("abiunpacks!"+name, SBool, t)) {
			return it.newErr(IfaceV{}, "abi: unpack failed")
		}
		*p = it.freshValue(elem, "", it.decodeMaker(t, "abiret!"+name+"!"+typeKey(elem)), freshOpts{maxLen: it.ex.cfg.DecodeMaxLen})
		return IfaceV{}
	}
	// events: EventByID / Unpack are functions of the topic / data
	models["(*"+ethABI+".ABI).EventByID"] = func(it *Interp, a []Val) Val {
		topic := a[1].(*StrV)
		t := it.toA(topic)
		var evT types.Type
		for _, p := range it.prog.AllPackages() {
			if p.Pkg.Path() == ethABI {
				evT = p.Pkg.Scope().Lookup("Event").Type()
			}
		}
		if !it.p.branch(App("abi_event_known", SBool, t)) {
			return Tuple{Ptr(nil), it.newErr(IfaceV{}, "no event with id")}
		}
		ev := it.zero(evT).(*StructV)
		st := evT.Underlying().(*types.Struct)
		for i := 0; i < st.NumFields(); i++ {
			if st.Field(i).Name() == "Name" || st.Field(i).Name() == "RawName" {
				nm := App("abi_event_name", SStr, t)
				it.strLenTerm(nm)
				ev.F[i] = &StrV{T: nm}
			}
		}
		return Tuple{Ptr(newVal(ev)), IfaceV{}}
	}
	models["("+ethABI+".ABI).Unpack"] = func(it *Interp, a []Val) Val {
		name, _ := a[1].(*StrV).concreteString()
		if name == "" {
			name = "sym"
		}
		data := a[2].(*StrV)
		t := it.toA(data)
		it.strLenTerm(t)
		if !it.p.branch(App("abiunpacks!ev", SBool, t)) {
			return Tuple{&SliceV{}, it.newErr(IfaceV{}, "abi: unpack failed")}
		}
		el := []Val{IfaceV{V: &Native{Kind: "abiunpacked", Data: t, Tag: name}}}
		return Tuple{&SliceV{Arr: &el, Len: 1, Cap: 1}, IfaceV{}}
	}
	models["encoding/json.Unmarshal"] = func(it *Interp, a []Val) Val {
		src := a[0].(*StrV)
		iv := a[1].(IfaceV)
		p, ok := iv.V.(Ptr)
		if !ok || p == nil {
			it.fail("json.Unmarshal into %s", it.describe(a[1]))
		}
		elem := iv.T.Underlying().(*types.Pointer).Elem()
		if src.BoxK == "json" {
			if inner, ok := src.Boxed.(IfaceV); ok {
				if n, ok := inner.V.(*Native); ok && n.Kind == "abiunpacked" && isStrLike(elem) {
					d := n.Data.(*Term)
					if !it.p.branch(App("json_roundtrip_ok", SBool, d)) {
						return it.newErr(IfaceV{}, "json: cannot unmarshal")
					}
					r := App("event_payload", SStr, d)
					it.strLenTerm(r)
					*p = &StrV{T: r}
					return IfaceV{}
				}
			}
		}
		if src.Boxed == nil {
			if _, isStruct := elem.Underlying().(*types.Struct); isStruct {
				t := it.toA(src)
				it.strLenTerm(t)
				if !it.p.branch(App("jsondecodes!"+typeKey(elem), SBool, t)) {
					return it.newErr(IfaceV{}, "json: cannot unmarshal")
				}
				*p = it.freshValue(elem, "", it.decodeMaker(t, "json!"+typeKey(elem)), freshOpts{maxLen: it.ex.cfg.DecodeMaxLen})
				return IfaceV{}
			}
		}
		it.fail("json.Unmarshal of %s into %s is not modelled", it.describe(src), elem)
		return nil
	}
	execThrough["github.com/ethereum/go-ethereum/core/types.NewMessage"] = true
	execThrough["github.com/ethereum/go-ethereum/common/math.BigMax"] = true
	execThrough["github.com/tharsis/ethermint/types.ValidateAddress"] = true
	execThrough["github.com/ethereum/go-ethereum/common/math.BigMin"] = true
	for _, m := range []string{"From", "To", "Data", "Nonce", "Value", "Gas", "GasPrice", "GasFeeCap", "GasTipCap", "AccessList", "IsFake"} {
		execThrough["(github.com/ethereum/go-ethereum/core/types.Message)."+m] = true
	}
	execThrough["github.com/tharsis/ethermint/x/evm/types.LogsToEthereum"] = true
	execThrough["(*github.com/tharsis/ethermint/x/evm/types.Log).ToEthereum"] = true
	execThrough["(*github.com/tharsis/ethermint/x/evm/types.MsgEthereumTxResponse).Failed"] = true
	autoOpaque["github.com/tharsis/ethermint/x/evm/types.NewNoOpTracer"] = true
	models["encoding/json.Marshal"] = func(it *Interp, a []Val) Val {
		return Tuple{&StrV{Boxed: copyDeep(a[0]), BoxK: "json"}, IfaceV{}}
	}
}

// ethabi.JSON: the ABI's Events and Methods maps are built from the JSON text (names only); an event's ID is a
// stand-in 32-byte constant derived from its name (the real keccak id is never recomputed by the targets).
func init() {
	models["strings.NewReader"] = func(it *Interp, a []Val) Val {
		return Ptr(newVal(&Native{Kind: "stringsreader", Data: a[0]}))
	}
	models[ethABI+".JSON"] = func(it *Interp, a []Val) Val {
		var src *StrV
		if iv, ok := a[0].(IfaceV); ok {
			if p, ok := iv.V.(Ptr); ok && p != nil {
				if n, ok := (*p).(*Native); ok && n.Kind == "stringsreader" {
					src = n.Data.(*StrV)
				}
			}
		}
		if src == nil {
			it.fail("abi.JSON: unsupported reader")
		}
		text, ok := src.concreteString()
		if !ok {
			it.fail("abi.JSON of symbolic text")
		}
		return Tuple{it.abiFromJSON(text), IfaceV{}}
	}
}

func (it *Interp) abiFromJSON(text string) Val {
	var entries []struct {
		Type string `json:"type"`
		Name string `json:"name"`
	}
	if err := json.Unmarshal([]byte(text), &entries); err != nil {
		it.fail("abi.JSON: %v", err)
	}
	var abiT, evT, mT types.Type
	for _, p := range it.prog.AllPackages() {
		if p.Pkg.Path() == ethABI {
			abiT = p.Pkg.Scope().Lookup("ABI").Type()
			evT = p.Pkg.Scope().Lookup("Event").Type()
			mT = p.Pkg.Scope().Lookup("Method").Type()
		}
	}
	res := it.zero(abiT).(*StructV)
	st := abiT.Underlying().(*types.Struct)
	events, methods := &MapV{}, &MapV{}
	setName := func(s *StructV, t types.Type, name string, id *StrV) {
		ss := t.Underlying().(*types.Struct)
		for i := 0; i < ss.NumFields(); i++ {
			switch ss.Field(i).Name() {
			case "Name", "RawName":
				s.F[i] = strLit(name)
			case "ID":
				if id != nil && isStrLike(ss.Field(i).Type()) {
					s.F[i] = id
				}
			}
		}
	}
	for _, e := range entries {
		switch e.Type {
		case "event":
			h := sha256.Sum256([]byte("event:" + e.Name))
			id := strLit(string(h[:]))
			id.IsArr = true
			ev := it.zero(evT).(*StructV)
			setName(ev, evT, e.Name, id)
			events.E = append(events.E, mapEntry{K: strLit(e.Name), V: ev})
		case "function":
			m := it.zero(mT).(*StructV)
			h := sha256.Sum256([]byte("method:" + e.Name))
			setName(m, mT, e.Name, strLit(string(h[:4])))
			methods.E = append(methods.E, mapEntry{K: strLit(e.Name), V: m})
		}
	}
	for i := 0; i < st.NumFields(); i++ {
		switch st.Field(i).Name() {
		case "Events":
			res.F[i] = events
		case "Methods":
			res.F[i] = methods
		}
	}
	return res
}

// abi.Unpack for uint256-returning ERC-20 getters: one *big.Int that is a function of the return data.
func init() {
	prev := models["("+ethABI+".ABI).Unpack"]
	models["("+ethABI+".ABI).Unpack"] = func(it *Interp, a []Val) Val {
		name, _ := a[1].(*StrV).concreteString()
		if name == "balanceOf" || name == "totalSupply" || name == "allowance" {
			data := a[2].(*StrV)
			t := it.toA(data)
			it.strLenTerm(t)
			if !it.p.branch(App("abiunpacks!"+name, SBool, t)) {
				return Tuple{&SliceV{}, it.newErr(IfaceV{}, "abi: unpack failed")}
			}
			v := App("abiret_uint!"+name, SInt, t)
			it.p.assertAxiom(IntCmp(">=", v, IntI(0)))
			var bigT types.Type
			for _, p := range it.prog.AllPackages() {
				if p.Pkg.Path() == "math/big" {
					bigT = types.NewPointer(p.Pkg.Scope().Lookup("Int").Type())
				}
			}
			el := []Val{IfaceV{T: bigT, V: Ptr(newVal(IntV{v}))}}
			return Tuple{&SliceV{Arr: &el, Len: 1, Cap: 1}, IfaceV{}}
		}
		return prev(it, a)
	}
}
