package main

import (
	"fmt"
	"math/big"
	"strings"
)

// math/big.Int is a mathematical integer (SMT Int). *big.Int is a pointer to a slot holding IntV.

func bigOf(it *Interp, v Val) *Term {
	p, ok := v.(Ptr)
	if !ok {
		it.fail("expected *big.Int, got %s", it.describe(v))
	}
	if p == nil {
		it.tpanic("nil pointer dereference (*big.Int)")
	}
	iv, ok := (*p).(IntV)
	if !ok {
		it.fail("*big.Int points to %s", it.describe(*p))
	}
	return iv.T
}

func setBig(it *Interp, z Val, t *Term) Val {
	p := z.(Ptr)
	if p == nil {
		it.tpanic("nil pointer dereference (*big.Int receiver)")
	}
	*p = IntV{t}
	return z
}

func intAbs(t *Term) *Term { return Ite(IntCmp("<", t, IntI(0)), IntNeg(t), t) }

// truncated division (Go's Quo/Rem) from SMT's euclidean div/mod
func intQuoRem(x, y *Term) (*Term, *Term) {
	if x.IsConst() && y.IsConst() && y.val.Sign() != 0 {
		q, r := new(big.Int).QuoRem(x.val, y.val, new(big.Int))
		return IntC(q), IntC(r)
	}
	ax, ay := intAbs(x), intAbs(y)
	q := mk("div", SInt, ax, ay)
	r := mk("mod", SInt, ax, ay)
	neg := Not(Eq(IntCmp("<", x, IntI(0)), IntCmp("<", y, IntI(0))))
	return Ite(neg, IntNeg(q), q), Ite(IntCmp("<", x, IntI(0)), IntNeg(r), r)
}

var pow2 = func(n uint) *big.Int { return new(big.Int).Lsh(big1, n) }

func init() {
	B := func(name string, f modelFn) { models["(*math/big.Int)."+name] = f }
	models["math/big.NewInt"] = func(it *Interp, a []Val) Val {
		return Ptr(newVal(IntV{BVToIntSigned(a[0].(*Term))}))
	}
	bin := func(op string) modelFn {
		return func(it *Interp, a []Val) Val { return setBig(it, a[0], IntBin(op, bigOf(it, a[1]), bigOf(it, a[2]))) }
	}
	B("Add", bin("+"))
	B("Sub", bin("-"))
	B("Mul", bin("*"))
	B("Set", func(it *Interp, a []Val) Val { return setBig(it, a[0], bigOf(it, a[1])) })
	B("SetUint64", func(it *Interp, a []Val) Val { return setBig(it, a[0], BVToNat(a[1].(*Term))) })
	B("SetInt64", func(it *Interp, a []Val) Val { return setBig(it, a[0], BVToIntSigned(a[1].(*Term))) })
	B("Neg", func(it *Interp, a []Val) Val { return setBig(it, a[0], IntNeg(bigOf(it, a[1]))) })
	B("Abs", func(it *Interp, a []Val) Val { return setBig(it, a[0], intAbs(bigOf(it, a[1]))) })
	B("Cmp", func(it *Interp, a []Val) Val {
		x, y := bigOf(it, a[0]), bigOf(it, a[1])
		return Ite(IntCmp("<", x, y), BVi(64, -1), Ite(Eq(x, y), BVi(64, 0), BVi(64, 1)))
	})
	B("CmpAbs", func(it *Interp, a []Val) Val {
		x, y := intAbs(bigOf(it, a[0])), intAbs(bigOf(it, a[1]))
		return Ite(IntCmp("<", x, y), BVi(64, -1), Ite(Eq(x, y), BVi(64, 0), BVi(64, 1)))
	})
	B("Sign", func(it *Interp, a []Val) Val {
		x := bigOf(it, a[0])
		return Ite(IntCmp("<", x, IntI(0)), BVi(64, -1), Ite(Eq(x, IntI(0)), BVi(64, 0), BVi(64, 1)))
	})
	low64 := func(it *Interp, x *Term) *Term {
		if x.IsConst() {
			return IntToBV(64, x)
		}
		if x.op == "bv2nat" && x.args[0].w == 64 {
			return x.args[0]
		}
		// the low 64 bits as an uninterpreted function with the facts the targets use (int2bv stalls the solver)
		r := App("big_low64", bvSort(64), x)
		if !it.p.lenAx[-r.id] {
			it.p.lenAx[-r.id] = true
			inRange := And(IntCmp(">=", x, IntI(0)), IntCmp("<", x, IntC(pow2(64))))
			it.p.assertAxiom(Implies(Eq(x, IntI(0)), Eq(r, BVu(64, 0))))
			it.p.assertAxiom(Implies(And(inRange, Not(Eq(x, IntI(0)))), Not(Eq(r, BVu(64, 0)))))
			it.p.assertAxiom(Implies(inRange, Eq(BVToNat(r), x)))
		}
		return r
	}
	B("Uint64", func(it *Interp, a []Val) Val { return low64(it, intAbs(bigOf(it, a[0]))) })
	B("Int64", func(it *Interp, a []Val) Val { return low64(it, bigOf(it, a[0])) })
	B("IsUint64", func(it *Interp, a []Val) Val {
		x := bigOf(it, a[0])
		return And(IntCmp(">=", x, IntI(0)), IntCmp("<", x, IntC(pow2(64))))
	})
	B("IsInt64", func(it *Interp, a []Val) Val {
		x := bigOf(it, a[0])
		return And(IntCmp(">=", x, IntC(new(big.Int).Neg(pow2(63)))), IntCmp("<", x, IntC(pow2(63))))
	})
	B("BitLen", func(it *Interp, a []Val) Val {
		x := bigOf(it, a[0])
		if x.IsConst() {
			return BVi(64, int64(x.val.BitLen()))
		}
		r := App("bitlen", bvSort(64), x)
		ax := intAbs(x)
		it.p.assertAxiom(BVCmp("bvult", r, BVu(64, 1<<20)))
		for _, th := range []uint{0, 63, 64, 255, 256, 257} {
			// bitlen(x) > th  <=>  |x| >= 2^th
			it.p.assertAxiom(Eq(BVCmp("bvugt", r, BVu(64, uint64(th))), IntCmp(">=", ax, IntC(pow2(th)))))
		}
		return r
	})
	B("String", func(it *Interp, a []Val) Val {
		x := bigOf(it, a[0])
		if x.IsConst() {
			return strLit(x.val.String())
		}
		t := App("bigstr", SStr, x)
		it.p.noteInjective("bigstr", t)
		return &StrV{T: t}
	})
	B("Quo", func(it *Interp, a []Val) Val {
		x, y := bigOf(it, a[1]), bigOf(it, a[2])
		if it.p.branch(Eq(y, IntI(0))) {
			it.tpanic("division by zero (big.Int)")
		}
		q, _ := intQuoRem(x, y)
		return setBig(it, a[0], q)
	})
	B("Rem", func(it *Interp, a []Val) Val {
		x, y := bigOf(it, a[1]), bigOf(it, a[2])
		if it.p.branch(Eq(y, IntI(0))) {
			it.tpanic("division by zero (big.Int)")
		}
		_, r := intQuoRem(x, y)
		return setBig(it, a[0], r)
	})
	B("Div", func(it *Interp, a []Val) Val { // euclidean
		x, y := bigOf(it, a[1]), bigOf(it, a[2])
		if it.p.branch(Eq(y, IntI(0))) {
			it.tpanic("division by zero (big.Int)")
		}
		return setBig(it, a[0], mk("div", SInt, x, y))
	})
	B("Mod", func(it *Interp, a []Val) Val {
		x, y := bigOf(it, a[1]), bigOf(it, a[2])
		if it.p.branch(Eq(y, IntI(0))) {
			it.tpanic("division by zero (big.Int)")
		}
		return setBig(it, a[0], mk("mod", SInt, x, y))
	})
	B("SetString", func(it *Interp, a []Val) Val {
		s := a[1].(*StrV)
		base := a[2].(*Term)
		if cs, ok := s.concreteString(); ok && base.IsConst() {
			v, ok := new(big.Int).SetString(cs, int(base.val.Int64()))
			if !ok {
				return Tuple{Ptr(nil), TFalse}
			}
			setBig(it, a[0], IntC(v))
			return Tuple{a[0], TTrue}
		}
		t := it.toA(s)
		if t.op == "app" && t.name == "bigstr" {
			setBig(it, a[0], t.args[0])
			return Tuple{a[0], TTrue}
		}
		// whether a text is a number, and which, depends on the base (base 0 accepts 0x.., 0b.., 0o.. and '_' separators and
		// reads a leading 0 as octal): one uninterpreted pair per base, unrelated to each other (over-approximation)
		suffix := ""
		if !base.IsConst() {
			it.fail("big.Int.SetString with a symbolic base")
		} else if b := base.val.Int64(); b != 10 {
			suffix = fmt.Sprintf("!base%d", b)
		}
		if !it.p.branch(App("isbigstr"+suffix, SBool, t)) {
			return Tuple{Ptr(nil), TFalse}
		}
		v := App("bigparse"+suffix, SInt, t)
		setBig(it, a[0], v)
		return Tuple{a[0], TTrue}
	})
	B("SetBytes", func(it *Interp, a []Val) Val {
		s := a[1].(*StrV)
		if isPlainB(s) {
			acc := IntI(0)
			for _, b := range s.Bytes {
				acc = IntBin("+", IntBin("*", acc, IntI(256)), BVToNat(b))
			}
			return setBig(it, a[0], acc)
		}
		v := App("bytes2big", SInt, it.toA(s))
		it.p.assertAxiom(IntCmp(">=", v, IntI(0)))
		return setBig(it, a[0], v)
	})
	B("Bytes", func(it *Interp, a []Val) Val {
		x := bigOf(it, a[0])
		if x.IsConst() {
			return strLit(string(x.val.Bytes()))
		}
		t := App("big2bytes", SStr, intAbs(x))
		it.p.noteInjective("big2bytes", t)
		it.strLenTerm(t)
		return &StrV{T: t}
	})
	B("Exp", func(it *Interp, a []Val) Val {
		x, y := bigOf(it, a[1]), bigOf(it, a[2])
		if x.IsConst() && y.IsConst() {
			var m *big.Int
			if p, ok := a[3].(Ptr); ok && p != nil {
				mt := bigOf(it, a[3])
				if !mt.IsConst() {
					it.fail("big.Exp with symbolic modulus")
				}
				m = mt.val
			}
			return setBig(it, a[0], IntC(new(big.Int).Exp(x.val, y.val, m)))
		}
		return setBig(it, a[0], App("bigexp", SInt, x, y))
	})
	B("Lsh", func(it *Interp, a []Val) Val {
		x := bigOf(it, a[1])
		n := a[2].(*Term)
		if !n.IsConst() {
			it.fail("big.Lsh by symbolic count")
		}
		return setBig(it, a[0], IntBin("*", x, IntC(pow2(uint(n.val.Uint64())))))
	})
	B("Rsh", func(it *Interp, a []Val) Val {
		x := bigOf(it, a[1])
		n := a[2].(*Term)
		if !n.IsConst() {
			it.fail("big.Rsh by symbolic count")
		}
		return setBig(it, a[0], mk("div", SInt, x, IntC(pow2(uint(n.val.Uint64())))))
	})

	// cosmos-sdk Int / Coin / Coins are executed from their SSA bodies on top of the big.Int model
	for _, pre := range []string{"(" + sdkT + ".Int).", "(*" + sdkT + ".Int).", "(" + sdkT + ".Coin).", "(*" + sdkT + ".Coin).", "(" + sdkT + ".Coins).", "(" + sdkT + ".Uint)."} {
		execThroughPrefixes = append(execThroughPrefixes, pre)
	}
	for _, f := range []string{"NewInt", "NewIntFromUint64", "NewIntFromBigInt", "ZeroInt", "OneInt", "NewCoin", "NewInt64Coin", "NewCoins", "sanitizeCoins", "removeZeroCoins",
		"ValidateDenom", "mustValidateDenom", "add", "sub", "mul", "div", "quo", "mod", "neg", "abs", "equal", "gt", "gte", "lt", "lte", "min", "max", "cmp", "NewIntWithDecimal", "MinInt", "MaxInt"} {
		execThrough[sdkT+"."+f] = true
	}
	// bank metadata validation (plain string code on top of ValidateDenom and TrimSpace)
	execThrough["(github.com/cosmos/cosmos-sdk/x/bank/types.Metadata).Validate"] = true
	execThrough["(github.com/cosmos/cosmos-sdk/x/bank/types.DenomUnit).Validate"] = true
	// the SDK's typed-event conversion (its loop over a map is the subject of a C14 harness; marshalling is stubbed there)
	execThrough[sdkT+".TypedEventToEvent"] = true
	// range-end helpers of the store (plain byte-slice code)
	for _, f := range []string{sdkT + ".PrefixEndBytes", sdkT + ".InclusiveEndBytes", "github.com/cosmos/cosmos-sdk/store/types.PrefixEndBytes", "github.com/cosmos/cosmos-sdk/store/types.InclusiveEndBytes"} {
		execThrough[f] = true
	}
	_ = strings.HasPrefix
}

var execThroughPrefixes []string

// dependency source files whose functions are executed from SSA
var execThroughFiles = []string{
	"cosmos-sdk@v0.45.2/types/int.go",
	"cosmos-sdk@v0.45.2/types/uint.go",
	"cosmos-sdk@v0.45.2/types/coin.go",
	"cosmos-sdk@v0.45.2/types/decimal.go",
}
