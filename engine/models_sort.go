package main

import (
	"go/types"

	"golang.org/x/tools/go/ssa"
)

// sort.Sort / sort.Stable: insertion sort over the real Len/Less/Swap methods (comparisons may branch).
func (it *Interp) methodOf(iv IfaceV, name string) *ssa.Function {
	ms := it.prog.MethodSets.MethodSet(iv.T)
	for i := 0; i < ms.Len(); i++ {
		if ms.At(i).Obj().Name() == name {
			return it.prog.MethodValue(ms.At(i))
		}
	}
	it.fail("sort: %s has no method %s", iv.T, name)
	return nil
}

func init() {
	sortModel := func(it *Interp, a []Val) Val {
		iv := a[0].(IfaceV)
		if iv.IsNil() || iv.T == nil {
			it.fail("sort.Sort of %s", it.describe(a[0]))
		}
		lenF, lessF, swapF := it.methodOf(iv, "Len"), it.methodOf(iv, "Less"), it.methodOf(iv, "Swap")
		n := it.concreteInt(it.callFunction(lenF, []Val{iv.V}, nil), "sort length")
		for i := 1; i < n; i++ {
			for j := i; j > 0; j-- {
				lt := it.callFunction(lessF, []Val{iv.V, BVi(64, int64(j)), BVi(64, int64(j-1))}, nil).(*Term)
				if !it.p.branch(lt) {
					break
				}
				it.callFunction(swapF, []Val{iv.V, BVi(64, int64(j)), BVi(64, int64(j-1))}, nil)
			}
		}
		return nil
	}
	models["sort.Sort"] = sortModel
	models["sort.Stable"] = sortModel
	models["sort.Strings"] = func(it *Interp, a []Val) Val {
		sl := a[0].(*SliceV)
		for i := 1; i < sl.Len; i++ {
			for j := i; j > 0; j-- {
				x, y := (*sl.Arr)[sl.Off+j].(*StrV), (*sl.Arr)[sl.Off+j-1].(*StrV)
				var lt *Term
				if !isPlainB(x) || !isPlainB(y) {
					lt = it.strLessOpaque(x, y)
				} else {
					lt, _ = it.bytesLess(x.Bytes, y.Bytes)
				}
				if !it.p.branch(lt) {
					break
				}
				(*sl.Arr)[sl.Off+j], (*sl.Arr)[sl.Off+j-1] = y, x
			}
		}
		return nil
	}
	models["sort.Slice"] = func(it *Interp, a []Val) Val {
		iv := a[0].(IfaceV)
		sl, ok := iv.V.(*SliceV)
		if !ok {
			it.fail("sort.Slice of %s", it.describe(a[0]))
		}
		for i := 1; i < sl.Len; i++ {
			for j := i; j > 0; j-- {
				lt := it.call(a[1], []Val{BVi(64, int64(j)), BVi(64, int64(j-1))}, nil).(*Term)
				if !it.p.branch(lt) {
					break
				}
				(*sl.Arr)[sl.Off+j], (*sl.Arr)[sl.Off+j-1] = (*sl.Arr)[sl.Off+j-1], (*sl.Arr)[sl.Off+j]
			}
		}
		return nil
	}
	_ = types.Typ
}
