package main

import "math/big"

// time.Time is a 72-bit signed count of nanoseconds since the Unix epoch (wide enough for Go's zero time and for
// adding any int64 Duration to any plausible instant without wrapping); time.Duration is an int64 that wraps as in Go.

const timeW = 72

func timeOf(it *Interp, v Val) *Term {
	t, ok := v.(TimeV)
	if !ok {
		it.fail("expected time.Time, got %s", it.describe(v))
	}
	return t.NS
}

func timeConst(ns *big.Int) *Term { return BV(timeW, ns) }

func init() {
	T := func(name string, f modelFn) { models["(time.Time)."+name] = f }
	T("UnixNano", func(it *Interp, a []Val) Val { return Extract(63, 0, timeOf(it, a[0])) })
	T("Unix", func(it *Interp, a []Val) Val { return it.unixSeconds(timeOf(it, a[0])) })
	T("Add", func(it *Interp, a []Val) Val {
		return TimeV{BVBin("bvadd", timeOf(it, a[0]), SignExt(timeW, a[1].(*Term)))}
	})
	T("Sub", func(it *Interp, a []Val) Val {
		d := BVBin("bvsub", timeOf(it, a[0]), timeOf(it, a[1]))
		maxD := BV(timeW, new(big.Int).Sub(pow2(63), big1))
		minD := BV(timeW, new(big.Int).Neg(pow2(63)))
		return Extract(63, 0, Ite(BVCmp("bvsgt", d, maxD), maxD, Ite(BVCmp("bvslt", d, minD), minD, d)))
	})
	T("After", func(it *Interp, a []Val) Val { return BVCmp("bvsgt", timeOf(it, a[0]), timeOf(it, a[1])) })
	T("Before", func(it *Interp, a []Val) Val { return BVCmp("bvslt", timeOf(it, a[0]), timeOf(it, a[1])) })
	T("Equal", func(it *Interp, a []Val) Val { return Eq(timeOf(it, a[0]), timeOf(it, a[1])) })
	T("IsZero", func(it *Interp, a []Val) Val {
		z, _ := newBig(zeroTimeNS)
		return Eq(timeOf(it, a[0]), timeConst(z))
	})
	T("UTC", func(it *Interp, a []Val) Val { return a[0] })
	T("Local", func(it *Interp, a []Val) Val { return a[0] })
	T("Round", func(it *Interp, a []Val) Val { return a[0] })
	T("String", func(it *Interp, a []Val) Val {
		t := App("timestr", SStr, timeOf(it, a[0]))
		return &StrV{T: t}
	})
	models["time.Unix"] = func(it *Interp, a []Val) Val {
		return TimeV{BVBin("bvadd", BVBin("bvmul", SignExt(timeW, a[0].(*Term)), BVi(timeW, 1000000000)), SignExt(timeW, a[1].(*Term)))}
	}
	models["time.Since"] = func(it *Interp, a []Val) Val { return Var(it.p.freshName("since"), bvSort(64)) }
	models["(time.Duration).String"] = func(it *Interp, a []Val) Val {
		return &StrV{T: App("durstr", SStr, a[0].(*Term))}
	}
	models["(time.Duration).Nanoseconds"] = func(it *Interp, a []Val) Val { return a[0] }
	// encoding/binary.BigEndian
	models["(encoding/binary.bigEndian).PutUint64"] = func(it *Interp, a []Val) Val {
		b := a[1].(*StrV)
		if !isPlainB(b) || len(b.Bytes) < 8 {
			if isPlainB(b) {
				it.tpanic("PutUint64: short buffer")
			}
			it.fail("PutUint64 into opaque bytes")
		}
		x := a[2].(*Term)
		for i := 0; i < 8; i++ {
			b.Bytes[i] = Extract(63-8*i, 56-8*i, x)
		}
		return nil
	}
	models["(encoding/binary.bigEndian).Uint64"] = func(it *Interp, a []Val) Val { return it.beToU64(a[1].(*StrV)) }
	models["(encoding/binary.bigEndian).PutUint32"] = func(it *Interp, a []Val) Val {
		b := a[1].(*StrV)
		if !isPlainB(b) || len(b.Bytes) < 4 {
			it.tpanic("PutUint32: short buffer")
		}
		x := a[2].(*Term)
		for i := 0; i < 4; i++ {
			b.Bytes[i] = Extract(31-8*i, 24-8*i, x)
		}
		return nil
	}
}

// unixSeconds: ns / 10^9 is not bit-blasted (a 72-bit division by 10^9 stalls every solver here). The seconds of an
// instant are an uninterpreted function of its nanoseconds with the facts the targets rely on: it is monotone, it
// commutes with adding a whole number of seconds, and it is non-negative for the plausible range.
func (it *Interp) unixSeconds(ns *Term) *Term {
	if ns.IsConst() {
		q := new(big.Int).Div(signed(timeW, ns.val), big.NewInt(1000000000))
		return BV(64, q)
	}
	// t + k seconds
	if ns.op == "bvadd" && len(ns.args) == 2 {
		for i := 0; i < 2; i++ {
			c, o := ns.args[i], ns.args[1-i]
			if c.IsConst() {
				d := signed(timeW, c.val)
				if new(big.Int).Mod(d, big.NewInt(1000000000)).Sign() == 0 {
					k := new(big.Int).Div(d, big.NewInt(1000000000))
					return BVBin("bvadd", it.unixSeconds(o), BV(64, k))
				}
			}
		}
	}
	r := App("unixsec", bvSort(64), ns)
	if it.p.lenAx[-r.id] {
		return r
	}
	it.p.lenAx[-r.id] = true
	it.p.assertAxiom(Implies(BVCmp("bvsge", ns, BVu(timeW, 0)), And(BVCmp("bvsge", r, BVu(64, 0)), BVCmp("bvsle", SignExt(timeW, r), ns))))
	for _, o := range it.p.inj["unixsec"] {
		it.p.assertAxiom(Implies(BVCmp("bvsle", o.args[0], ns), BVCmp("bvsle", o, r)))
		it.p.assertAxiom(Implies(BVCmp("bvsle", ns, o.args[0]), BVCmp("bvsle", r, o)))
	}
	it.p.inj["unixsec"] = append(it.p.inj["unixsec"], r)
	return r
}
