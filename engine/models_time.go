package main

import "math/big"

// time.Time is a 72-bit signed count of nanoseconds since the Unix epoch (wide enough for Go's zero time and for
// adding any int64 Duration to any plausible instant without wrapping); time.Duration is an int64 that wraps as in Go.

const timeW = 72

func timeOf(it *Interp, v Val) *Term {
	t, ok := v.(TimeV)
	if !ok {
		it.fail("expected time.Time, got %s", it.describe(v))
	}
	return t.NS
}

func timeConst(ns *big.Int) *Term { return BV(timeW, ns) }

func init() {
	T := func(name string, f modelFn) { models["(time.Time)."+name] = f }
	T("UnixNano", func(it *Interp, a []Val) Val { return Extract(63, 0, timeOf(it, a[0])) })
	T("Unix", func(it *Interp, a []Val) Val {
		return Extract(63, 0, BVBin("bvsdiv", timeOf(it, a[0]), BVi(timeW, 1000000000)))
	})
	T("Add", func(it *Interp, a []Val) Val {
		return TimeV{BVBin("bvadd", timeOf(it, a[0]), SignExt(timeW, a[1].(*Term)))}
	})
	T("Sub", func(it *Interp, a []Val) Val {
		d := BVBin("bvsub", timeOf(it, a[0]), timeOf(it, a[1]))
		maxD := BV(timeW, new(big.Int).Sub(pow2(63), big1))
		minD := BV(timeW, new(big.Int).Neg(pow2(63)))
		return Extract(63, 0, Ite(BVCmp("bvsgt", d, maxD), maxD, Ite(BVCmp("bvslt", d, minD), minD, d)))
	})
	T("After", func(it *Interp, a []Val) Val { return BVCmp("bvsgt", timeOf(it, a[0]), timeOf(it, a[1])) })
	T("Before", func(it *Interp, a []Val) Val { return BVCmp("bvslt", timeOf(it, a[0]), timeOf(it, a[1])) })
	T("Equal", func(it *Interp, a []Val) Val { return Eq(timeOf(it, a[0]), timeOf(it, a[1])) })
	T("IsZero", func(it *Interp, a []Val) Val {
		z, _ := newBig(zeroTimeNS)
		return Eq(timeOf(it, a[0]), timeConst(z))
	})
	T("UTC", func(it *Interp, a []Val) Val { return a[0] })
	T("Local", func(it *Interp, a []Val) Val { return a[0] })
	T("Round", func(it *Interp, a []Val) Val { return a[0] })
	T("String", func(it *Interp, a []Val) Val {
		t := App("timestr", SStr, timeOf(it, a[0]))
		return &StrV{T: t}
	})
	models["time.Unix"] = func(it *Interp, a []Val) Val {
		return TimeV{BVBin("bvadd", BVBin("bvmul", SignExt(timeW, a[0].(*Term)), BVi(timeW, 1000000000)), SignExt(timeW, a[1].(*Term)))}
	}
	models["time.Since"] = func(it *Interp, a []Val) Val { return Var(it.p.freshName("since"), bvSort(64)) }
	models["(time.Duration).String"] = func(it *Interp, a []Val) Val {
		return &StrV{T: App("durstr", SStr, a[0].(*Term))}
	}
	models["(time.Duration).Nanoseconds"] = func(it *Interp, a []Val) Val { return a[0] }
	// encoding/binary.BigEndian
	models["(encoding/binary.bigEndian).PutUint64"] = func(it *Interp, a []Val) Val {
		b := a[1].(*StrV)
		if !isPlainB(b) || len(b.Bytes) < 8 {
			if isPlainB(b) {
				it.tpanic("PutUint64: short buffer")
			}
			it.fail("PutUint64 into opaque bytes")
		}
		x := a[2].(*Term)
		for i := 0; i < 8; i++ {
			b.Bytes[i] = Extract(63-8*i, 56-8*i, x)
		}
		return nil
	}
	models["(encoding/binary.bigEndian).Uint64"] = func(it *Interp, a []Val) Val { return it.beToU64(a[1].(*StrV)) }
	models["(encoding/binary.bigEndian).PutUint32"] = func(it *Interp, a []Val) Val {
		b := a[1].(*StrV)
		if !isPlainB(b) || len(b.Bytes) < 4 {
			it.tpanic("PutUint32: short buffer")
		}
		x := a[2].(*Term)
		for i := 0; i < 4; i++ {
			b.Bytes[i] = Extract(31-8*i, 24-8*i, x)
		}
		return nil
	}
}
