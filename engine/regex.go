package main

import (
	"regexp"
	"regexp/syntax"
)

// Symbolic regular-expression matching over structured byte strings (Pike-style simulation with
// formula-labelled thread sets). Exact for byte-oriented patterns (ASCII classes), which is all the targets use.

func init() {
	mk := func(it *Interp, a []Val) Val {
		p, ok := a[0].(*StrV).concreteString()
		if !ok {
			it.fail("regexp with symbolic pattern")
		}
		return Ptr(newVal(&Native{Kind: "regexp", Tag: p}))
	}
	models["regexp.MustCompile"] = mk
	models["regexp.Compile"] = func(it *Interp, a []Val) Val { return Tuple{mk(it, a), IfaceV{}} }
	match := func(it *Interp, a []Val) Val {
		p := a[0].(Ptr)
		if p == nil {
			it.tpanic("nil *regexp.Regexp")
		}
		n, ok := (*p).(*Native)
		if !ok || n.Kind != "regexp" {
			it.fail("MatchString on unmodelled regexp")
		}
		return it.regexMatch(n.Tag, a[1].(*StrV))
	}
	models["(*regexp.Regexp).MatchString"] = match
	models["(*regexp.Regexp).Match"] = match
}

func (it *Interp) regexMatch(pattern string, s *StrV) *Term {
	if !isPlainB(s) {
		t := it.toA(s)
		it.strLenTerm(t)
		m := App("regex!"+smtSafe(pattern), SBool, t)
		if !it.p.lenAx[m.id] {
			it.p.lenAx[m.id] = true
			// a pattern that does not match the empty string is matched by non-empty strings only
			if ok, err := regexp.MatchString(pattern, ""); err == nil && !ok {
				it.p.assertAxiom(Implies(m, Not(Eq(it.strLenTerm(t), BVu(64, 0)))))
			}
		}
		return m
	}
	re, err := syntax.Parse(pattern, syntax.Perl)
	if err != nil {
		it.fail("regexp parse: %v", err)
	}
	prog, err := syntax.Compile(re.Simplify())
	if err != nil {
		it.fail("regexp compile: %v", err)
	}
	n := len(s.Bytes)
	// alive[pc] = condition under which a thread is at pc before consuming byte i
	matched := TFalse
	var add func(set map[int]*Term, pc int, cond *Term, pos int, visiting map[int]bool)
	add = func(set map[int]*Term, pc int, cond *Term, pos int, visiting map[int]bool) {
		if cond.IsFalse() || visiting[pc] {
			return
		}
		ins := prog.Inst[pc]
		switch ins.Op {
		case syntax.InstAlt, syntax.InstAltMatch:
			visiting[pc] = true
			add(set, int(ins.Out), cond, pos, visiting)
			add(set, int(ins.Arg), cond, pos, visiting)
			delete(visiting, pc)
		case syntax.InstNop, syntax.InstCapture:
			visiting[pc] = true
			add(set, int(ins.Out), cond, pos, visiting)
			delete(visiting, pc)
		case syntax.InstEmptyWidth:
			ok := true
			e := syntax.EmptyOp(ins.Arg)
			if e&syntax.EmptyBeginText != 0 && pos != 0 {
				ok = false
			}
			if e&syntax.EmptyEndText != 0 && pos != n {
				ok = false
			}
			if e&(syntax.EmptyBeginLine|syntax.EmptyEndLine|syntax.EmptyWordBoundary|syntax.EmptyNoWordBoundary) != 0 {
				it.fail("regexp: line/word assertions unsupported")
			}
			if ok {
				visiting[pc] = true
				add(set, int(ins.Out), cond, pos, visiting)
				delete(visiting, pc)
			}
		case syntax.InstMatch:
			matched = Or(matched, cond)
		case syntax.InstFail:
		default:
			if old, ok := set[pc]; ok {
				set[pc] = Or(old, cond)
			} else {
				set[pc] = cond
			}
		}
	}
	cur := map[int]*Term{}
	for pos := 0; pos <= n; pos++ {
		// unanchored search: a new thread may start at every position
		add(cur, prog.Start, TTrue, pos, map[int]bool{})
		if pos == n {
			break
		}
		b := s.Bytes[pos]
		next := map[int]*Term{}
		for pc, cond := range cur {
			ins := prog.Inst[pc]
			var m *Term
			switch ins.Op {
			case syntax.InstRune, syntax.InstRune1:
				m = TFalse
				rs := ins.Rune
				if len(rs) == 1 {
					rs = []rune{rs[0], rs[0]}
				}
				fold := syntax.Flags(ins.Arg)&syntax.FoldCase != 0
				for k := 0; k+1 < len(rs); k += 2 {
					lo, hi := rs[k], rs[k+1]
					if lo > 0x7f {
						continue
					}
					if hi > 0x7f {
						hi = 0x7f
					}
					m = Or(m, And(BVCmp("bvuge", b, BVu(8, uint64(lo))), BVCmp("bvule", b, BVu(8, uint64(hi)))))
					if fold {
						it.fail("regexp: case folding unsupported")
					}
				}
			case syntax.InstRuneAny:
				m = BVCmp("bvule", b, BVu(8, 0x7f))
			case syntax.InstRuneAnyNotNL:
				m = And(BVCmp("bvule", b, BVu(8, 0x7f)), Not(Eq(b, BVu(8, '\n'))))
			default:
				continue
			}
			add(next, int(ins.Out), And(cond, m), pos+1, map[int]bool{})
		}
		cur = next
	}
	return matched
}

func smtSafe(s string) string {
	out := []byte{}
	for i := 0; i < len(s); i++ {
		c := s[i]
		if c >= 'a' && c <= 'z' || c >= 'A' && c <= 'Z' || c >= '0' && c <= '9' {
			out = append(out, c)
		} else {
			out = append(out, '_')
		}
	}
	if len(out) > 40 {
		out = out[:40]
	}
	return string(out)
}
