package main

// Native replay: a counterexample's values are fed to the SAME harness compiled natively (go test -overlay), where the
// rt package reads them back in order. Supported for harnesses without symbolic-only overrides / abstractions.

import (
	"encoding/json"
	"fmt"
	"os"
	"os/exec"
	"path/filepath"
	"regexp"
	"strings"
)

type ReplayResult struct {
	Supported       bool     `json:"supported"`
	Confirmed       bool     `json:"confirmed"`
	AssumptionsHeld bool     `json:"assumptions_held"`
	Failed          []string `json:"failed"`
	Reached         []string `json:"reached"`
	Notes           []string `json:"notes"`
	Panicked        string   `json:"panicked,omitempty"`
	Reason          string   `json:"reason,omitempty"`
	Output          string   `json:"output,omitempty"`
}

func findUnit(verifDir string, cc *CheckCfg, harness, pkg string) *Unit {
	re := regexp.MustCompile(`(?m)^func ` + regexp.QuoteMeta(harness) + `\(`)
	for i := range cc.Units {
		if pkg != "" && cc.Units[i].Pkg != pkg {
			continue
		}
		for _, f := range cc.Units[i].Files {
			src, err := os.ReadFile(filepath.Join(verifDir, f))
			if err == nil && re.Match(src) {
				return &cc.Units[i]
			}
		}
	}
	return nil
}

func pkgNameOf(src []byte) string {
	m := regexp.MustCompile(`(?m)^package (\w+)`).FindSubmatch(src)
	if m == nil {
		return ""
	}
	return string(m[1])
}

// replayNative runs the harness natively on the values of the counterexample file.
func replayNative(verifDir, repoDir string, cc *CheckCfg, cexPath string) ReplayResult {
	var cex Cex
	bz, err := os.ReadFile(cexPath)
	if err != nil {
		return ReplayResult{Reason: err.Error()}
	}
	if err := json.Unmarshal(bz, &cex); err != nil {
		return ReplayResult{Reason: err.Error()}
	}
	if !contains(cc.Replayable, cex.Harness) {
		return ReplayResult{Reason: "harness uses symbolic-only stubs (rt.Override / rt.Abstract / uninterpreted library functions): no native replay"}
	}
	u := findUnit(verifDir, cc, cex.Harness, cex.Pkg)
	if u == nil {
		return ReplayResult{Reason: "harness not found"}
	}
	tmp, err := os.MkdirTemp("", "verif-replay")
	if err != nil {
		return ReplayResult{Reason: err.Error()}
	}
	defer os.RemoveAll(tmp)
	replace := map[string]string{filepath.Join(repoDir, "zzverifrt", "rt.go"): filepath.Join(verifDir, "rt", "rt.go")}
	pkg := ""
	for _, f := range u.Files {
		src, _ := os.ReadFile(filepath.Join(verifDir, f))
		pkg = pkgNameOf(src)
		replace[filepath.Join(repoDir, u.Pkg, "zz_verif_"+filepath.Base(f))] = filepath.Join(verifDir, f)
	}
	test := fmt.Sprintf(`package %s

import (
	"encoding/json"
	"fmt"
	"testing"

	rt "github.com/teleport-network/teleport/zzverifrt"
)

func TestVerifReplay(t *testing.T) {
	if err := rt.Load(%q); err != nil {
		t.Fatal(err)
	}
	res := map[string]interface{}{}
	func() {
		defer func() {
			if r := recover(); r != nil {
				res["panicked"] = fmt.Sprint(r)
			}
		}()
		res["assumptions_held"] = rt.RunNative(%s)
	}()
	res["failed"], res["reached"], res["notes"] = rt.Failed, rt.Reached, rt.Notes
	bz, _ := json.Marshal(res)
	fmt.Printf("REPLAY-RESULT %%s\n", bz)
}
`, pkg, cexPath, cex.Harness)
	testFile := filepath.Join(tmp, "zz_verif_replay_test.go")
	os.WriteFile(testFile, []byte(test), 0o644)
	replace[filepath.Join(repoDir, u.Pkg, "zz_verif_replay_test.go")] = testFile
	ov, _ := json.Marshal(map[string]interface{}{"Replace": replace})
	ovFile := filepath.Join(tmp, "overlay.json")
	os.WriteFile(ovFile, ov, 0o644)
	cmd := exec.Command("go", "test", "-v", "-vet=off", "-count=1", "-overlay", ovFile, "-run", "^TestVerifReplay$", "-timeout", "5m", "./"+u.Pkg)
	cmd.Dir = repoDir
	cmd.Env = append(os.Environ(), "GOFLAGS=-mod=mod", "GOPROXY=off", "GOSUMDB=off", "GOTOOLCHAIN=local")
	out, _ := cmd.CombinedOutput()
	if os.Getenv("VERIF_REPLAY_DEBUG") != "" {
		fmt.Fprintln(os.Stderr, string(out))
	}
	res := ReplayResult{Supported: true}
	for _, line := range strings.Split(string(out), "\n") {
		if strings.HasPrefix(line, "REPLAY-RESULT ") {
			var m struct {
				AssumptionsHeld bool     `json:"assumptions_held"`
				Failed          []string `json:"failed"`
				Reached         []string `json:"reached"`
				Notes           []string `json:"notes"`
				Panicked        string   `json:"panicked"`
			}
			json.Unmarshal([]byte(strings.TrimPrefix(line, "REPLAY-RESULT ")), &m)
			res.AssumptionsHeld, res.Failed, res.Reached, res.Notes, res.Panicked = m.AssumptionsHeld, m.Failed, m.Reached, m.Notes, m.Panicked
			if cex.Obligation == "uncaught-panic" {
				res.Confirmed = m.Panicked != ""
			} else {
				res.Confirmed = contains(m.Failed, cex.Obligation)
			}
			return res
		}
	}
	res.Reason = "native run produced no result"
	res.Output = trunc(string(out), 2000)
	return res
}
