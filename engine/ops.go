package main

import (
	"fmt"
	"go/token"
	"go/types"
	"math/big"

	"golang.org/x/tools/go/ssa"
)

func (it *Interp) unop(instr *ssa.UnOp, x Val) Val {
	switch instr.Op {
	case token.MUL: // load
		return it.load(x)
	case token.NOT:
		return Not(x.(*Term))
	case token.SUB:
		switch x := x.(type) {
		case *Term:
			return BVNeg(x)
		}
	case token.XOR:
		return BVNot(x.(*Term))
	case token.ARROW:
		it.fail("channel receive unsupported")
	}
	it.fail("unop %s on %T", instr.Op, x)
	return nil
}

func isSigned(t types.Type) bool {
	b, ok := t.Underlying().(*types.Basic)
	if !ok {
		return false
	}
	_, s := intWidth(b)
	return s
}

func (it *Interp) binop(op token.Token, t types.Type, x, y Val) Val {
	if op == token.EQL || op == token.NEQ {
		if _, isSlice := t.Underlying().(*types.Slice); isSlice {
			// slices are only comparable with nil
			if xs, ok := x.(*StrV); ok {
				ys := y.(*StrV)
				r := Bool(xs.Nil && ys.Nil)
				if op == token.NEQ {
					r = Not(r)
				}
				return r
			}
		}
	}
	switch op {
	case token.EQL:
		return it.equalVals(x, y)
	case token.NEQ:
		return Not(it.equalVals(x, y))
	}
	switch xv := x.(type) {
	case *Term:
		yv := y.(*Term)
		if xv.sort == SBool {
			it.fail("binop %s on bool", op)
		}
		sg := isSigned(t)
		switch op {
		case token.ADD:
			return BVBin("bvadd", xv, yv)
		case token.SUB:
			return BVBin("bvsub", xv, yv)
		case token.MUL:
			if !xv.IsConst() && !yv.IsConst() && xv.w >= 32 {
				return it.abstractArith("mul", xv, yv, sg)
			}
			return BVBin("bvmul", xv, yv)
		case token.QUO, token.REM:
			z := Eq(yv, BVu(yv.w, 0))
			if it.p.branch(z) {
				it.tpanic("integer divide by zero")
			}
			if !xv.IsConst() && !yv.IsConst() && xv.w >= 32 {
				if op == token.QUO {
					return it.abstractArith("div", xv, yv, sg)
				}
				return it.abstractArith("rem", xv, yv, sg)
			}
			if !xv.IsConst() && yv.IsConst() && xv.w == 64 && yv.val.Sign() > 0 && yv.val.BitLen() < 32 {
				if q, r, ok := it.divByConst(xv, yv, sg); ok {
					if op == token.QUO {
						return q
					}
					return r
				}
			}
			if op == token.QUO {
				if sg {
					return BVBin("bvsdiv", xv, yv)
				}
				return BVBin("bvudiv", xv, yv)
			}
			if sg {
				return BVBin("bvsrem", xv, yv)
			}
			return BVBin("bvurem", xv, yv)
		case token.AND:
			return BVBin("bvand", xv, yv)
		case token.OR:
			return BVBin("bvor", xv, yv)
		case token.XOR:
			return BVBin("bvxor", xv, yv)
		case token.AND_NOT:
			return BVBin("bvand", xv, BVNot(yv))
		case token.SHL, token.SHR:
			// shift count may have a different width; Go: count >= width gives 0 (or sign fill)
			c := yv
			if c.w < xv.w {
				c = ZeroExt(xv.w, c)
			} else if c.w > xv.w {
				// large counts saturate
				big := BVCmp("bvuge", c, BVu(c.w, uint64(xv.w)))
				c = Ite(big, BVu(xv.w, uint64(xv.w)), Extract(xv.w-1, 0, c))
			}
			if op == token.SHL {
				return BVBin("bvshl", xv, c)
			}
			if sg {
				return BVBin("bvashr", xv, c)
			}
			return BVBin("bvlshr", xv, c)
		case token.LSS, token.LEQ, token.GTR, token.GEQ:
			m := map[token.Token]string{token.LSS: "lt", token.LEQ: "le", token.GTR: "gt", token.GEQ: "ge"}[op]
			if sg {
				return BVCmp("bvs"+m, xv, yv)
			}
			return BVCmp("bvu"+m, xv, yv)
		}
	case *StrV:
		yv := y.(*StrV)
		switch op {
		case token.ADD:
			return it.strConcat(xv, yv)
		case token.LSS, token.LEQ, token.GTR, token.GEQ:
			return it.strCompare(op, xv, yv)
		}
	case *Native:
		if xv.Kind == "float" {
			it.fail("floating point arithmetic unsupported")
		}
	}
	it.fail("binop %s on %T,%T", op, x, y)
	return nil
}

func (it *Interp) equalVals(x, y Val) *Term {
	switch xv := x.(type) {
	case *Term:
		return Eq(xv, y.(*Term))
	case *StrV:
		return it.strEq(xv, y.(*StrV))
	case Ptr:
		switch yv := y.(type) {
		case Ptr:
			return Bool(xv == yv)
		case *BytePtr:
			return TFalse
		}
	case *BytePtr:
		if yv, ok := y.(*BytePtr); ok {
			return Bool(xv.S == yv.S && xv.I == yv.I)
		}
		return TFalse
	case IfaceV:
		yv := y.(IfaceV)
		if xv.IsNil() || yv.IsNil() {
			return Bool(xv.IsNil() && yv.IsNil())
		}
		if xv.T == nil || yv.T == nil {
			return Bool(xv.V == yv.V)
		}
		if !types.Identical(xv.T, yv.T) {
			return TFalse
		}
		return it.equalVals(xv.V, yv.V)
	case *StructV:
		yv := y.(*StructV)
		out := TTrue
		for i := range xv.F {
			out = And(out, it.equalVals(xv.F[i], yv.F[i]))
		}
		return out
	case *ArrayV:
		yv := y.(*ArrayV)
		out := TTrue
		for i := range xv.E {
			out = And(out, it.equalVals(xv.E[i], yv.E[i]))
		}
		return out
	case *Native:
		yv, ok := y.(*Native)
		return Bool(ok && xv == yv)
	case *SliceV:
		yv := y.(*SliceV)
		if xv.Arr == nil || yv.Arr == nil { // comparison with nil
			return Bool(xv.Arr == nil && yv.Arr == nil)
		}
	case *MapV:
		yv := y.(*MapV)
		return Bool(xv == yv)
	case *Closure:
		yv, _ := y.(*Closure)
		if xv == nil || yv == nil {
			return Bool(xv == nil && yv == nil)
		}
	case *ssa.Function:
		switch yv := y.(type) {
		case *Closure:
			return Bool(yv != nil && false)
		case *ssa.Function:
			return Bool(xv == yv)
		}
	case IntV:
		return Eq(xv.T, y.(IntV).T)
	case TimeV:
		return Eq(xv.NS, y.(TimeV).NS)
	case nil:
		return Bool(y == nil)
	}
	it.fail("equalVals %T vs %T", x, y)
	return nil
}

func (it *Interp) conv(dst, src types.Type, x Val) Val {
	ud, us := dst.Underlying(), src.Underlying()
	switch us := us.(type) {
	case *types.Basic:
		if us.Info()&types.IsInteger != 0 {
			xt := x.(*Term)
			if db, ok := ud.(*types.Basic); ok {
				if db.Info()&types.IsInteger != 0 {
					dw, _ := intWidth(db)
					_, ss := intWidth(us)
					if dw <= xt.w {
						return Extract(dw-1, 0, xt)
					}
					if ss {
						return SignExt(dw, xt)
					}
					return ZeroExt(dw, xt)
				}
				if db.Info()&types.IsString != 0 {
					// string(rune)
					if xt.IsConst() {
						return strLit(string(rune(xt.val.Int64())))
					}
					it.fail("string(symbolic rune) unsupported")
				}
				if db.Info()&types.IsFloat != 0 {
					if xt.IsConst() {
						return &Native{Kind: "float", Data: float64(signed(xt.w, xt.val).Int64())}
					}
					// floating point is not modelled: an opaque number (teleport uses floats for telemetry gauges only);
					// any later arithmetic or comparison on it is reported as not encodable
					return &Native{Kind: "float", Data: 0.0, Tag: "symbolic"}
				}
			}
		}
		if us.Info()&types.IsString != 0 {
			xs := x.(*StrV)
			switch d := ud.(type) {
			case *types.Basic:
				return xs
			case *types.Slice:
				if isByteType(d.Elem()) {
					return it.strFresh(xs)
				}
			}
		}
		if us.Kind() == types.UnsafePointer {
			it.fail("unsafe.Pointer conversion unsupported")
		}
	case *types.Slice:
		if isByteType(us.Elem()) {
			xs := x.(*StrV)
			switch d := ud.(type) {
			case *types.Basic:
				if d.Info()&types.IsString != 0 {
					return it.strFresh(xs)
				}
			case *types.Slice:
				return xs
			}
		}
		if _, ok := ud.(*types.Slice); ok {
			return x
		}
	case *types.Pointer, *types.Struct, *types.Map, *types.Signature, *types.Array, *types.Interface:
		return x
	}
	it.fail("conv %s -> %s unsupported", src, dst)
	return nil
}

// strFresh: conversion string<->[]byte copies; values are treated immutably, a B-mode value gets its own byte slice.
func (it *Interp) strFresh(s *StrV) *StrV {
	n := *s
	n.Nil = false
	if s.IsB {
		n.Bytes = append([]*Term(nil), s.Bytes...)
	}
	return &n
}

func (it *Interp) sliceOp(instr *ssa.Slice, x, lo, hi, max Val) Val {
	switch xv := x.(type) {
	case *StrV:
		return it.strSlice(xv, lo, hi)
	case *SliceV:
		l, h := 0, xv.Len
		if lo != nil {
			l = it.concreteInt(lo, "slice low")
		}
		if hi != nil {
			h = it.concreteInt(hi, "slice high")
		}
		c := xv.Cap
		if max != nil {
			c = it.concreteInt(max, "slice max")
		}
		if l < 0 || h < l || h > xv.Cap || c > xv.Cap || h > c {
			it.tpanic(fmt.Sprintf("slice bounds out of range [%d:%d] with capacity %d", l, h, xv.Cap))
		}
		if xv.Arr == nil {
			return &SliceV{}
		}
		return &SliceV{Arr: xv.Arr, Off: xv.Off + l, Len: h - l, Cap: c - l}
	case Ptr: // pointer to array
		if xv == nil {
			it.tpanic("slice of nil array pointer")
		}
		switch a := (*xv).(type) {
		case *StrV:
			// slice of a byte array: shares bytes
			view := &StrV{Bytes: a.Bytes, IsB: a.IsB, T: a.T}
			return it.strSlice(view, lo, hi)
		case *ArrayV:
			l, h := 0, len(a.E)
			if lo != nil {
				l = it.concreteInt(lo, "slice low")
			}
			if hi != nil {
				h = it.concreteInt(hi, "slice high")
			}
			if l < 0 || h < l || h > len(a.E) {
				it.tpanic("slice bounds out of range")
			}
			return &SliceV{Arr: &a.E, Off: l, Len: h - l, Cap: len(a.E) - l}
		}
	}
	it.fail("slice of %T", x)
	return nil
}

func (it *Interp) indexAddr(x, idx Val) Val {
	switch xv := x.(type) {
	case *SliceV:
		i := it.boundedIndex(idx, xv.Len)
		return Ptr(&(*xv.Arr)[xv.Off+i])
	case *StrV:
		if !xv.IsB {
			it.fail("IndexAddr on opaque bytes")
		}
		i := it.boundedIndex(idx, len(xv.Bytes))
		return &BytePtr{S: xv, I: i}
	case Ptr:
		if xv == nil {
			it.tpanic("nil pointer dereference (index)")
		}
		switch a := (*xv).(type) {
		case *ArrayV:
			i := it.boundedIndex(idx, len(a.E))
			return Ptr(&a.E[i])
		case *StrV:
			if !a.IsB {
				it.fail("IndexAddr on opaque byte array")
			}
			i := it.boundedIndex(idx, len(a.Bytes))
			return &BytePtr{S: a, I: i}
		}
	}
	it.fail("IndexAddr on %T", x)
	return nil
}

// boundedIndex returns a concrete index in [0,n), branching over feasible values; out of range panics.
func (it *Interp) boundedIndex(idx Val, n int) int {
	t := idx.(*Term)
	if t.IsConst() {
		i := signed(t.w, t.val)
		if i.Sign() < 0 || i.Cmp(newInt(int64(n))) >= 0 {
			it.tpanic(fmt.Sprintf("index out of range [%s] with length %d", i, n))
		}
		return int(i.Int64())
	}
	inRange := BVCmp("bvult", t, BVu(t.w, uint64(n)))
	if !it.p.branch(inRange) {
		it.tpanic(fmt.Sprintf("index out of range [symbolic] with length %d", n))
	}
	for k := 0; k < n-1; k++ {
		if it.p.branch(Eq(t, BVu(t.w, uint64(k)))) {
			return k
		}
	}
	return n - 1
}

func (it *Interp) index(x, idx Val) Val {
	switch xv := x.(type) {
	case *StrV:
		return it.strIndex(xv, idx.(*Term))
	case *ArrayV:
		i := it.boundedIndex(idx, len(xv.E))
		return copyVal(xv.E[i])
	}
	it.fail("Index on %T", x)
	return nil
}

// ---- maps ----

func (it *Interp) mapFind(m *MapV, key Val) int {
	if m == nil {
		return -1
	}
	for i := range m.E {
		if it.p.branch(it.equalVals(m.E[i].K, key)) {
			return i
		}
	}
	return -1
}

func (it *Interp) lookup(instr *ssa.Lookup, x, key Val) Val {
	switch xv := x.(type) {
	case *StrV:
		return it.strIndex(xv, key.(*Term))
	case *MapV:
		i := it.mapFind(xv, key)
		var v Val
		ok := TFalse
		if i >= 0 {
			v = copyVal(xv.E[i].V)
			ok = TTrue
		} else {
			v = it.zero(instr.X.Type().Underlying().(*types.Map).Elem())
		}
		if instr.CommaOk {
			return Tuple{v, ok}
		}
		return v
	}
	it.fail("Lookup on %T", x)
	return nil
}

func (it *Interp) mapUpdate(m, key, v Val) {
	mv, ok := m.(*MapV)
	if !ok {
		it.fail("MapUpdate on %T", m)
	}
	if mv == nil {
		it.tpanic("assignment to entry in nil map")
	}
	i := it.mapFind(mv, key)
	if i >= 0 {
		mv.E[i].V = copyVal(v)
		return
	}
	mv.E = append(mv.E, mapEntry{K: copyVal(key), V: copyVal(v)})
}

// ---- range ----

type iterV struct {
	kind string // "map", "string"
	m    []mapEntry
	s    *StrV
	i    int
}

func (it *Interp) rangeIter(x Val, t types.Type) Val {
	switch xv := x.(type) {
	case *MapV:
		var es []mapEntry
		if xv != nil {
			es = append(es, xv.E...)
		}
		if it.p.mapOrder != nil {
			es = it.p.mapOrder(it, es)
		}
		return &iterV{kind: "map", m: es}
	case *StrV:
		return &iterV{kind: "string", s: xv}
	}
	it.fail("range over %T", x)
	return nil
}

func (r *iterV) next(it *Interp, instr *ssa.Next) Val {
	switch r.kind {
	case "map":
		if r.i >= len(r.m) {
			return Tuple{TFalse, nil, nil}
		}
		e := r.m[r.i]
		r.i++
		return Tuple{TTrue, e.K, e.V}
	case "string":
		// byte-wise iteration is only exact for ASCII; require concrete ASCII
		s, ok := r.s.concreteString()
		if !ok {
			it.fail("range over symbolic string unsupported")
		}
		if r.i >= len(s) {
			return Tuple{TFalse, BVu(64, 0), BVu(32, 0)}
		}
		rs := []rune(s[r.i:])
		idx := r.i
		r.i += len(string(rs[0]))
		return Tuple{TTrue, BVu(64, uint64(idx)), BVu(32, uint64(rs[0]))}
	}
	return nil
}

// ---- type assertion ----

func (it *Interp) typeAssert(instr *ssa.TypeAssert, x Val) Val {
	iv, ok := x.(IfaceV)
	if !ok {
		it.fail("TypeAssert on %T", x)
	}
	var res Val
	okv := false
	if !iv.IsNil() {
		if _, isIface := instr.AssertedType.Underlying().(*types.Interface); isIface {
			if iv.T != nil {
				okv = types.Implements(iv.T, instr.AssertedType.Underlying().(*types.Interface))
			} else if n, isN := iv.V.(*Native); isN {
				okv = nativeImplements(n, instr.AssertedType)
			}
			if okv {
				res = iv
			}
		} else if iv.T != nil && types.Identical(iv.T, instr.AssertedType) {
			okv = true
			res = iv.V
		}
	}
	if !okv {
		if instr.CommaOk {
			return Tuple{it.zero(instr.AssertedType), TFalse}
		}
		it.tpanic(fmt.Sprintf("interface conversion: %s is not %s", it.describe(x), instr.AssertedType))
	}
	if instr.CommaOk {
		return Tuple{res, TTrue}
	}
	return res
}

// ---- builtins ----

func (it *Interp) callBuiltin(fn *ssa.Builtin, args []Val, site ssa.Instruction) Val {
	switch fn.Name() {
	case "len":
		switch x := args[0].(type) {
		case *StrV:
			return it.strLen(x)
		case *SliceV:
			return BVu(64, uint64(x.Len))
		case *MapV:
			if x == nil {
				return BVu(64, 0)
			}
			// distinct keys: entries are kept distinct by mapUpdate
			return BVu(64, uint64(len(x.E)))
		case *ArrayV:
			return BVu(64, uint64(len(x.E)))
		case Ptr:
			switch a := (*x).(type) {
			case *ArrayV:
				return BVu(64, uint64(len(a.E)))
			case *StrV:
				return it.strLen(a)
			}
		}
	case "cap":
		switch x := args[0].(type) {
		case *StrV:
			return it.strLen(x)
		case *SliceV:
			return BVu(64, uint64(x.Cap))
		}
	case "append":
		return it.appendOp(args[0], args[1])
	case "copy":
		return it.copyOp(args[0], args[1])
	case "delete":
		m := args[0].(*MapV)
		i := it.mapFind(m, args[1])
		if i >= 0 {
			m.E = append(m.E[:i:i], m.E[i+1:]...)
		}
		return nil
	case "print", "println":
		return nil
	case "recover":
		n := len(it.panicking)
		if n == 0 || it.panicking[n-1] == nil {
			return IfaceV{}
		}
		tp := it.panicking[n-1]
		it.panicking[n-1] = nil
		if iv, ok := tp.v.(IfaceV); ok && !iv.IsNil() {
			return iv
		}
		return IfaceV{V: &Native{Kind: "panicval", Tag: tp.desc}}
	case "min", "max":
		a, b := args[0].(*Term), args[1].(*Term)
		sg := true
		if c, ok := site.(*ssa.Call); ok {
			sg = isSigned(c.Type())
		}
		op := "bvslt"
		if !sg {
			op = "bvult"
		}
		lt := BVCmp(op, a, b)
		if fn.Name() == "min" {
			return Ite(lt, a, b)
		}
		return Ite(lt, b, a)
	case "ssa:wrapnilchk":
		p := args[0]
		if pp, ok := p.(Ptr); ok && pp == nil {
			it.tpanic("value method called on nil pointer")
		}
		return p
	}
	it.fail("builtin %s on %T unsupported", fn.Name(), args[0])
	return nil
}

func (it *Interp) appendOp(s, t Val) Val {
	switch sv := s.(type) {
	case *StrV:
		tv := t.(*StrV)
		if tv.Nil && len(tv.Bytes) == 0 && tv.T == nil {
			return sv
		}
		r := it.strConcat(sv, tv)
		return r
	case *SliceV:
		tv := t.(*SliceV)
		if tv.Len == 0 {
			return sv
		}
		n := sv.Len + tv.Len
		if sv.Arr != nil && n <= sv.Cap {
			for i := 0; i < tv.Len; i++ {
				(*sv.Arr)[sv.Off+sv.Len+i] = copyVal((*tv.Arr)[tv.Off+i])
			}
			return &SliceV{Arr: sv.Arr, Off: sv.Off, Len: n, Cap: sv.Cap}
		}
		c := n * 2
		arr := make([]Val, c)
		for i := 0; i < sv.Len; i++ {
			arr[i] = (*sv.Arr)[sv.Off+i]
		}
		for i := 0; i < tv.Len; i++ {
			arr[sv.Len+i] = copyVal((*tv.Arr)[tv.Off+i])
		}
		// remaining capacity needs zero values of the element type, filled lazily as nil;
		// they are only observable through reslicing beyond len, which the targets do not do.
		return &SliceV{Arr: &arr, Off: 0, Len: n, Cap: c}
	}
	it.fail("append on %T", s)
	return nil
}

func (it *Interp) copyOp(dst, src Val) Val {
	switch d := dst.(type) {
	case *StrV:
		s := src.(*StrV)
		if d.IsB && d.T == nil && !(s.IsB && s.T == nil && s.Boxed == nil) {
			// structured destination, opaque source: the copied bytes are byteat(src, i)
			t := it.toA(s)
			n := len(d.Bytes)
			if !it.p.branch(BVCmp("bvuge", it.strLenTerm(t), BVu(64, uint64(n)))) {
				it.fail("copy from an opaque source shorter than the destination is not modelled")
			}
			for i := 0; i < n; i++ {
				d.Bytes[i] = App("byteat", bvSort(8), t, BVu(64, uint64(i)))
			}
			return BVu(64, uint64(n))
		}
		if !d.IsB || !s.IsB {
			it.fail("copy on opaque bytes")
		}
		n := len(d.Bytes)
		if len(s.Bytes) < n {
			n = len(s.Bytes)
		}
		copy(d.Bytes[:n], s.Bytes[:n])
		return BVu(64, uint64(n))
	case *SliceV:
		s := src.(*SliceV)
		n := d.Len
		if s.Len < n {
			n = s.Len
		}
		for i := 0; i < n; i++ {
			(*d.Arr)[d.Off+i] = copyVal((*s.Arr)[s.Off+i])
		}
		return BVu(64, uint64(n))
	}
	it.fail("copy on %T", dst)
	return nil
}

// abstractArith: multiplication / division / remainder of two symbolic words is replaced by an uninterpreted
// function with the basic facts the targets rely on (bit-blasting these at 64 bits does not terminate in z3).
// This over-approximates: it can only add behaviours, never hide one; listed in the evidence as an abstraction.
func (it *Interp) abstractArith(kind string, x, y *Term, sg bool) *Term {
	sfx := "u"
	if sg {
		sfx = "s"
	}
	name := kind + sfx + "!" + itoa(x.w)
	r := App(name, x.sort, x, y)
	if it.p.lenAx[-r.id] {
		return r
	}
	it.p.lenAx[-r.id] = true
	it.ex.noteAuto("arith:" + name)
	zero, one := BVu(x.w, 0), BVu(x.w, 1)
	switch kind {
	case "rem":
		if !sg {
			it.p.assertAxiom(Implies(Not(Eq(y, zero)), BVCmp("bvult", r, y)))
			it.p.assertAxiom(Implies(BVCmp("bvult", x, y), Eq(r, x)))
			it.p.assertAxiom(Implies(Eq(x, y), Eq(r, zero)))
			it.p.assertAxiom(Implies(Eq(y, one), Eq(r, zero)))
			it.p.assertAxiom(BVCmp("bvule", r, x))
		}
	case "div":
		if !sg {
			it.p.assertAxiom(BVCmp("bvule", r, x))
			it.p.assertAxiom(Implies(BVCmp("bvult", x, y), Eq(r, zero)))
			it.p.assertAxiom(Implies(Eq(y, one), Eq(r, x)))
		}
	case "mul":
		it.p.assertAxiom(Implies(Or(Eq(x, zero), Eq(y, zero)), Eq(r, zero)))
		it.p.assertAxiom(Implies(Eq(x, one), Eq(r, y)))
		it.p.assertAxiom(Implies(Eq(y, one), Eq(r, x)))
		it.p.assertAxiom(Eq(r, App(name, x.sort, y, x)))
	}
	return r
}

func itoa(i int) string { return fmt.Sprint(i) }

// divByConst encodes x / c and x % c (c a small positive constant, x >= 0) as q, r with x = c*q + r, r < c, q <= x:
// a multiplication by a constant instead of a 64-bit divider circuit. Exact under the side conditions it asserts.
func (it *Interp) divByConst(x, c *Term, sg bool) (*Term, *Term, bool) {
	if sg {
		// only for non-negative dividends (lengths, counters)
		if it.p.s.CheckWith(BVCmp("bvslt", x, BVu(64, 0))) != "unsat" {
			return nil, nil, false
		}
	}
	q := App("divc!"+c.val.String(), x.sort, x)
	r := App("remc!"+c.val.String(), x.sort, x)
	if !it.p.lenAx[-q.id] {
		it.p.lenAx[-q.id] = true
		it.p.assertAxiom(BVCmp("bvult", r, c))
		it.p.assertAxiom(BVCmp("bvule", q, x))
		// q <= max/c keeps c*q from wrapping
		maxq := new(big.Int).Div(mask(64), c.val)
		it.p.assertAxiom(BVCmp("bvule", q, BV(64, maxq)))
		it.p.assertAxiom(Eq(x, BVBin("bvadd", BVBin("bvmul", c, q), r)))
	}
	return q, r, true
}
