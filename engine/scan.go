package main

import (
	"encoding/json"
	"fmt"
	"go/types"
	"os"
	"sort"
	"strings"

	"golang.org/x/tools/go/ssa"
	"golang.org/x/tools/go/ssa/ssautil"
)

// Nondeterminism site scanner (supporting step of C14): lists every place in teleport's non-test, non-CLI code where
// an execution could depend on something other than its inputs: range over a map, go statements, select, channel
// operations, and calls into time / os / io/ioutil / math/rand / crypto/rand / runtime.

type Site struct {
	Kind string `json:"kind"`
	Func string `json:"func"`
	N    int    `json:"n"` // ordinal of this kind within the function
	Pos  string `json:"pos"`
	What string `json:"what,omitempty"`
}

func (s Site) Key() string { return fmt.Sprintf("%s|%s|%d", s.Kind, s.Func, s.N) }

var envPkgs = map[string]bool{"time": true, "os": true, "io/ioutil": true, "math/rand": true, "crypto/rand": true, "runtime": true, "os/exec": true, "net": true, "net/http": true}

// pure functions of the environment packages (no ambient input)
var envPure = map[string]bool{"time.Duration.String": true, "time.Unix": true, "time.Date": true}

func scanExcluded(path string) bool {
	for _, x := range []string{"/cmd/", "/client/", "/testutil", "/x/xibc/testing", "/simulation", "/zzverifrt", "/tools", "/docs", "/grpc_abci", "/third_party", "/version"} {
		if strings.Contains(path+"/", x+"/") || strings.Contains(path, x) {
			return true
		}
	}
	return false
}

func scanSites(prog *ssa.Program, harnessFiles map[string]bool) []Site {
	var out []Site
	for fn := range ssautil.AllFunctions(prog) {
		if fn.Pkg == nil || !strings.HasPrefix(fn.Pkg.Pkg.Path(), teleportMod) || scanExcluded(fn.Pkg.Pkg.Path()) {
			continue
		}
		file := prog.Fset.Position(fn.Pos()).Filename
		if harnessFiles[file] || strings.HasSuffix(file, "_test.go") || strings.HasSuffix(file, ".pb.go") || strings.HasSuffix(file, ".pb.gw.go") || strings.Contains(file, "/cli/") {
			continue
		}
		counts := map[string]int{}
		add := func(kind string, ins ssa.Instruction, what string) {
			counts[kind]++
			out = append(out, Site{Kind: kind, Func: fn.String(), N: counts[kind], Pos: prog.Fset.Position(ins.Pos()).String(), What: what})
		}
		for _, b := range fn.Blocks {
			for _, ins := range b.Instrs {
				switch v := ins.(type) {
				case *ssa.Range:
					if _, ok := v.X.Type().Underlying().(*types.Map); ok {
						add("range-map", ins, v.X.Type().String())
					}
				case *ssa.Go:
					add("go", ins, "")
				case *ssa.Select:
					add("select", ins, "")
				case *ssa.Send:
					add("chan-send", ins, "")
				case *ssa.Store:
					// a write to a package-level variable outside package initialisation: process memory that outlives the call
					if g, ok := v.Addr.(*ssa.Global); ok && fn.Name() != "init" && !strings.HasPrefix(fn.Name(), "init#") && fn.Synthetic == "" {
						add("global-write", ins, g.String())
					}
				case *ssa.MapUpdate:
					if u, ok := v.Map.(*ssa.UnOp); ok {
						if g, ok := u.X.(*ssa.Global); ok && fn.Name() != "init" && !strings.HasPrefix(fn.Name(), "init#") {
							add("global-write", ins, g.String()+" (map entry)")
						}
					}
				case ssa.CallInstruction:
					if callee := v.Common().StaticCallee(); callee != nil && callee.Pkg != nil && (callee.Pkg.Pkg.Path() == "sync/atomic" || callee.Pkg.Pkg.Path() == "sync") {
						// process memory shared between calls (memoisation, counters, once-initialisation); plain locking is not state
						switch callee.Name() {
						case "Lock", "Unlock", "RLock", "RUnlock", "init":
						default:
							add("process-state", ins, callee.String())
						}
						continue
					}
					if callee := v.Common().StaticCallee(); callee != nil && callee.Pkg != nil && envPkgs[callee.Pkg.Pkg.Path()] {
						name := callee.Pkg.Pkg.Path() + "." + callee.Name()
						if callee.Signature.Recv() != nil {
							continue // methods on values (time.Time.Unix, Duration.String ...) are pure
						}
						if envPure[name] || callee.Name() == "init" {
							continue
						}
						add("env-call", ins, name)
					}
				}
			}
		}
	}
	sort.Slice(out, func(i, j int) bool { return out[i].Key() < out[j].Key() })
	return out
}

type siteList struct {
	Sites []struct {
		Kind        string `json:"kind"`
		Func        string `json:"func"`
		N           int    `json:"n"`
		What        string `json:"what"`
		Disposition string `json:"disposition"`
	} `json:"sites"`
}

// checkSites compares the nondeterminism sites of the current tree with the committed list. A site that is not listed
// has not been examined by any 2-safety harness: the run is inconclusive (never "held"). A listed site whose discharging
// harness did not run is inconclusive as well.
func checkSites(prog *ssa.Program, harnessFiles map[string]bool, listPath string, entries []*ssa.Function) ([]string, map[string]interface{}) {
	var list siteList
	bz, err := os.ReadFile(listPath)
	if err != nil {
		return []string{"site list unreadable: " + err.Error()}, nil
	}
	if err := json.Unmarshal(bz, &list); err != nil {
		return []string{"site list malformed: " + err.Error()}, nil
	}
	known := map[string]string{}
	for _, s := range list.Sites {
		known[Site{Kind: s.Kind, Func: s.Func, N: s.N}.Key()] = s.Disposition
	}
	ran := map[string]bool{}
	for _, e := range entries {
		ran[e.Name()] = true
	}
	var problems []string
	discharged, outside := 0, 0
	var newSites []Site
	for _, st := range scanSites(prog, harnessFiles) {
		d, ok := known[st.Key()]
		switch {
		case !ok:
			newSites = append(newSites, st)
			problems = append(problems, fmt.Sprintf("nondeterminism site not examined by any harness: %s #%d in %s (%s) at %s", st.Kind, st.N, st.Func, st.What, st.Pos))
		case strings.HasPrefix(d, "discharged: "):
			h := strings.TrimPrefix(d, "discharged: ")
			if !ran[h] {
				problems = append(problems, fmt.Sprintf("site %s in %s is discharged by %s, which did not run", st.Kind, st.Func, h))
			}
			discharged++
		default:
			outside++
		}
	}
	return problems, map[string]interface{}{"nondeterminism_sites_discharged": discharged, "nondeterminism_sites_outside_claim": outside, "nondeterminism_sites_new": newSites}
}
