package main

import (
	"crypto/sha256"
	"encoding/hex"
	"fmt"
	"go/types"
	"math/big"
	"strconv"
	"strings"
)

// decRender renders a 64-bit unsigned term in decimal as structured bytes, branching on the digit count.
func (it *Interp) decRender(x *Term) *StrV {
	if x.IsConst() {
		return strLit(x.val.String())
	}
	if x.w < 64 {
		x = ZeroExt(64, x)
	}
	maxd := it.ex.cfg.MaxEnum
	if maxd > 20 {
		maxd = 20
	}
	pow := big.NewInt(10)
	n := 1
	for ; n < 20; n++ {
		if n > maxd {
			panic(unwindErr{fmt.Sprintf("decimal rendering exceeds digit bound %d", maxd)})
		}
		if it.p.branch(BVCmp("bvult", x, BV(64, pow))) {
			break
		}
		pow = new(big.Int).Mul(pow, big.NewInt(10))
	}
	bs := make([]*Term, n)
	if n > decExactDigits {
		// long numbers: the digits are uninterpreted; what strconv guarantees about them is stated as axioms
		// (every byte is a digit, the text determines the number, ParseUint inverts it - see parseUintB).
		for i := 0; i < n; i++ {
			b := App("decdigit", bvSort(8), x, BVu(8, uint64(n-1-i)))
			bs[i] = b
			it.p.assertAxiom(And(BVCmp("bvuge", b, BVu(8, '0')), BVCmp("bvule", b, BVu(8, '9'))))
		}
		it.p.assertAxiom(Not(Eq(bs[0], BVu(8, '0'))))
		for _, o := range it.p.decs {
			if len(o.bytes) == n && o.x != x {
				same := TTrue
				for i := range bs {
					same = And(same, Eq(bs[i], o.bytes[i]))
				}
				it.p.assertAxiom(Implies(same, Eq(x, o.x)))
			}
		}
		it.p.decs = append(it.p.decs, decRendering{x: x, bytes: bs})
		return &StrV{Bytes: bs, IsB: true}
	}
	d := big.NewInt(1)
	for i := n - 1; i >= 0; i-- {
		q := BVBin("bvudiv", x, BV(64, d))
		digit := BVBin("bvurem", q, BVu(64, 10))
		bs[i] = BVBin("bvadd", Extract(7, 0, digit), BVu(8, '0'))
		d = new(big.Int).Mul(d, big.NewInt(10))
	}
	return &StrV{Bytes: bs, IsB: true}
}

// decExactDigits: numbers of up to this many decimal digits are rendered with exact bit-vector arithmetic.
const decExactDigits = 4

type decRendering struct {
	x     *Term
	bytes []*Term
}

// renderedNumber: the bytes are exactly a long-number rendering made by decRender.
func (p *Path) renderedNumber(bs []*Term) *Term {
	for _, o := range p.decs {
		if len(o.bytes) != len(bs) {
			continue
		}
		same := true
		for i := range bs {
			if bs[i] != o.bytes[i] {
				same = false
				break
			}
		}
		if same {
			return o.x
		}
	}
	return nil
}

// decRenderSigned: the decimal text of a signed 64-bit value ("-" and the magnitude for negative ones).
func (it *Interp) decRenderSigned(x *Term) *StrV {
	if x.w < 64 {
		x = SignExt(64, x)
	}
	if it.p.branch(BVCmp("bvslt", x, BVu(64, 0))) {
		return it.strConcat(strLit("-"), it.decRender(BVNeg(x)))
	}
	return it.decRender(x)
}

// isPlainB: structured bytes without opaque parts
func isPlainB(s *StrV) bool { return s.IsB && s.T == nil && s.Boxed == nil }

// fmtArg converts a Sprintf operand to either structured bytes, or an opaque term.
type fmtPiece struct {
	b  *StrV // structured
	t  *Term // opaque/numeric term
	sg bool  // numeric term is signed
}

func (it *Interp) stringerOf(v Val) (Val, bool) {
	iv, ok := v.(IfaceV)
	if !ok || iv.IsNil() || iv.T == nil {
		return nil, false
	}
	ms := it.prog.MethodSets.MethodSet(iv.T)
	for _, name := range []string{"String", "Error"} {
		if sel := ms.Lookup(nil, name); sel != nil {
			if sig, ok := sel.Type().(*types.Signature); ok && sig.Params().Len() == 0 && sig.Results().Len() == 1 {
				f := it.prog.MethodValue(sel)
				if f != nil {
					return it.callFunction(f, []Val{iv.V}, nil), true
				}
			}
		}
	}
	return nil, false
}

func (it *Interp) sprintf(format string, args []Val) *StrV {
	var pieces []fmtPiece
	lit := func(s string) {
		if s != "" {
			l := strLit(s)
			l.fmtLit = true
			pieces = append(pieces, fmtPiece{b: l})
		}
	}
	ai := 0
	allB := true
	i := 0
	cur := ""
	for i < len(format) {
		c := format[i]
		if c != '%' {
			cur += string(c)
			i++
			continue
		}
		i++
		if i >= len(format) {
			cur += "%!(NOVERB)"
			break
		}
		// flags / width are not interpreted: only plain verbs are exact
		j := i
		for j < len(format) && strings.ContainsRune("+-# 0123456789.", rune(format[j])) {
			j++
		}
		flags := format[i:j]
		if j >= len(format) {
			break
		}
		verb := format[j]
		i = j + 1
		if verb == '%' {
			cur += "%"
			continue
		}
		lit(cur)
		cur = ""
		if ai >= len(args) {
			lit("%!" + string(verb) + "(MISSING)")
			continue
		}
		arg := args[ai]
		ai++
		var inner Val = arg
		if iv, ok := arg.(IfaceV); ok {
			inner = iv.V
			if verb == 's' || verb == 'v' || verb == 'q' {
				if _, isErrN := iv.V.(*Native); isErrN && errOf(iv) != nil {
					inner = it.errString(iv)
				} else if sv, ok := it.stringerOf(arg); ok {
					inner = sv
				}
			}
		}
		switch x := inner.(type) {
		case *StrV:
			if (verb == 's' || verb == 'v') && flags == "" {
				if isPlainB(x) {
					pieces = append(pieces, fmtPiece{b: x})
				} else {
					allB = false
					pieces = append(pieces, fmtPiece{t: it.toA(x)})
				}
			} else if (verb == 'x' || verb == 'X') && isPlainB(x) && flags == "" {
				if cs, ok := x.concreteString(); ok {
					h := hex.EncodeToString([]byte(cs))
					if verb == 'X' {
						h = strings.ToUpper(h)
					}
					pieces = append(pieces, fmtPiece{b: strLit(h)})
				} else {
					pieces = append(pieces, fmtPiece{b: it.hexRender(x, verb == 'X')})
				}
			} else {
				allB = false
				pieces = append(pieces, fmtPiece{t: App("fmtverb!"+string(verb)+flags, SStr, it.toA(x))})
			}
		case *Term:
			if x.sort == SBool {
				if x.IsConst() {
					pieces = append(pieces, fmtPiece{b: strLit(fmt.Sprint(x.IsTrue()))})
				} else {
					allB = false
					pieces = append(pieces, fmtPiece{t: x})
				}
			} else if (verb == 'd' || verb == 'v') && flags == "" {
				sg := false
				if iv, ok := arg.(IfaceV); ok && iv.T != nil {
					sg = isSigned(iv.T)
				}
				if sg {
					pieces = append(pieces, fmtPiece{t: SignExt(64, x), sg: true})
				} else {
					pieces = append(pieces, fmtPiece{t: ZeroExt(64, x)})
				}
			} else {
				allB = false
				pieces = append(pieces, fmtPiece{t: App("fmtverb!"+string(verb)+flags, SStr, x)})
			}
		default:
			allB = false
			var leaves []*Term
			if it.flatten(inner, &leaves) && len(leaves) > 0 {
				pieces = append(pieces, fmtPiece{t: App("fmtval!"+fmt.Sprintf("%d", len(leaves)), SStr, leaves...)})
			} else {
				pieces = append(pieces, fmtPiece{t: Var(it.p.freshName("fmtopaque"), SStr)})
			}
		}
	}
	lit(cur)
	// symbolic numbers: structured rendering only if everything else is structured and the config asks for exact decimals
	hasNum := false
	for _, pc := range pieces {
		if pc.t != nil && pc.t.sort != SStr && pc.t.sort != SBool && !pc.t.IsConst() {
			hasNum = true
		}
	}
	if allB && (!hasNum || it.ex.cfg.ExactDecimal) {
		out := strLit("")
		for _, pc := range pieces {
			if pc.b != nil {
				out = it.strConcat(out, pc.b)
			} else if pc.t.IsConst() && pc.sg {
				out = it.strConcat(out, strLit(signed(pc.t.w, pc.t.val).String()))
			} else {
				out = it.strConcat(out, it.decRender(pc.t))
			}
		}
		return out
	}
	// opaque mode: an uninterpreted function per format string over the non-literal operands
	h := sha256.Sum256([]byte(format))
	name := "fmt!" + hex.EncodeToString(h[:6])
	var ts []*Term
	for _, pc := range pieces {
		if pc.t != nil {
			ts = append(ts, pc.t)
		} else if cs, ok := pc.b.concreteString(); ok {
			_ = cs // literal pieces are part of the format
			if len(pieces) > 0 && !isFormatLiteral(pc.b, format) {
				ts = append(ts, it.toA(pc.b))
			}
		} else {
			ts = append(ts, it.toA(pc.b))
		}
	}
	if len(ts) == 0 {
		return strLit(format)
	}
	t := App(name, SStr, ts...)
	it.p.fmtNames[name] = format
	if it.ex.cfg.InjectiveSprintf {
		it.p.noteInjective(name, t)
		it.p.noteGroup("fmt", name, t)
	}
	lt := it.strLenTerm(t)
	if !it.p.fmtLenAx[t.id] {
		// a sound lower bound of the rendered length: literal text, the length of string operands, one character per number
		it.p.fmtLenAx[t.id] = true
		lo := BVu(64, 0)
		for _, pc := range pieces {
			switch {
			case pc.b != nil:
				lo = BVBin("bvadd", lo, BVu(64, uint64(len(pc.b.Bytes))))
			case pc.t.sort == SStr:
				lo = BVBin("bvadd", lo, it.strLenTerm(pc.t))
			default:
				lo = BVBin("bvadd", lo, BVu(64, 1))
			}
		}
		it.p.assertAxiom(BVCmp("bvuge", lt, lo))
	}
	return &StrV{T: t}
}

// isFormatLiteral: pieces created from the format text itself are marked by pointer identity below.
func isFormatLiteral(b *StrV, format string) bool { return b.fmtLit }

func (it *Interp) hexRender(x *StrV, upper bool) *StrV {
	digits := "0123456789abcdef"
	if upper {
		digits = "0123456789ABCDEF"
	}
	nib := func(n *Term) *Term {
		// n is BV4-valued in BV8
		var r *Term = BVu(8, uint64(digits[15]))
		for k := 14; k >= 0; k-- {
			r = Ite(Eq(n, BVu(8, uint64(k))), BVu(8, uint64(digits[k])), r)
		}
		return r
	}
	var bs []*Term
	for _, b := range x.Bytes {
		bs = append(bs, nib(BVBin("bvlshr", b, BVu(8, 4))), nib(BVBin("bvand", b, BVu(8, 15))))
	}
	return &StrV{Bytes: bs, IsB: true}
}

func sliceArgs(v Val) []Val {
	sl, ok := v.(*SliceV)
	if !ok || sl == nil {
		return nil
	}
	var out []Val
	for i := 0; i < sl.Len; i++ {
		out = append(out, (*sl.Arr)[sl.Off+i])
	}
	return out
}

func init() {
	models["fmt.Sprintf"] = func(it *Interp, a []Val) Val {
		f, ok := a[0].(*StrV).concreteString()
		if !ok {
			it.fail("Sprintf with symbolic format")
		}
		return it.sprintf(f, sliceArgs(a[1]))
	}
	models["fmt.Sprint"] = func(it *Interp, a []Val) Val {
		args := sliceArgs(a[0])
		return it.sprintf(strings.Repeat("%v", len(args)), args)
	}
	models["fmt.Sprintln"] = models["fmt.Sprint"]
	models["fmt.Println"] = func(it *Interp, a []Val) Val { return Tuple{BVu(64, 0), IfaceV{}} }
	models["fmt.Printf"] = func(it *Interp, a []Val) Val { return Tuple{BVu(64, 0), IfaceV{}} }

	// ---- strconv ----
	models["strconv.FormatUint"] = func(it *Interp, a []Val) Val {
		x := a[0].(*Term)
		base := a[1].(*Term)
		if !base.IsConst() || base.val.Int64() != 10 {
			it.fail("FormatUint base != 10")
		}
		if x.IsConst() {
			return strLit(x.val.String())
		}
		if it.ex.cfg.ExactDecimal {
			return it.decRender(x)
		}
		t := App("itoa", SStr, x)
		it.p.noteInjective("itoa", t)
		it.strLenTerm(t)
		return &StrV{T: t}
	}
	models["strconv.Itoa"] = func(it *Interp, a []Val) Val {
		x := a[0].(*Term)
		if x.IsConst() {
			return strLit(signed(64, x.val).String())
		}
		if it.ex.cfg.ExactDecimal {
			return it.decRenderSigned(x)
		}
		t := App("itoa_s", SStr, x)
		it.p.noteInjective("itoa_s", t)
		return &StrV{T: t}
	}
	models["strconv.FormatInt"] = func(it *Interp, a []Val) Val {
		x := a[0].(*Term)
		if x.IsConst() {
			return strLit(signed(64, x.val).String())
		}
		if b := a[1].(*Term); !b.IsConst() || b.val.Int64() != 10 {
			it.fail("FormatInt base != 10")
		}
		if it.ex.cfg.ExactDecimal {
			return it.decRenderSigned(x)
		}
		t := App("itoa_s", SStr, x)
		it.p.noteInjective("itoa_s", t)
		return &StrV{T: t}
	}
	models["strconv.ParseUint"] = func(it *Interp, a []Val) Val {
		s := a[0].(*StrV)
		base, bits := a[1].(*Term), a[2].(*Term)
		if !base.IsConst() || !bits.IsConst() || base.val.Int64() != 10 {
			it.fail("ParseUint with base != 10")
		}
		if cs, ok := s.concreteString(); ok {
			v, err := strconv.ParseUint(cs, 10, int(bits.val.Int64()))
			if err != nil {
				return Tuple{BVu(64, v), it.newErr(IfaceV{}, "strconv.ParseUint")}
			}
			return Tuple{BVu(64, v), IfaceV{}}
		}
		if isPlainB(s) {
			return it.parseUintB(s, int(bits.val.Int64()))
		}
		t := it.toA(s)
		if t.op == "app" && t.name == "itoa" {
			return Tuple{t.args[0], IfaceV{}}
		}
		okT := App("isdecimal", SBool, t)
		if it.p.branch(okT) {
			v := App("atoi", bvSort(64), t)
			// round trip with itoa
			back := App("itoa", SStr, v)
			it.p.noteInjective("itoa", back)
			return Tuple{v, IfaceV{}}
		}
		return Tuple{BVu(64, 0), it.newErr(IfaceV{}, "strconv.ParseUint")}
	}
	models["strconv.Atoi"] = func(it *Interp, a []Val) Val {
		s := a[0].(*StrV)
		if cs, ok := s.concreteString(); ok {
			v, err := strconv.Atoi(cs)
			if err != nil {
				return Tuple{BVi(64, 0), it.newErr(IfaceV{}, "strconv.Atoi")}
			}
			return Tuple{BVi(64, int64(v)), IfaceV{}}
		}
		it.fail("Atoi of symbolic string")
		return nil
	}

	// ---- strings / bytes ----
	models["strings.Contains"] = func(it *Interp, a []Val) Val { return it.strContains(a[0].(*StrV), a[1].(*StrV)) }
	models["bytes.Contains"] = models["strings.Contains"]
	trimFix := func(prefix bool) modelFn {
		return func(it *Interp, a []Val) Val {
			str, fix := a[0].(*StrV), a[1].(*StrV)
			cs, okS := str.concreteString()
			cf, okF := fix.concreteString()
			if okS && okF {
				if prefix {
					return strLit(strings.TrimPrefix(cs, cf))
				}
				return strLit(strings.TrimSuffix(cs, cf))
			}
			var has *Term
			if prefix {
				has = it.strHasPrefix(str, fix)
			} else {
				has = it.strHasSuffix(str, fix)
			}
			if !it.p.branch(has) {
				return str
			}
			if isPlainB(str) && isPlainB(fix) {
				if prefix {
					return &StrV{Bytes: str.Bytes[len(fix.Bytes):len(str.Bytes):len(str.Bytes)], IsB: true}
				}
				k := len(str.Bytes) - len(fix.Bytes)
				return &StrV{Bytes: str.Bytes[:k:k], IsB: true}
			}
			// opaque: s = fix ++ rest (resp. rest ++ fix)
			t := it.toA(str)
			name := "trimsuffix"
			if prefix {
				name = "trimprefix"
			}
			rest := &StrV{T: App(name, SStr, t, it.toA(fix))}
			it.strLenTerm(rest.T)
			if prefix {
				it.p.assertAxiom(it.strEq(str, it.strConcat(fix, rest)))
			} else {
				it.p.assertAxiom(it.strEq(str, it.strConcat(rest, fix)))
			}
			return rest
		}
	}
	models["strings.TrimPrefix"] = trimFix(true)
	models["strings.TrimSuffix"] = trimFix(false)
	models["strings.SplitN"] = func(it *Interp, a []Val) Val {
		str, sep := a[0].(*StrV), a[1].(*StrV)
		n := it.concreteInt(a[2], "strings.SplitN count")
		cs, okS := str.concreteString()
		csep, okSep := sep.concreteString()
		mk := func(parts []*StrV) Val {
			vals := make([]Val, len(parts))
			for i, p := range parts {
				vals[i] = p
			}
			return &SliceV{Arr: &vals, Len: len(vals), Cap: len(vals)}
		}
		if okS && okSep {
			var parts []*StrV
			for _, p := range strings.SplitN(cs, csep, n) {
				parts = append(parts, strLit(p))
			}
			return mk(parts)
		}
		if n != 2 || !okSep || csep == "" {
			it.fail("strings.SplitN on a symbolic string is modelled for n = 2 and a constant separator only")
		}
		if isPlainB(str) && len(csep) == 1 {
			// structured: the first occurrence of the separator byte, found by branching
			for i := range str.Bytes {
				if it.p.branch(Eq(str.Bytes[i], BVu(8, uint64(csep[0])))) {
					return mk([]*StrV{{Bytes: str.Bytes[:i:i], IsB: true}, {Bytes: str.Bytes[i+1 : len(str.Bytes) : len(str.Bytes)], IsB: true}})
				}
			}
			return mk([]*StrV{str})
		}
		// opaque: either the separator does not occur (one part) or s = before ++ sep ++ after
		t := it.toA(str)
		it.strLenTerm(t)
		if !it.p.branch(it.strContains(str, sep)) {
			return mk([]*StrV{str})
		}
		before := &StrV{T: App("splitn2!before!"+csep, SStr, t)}
		after := &StrV{T: App("splitn2!after!"+csep, SStr, t)}
		it.strLenTerm(before.T)
		it.strLenTerm(after.T)
		it.p.assertAxiom(it.strEq(str, it.strConcat(it.strConcat(before, strLit(csep)), after)))
		return mk([]*StrV{before, after})
	}
	// process memory: atomic.Value is a cell, locks are no-ops (the executor is sequential)
	models["(*sync/atomic.Value).Store"] = func(it *Interp, a []Val) Val {
		p, ok := a[0].(Ptr)
		if !ok || p == nil {
			it.tpanic("atomic.Value.Store on nil pointer")
		}
		*p = &Native{Kind: "atomiccell", Data: a[1]}
		return nil
	}
	models["(*sync/atomic.Value).Load"] = func(it *Interp, a []Val) Val {
		p, ok := a[0].(Ptr)
		if !ok || p == nil {
			it.tpanic("atomic.Value.Load on nil pointer")
		}
		if n, isCell := (*p).(*Native); isCell && n.Kind == "atomiccell" {
			return n.Data.(Val)
		}
		return IfaceV{}
	}
	for _, m := range []string{"(*sync.Mutex).Lock", "(*sync.Mutex).Unlock", "(*sync.RWMutex).Lock", "(*sync.RWMutex).Unlock", "(*sync.RWMutex).RLock", "(*sync.RWMutex).RUnlock"} {
		models[m] = func(it *Interp, a []Val) Val { return nil }
	}
	models["strings.HasPrefix"] = func(it *Interp, a []Val) Val { return it.strHasPrefix(a[0].(*StrV), a[1].(*StrV)) }
	models["bytes.HasPrefix"] = models["strings.HasPrefix"]
	models["strings.HasSuffix"] = func(it *Interp, a []Val) Val { return it.strHasSuffix(a[0].(*StrV), a[1].(*StrV)) }
	models["bytes.HasSuffix"] = models["strings.HasSuffix"]
	models["strings.TrimSpace"] = func(it *Interp, a []Val) Val {
		s := a[0].(*StrV)
		if cs, ok := s.concreteString(); ok {
			return strLit(strings.TrimSpace(cs))
		}
		if isPlainB(s) {
			return it.trimSpaceB(s)
		}
		t := it.toA(s)
		r := App("trimspace", SStr, t)
		it.strLenTerm(r)
		// trimming the empty string gives the empty string; a non-blank string stays non-empty only if it has a non-space byte
		it.p.assertAxiom(Implies(Eq(t, it.litTerm("")), Eq(r, it.litTerm(""))))
		return &StrV{T: r}
	}
	models["strings.Split"] = func(it *Interp, a []Val) Val { return it.strSplit(a[0].(*StrV), a[1].(*StrV)) }
	// byte-level models over structured strings with a concrete second operand
	idx := func(last bool) modelFn {
		return func(it *Interp, a []Val) Val {
			s, sep := a[0].(*StrV), a[1].(*StrV)
			cs, okS := s.concreteString()
			csep, okSep := sep.concreteString()
			if okS && okSep {
				if last {
					return BVi(64, int64(strings.LastIndex(cs, csep)))
				}
				return BVi(64, int64(strings.Index(cs, csep)))
			}
			if !isPlainB(s) || !okSep {
				it.fail("strings.Index/LastIndex needs a structured string and a concrete separator")
			}
			m := len(csep)
			n := len(s.Bytes)
			try := func(i int) bool {
				e := TTrue
				for j := 0; j < m; j++ {
					e = And(e, Eq(s.Bytes[i+j], BVu(8, uint64(csep[j]))))
				}
				return it.p.branch(e)
			}
			if last {
				for i := n - m; i >= 0; i-- {
					if try(i) {
						return BVi(64, int64(i))
					}
				}
			} else {
				for i := 0; i+m <= n; i++ {
					if try(i) {
						return BVi(64, int64(i))
					}
				}
			}
			return BVi(64, -1)
		}
	}
	models["strings.Index"] = idx(false)
	models["strings.LastIndex"] = idx(true)
	trim := func(left, right bool) modelFn {
		return func(it *Interp, a []Val) Val {
			s, cut := a[0].(*StrV), a[1].(*StrV)
			ccut, ok := cut.concreteString()
			if !ok || !isPlainB(s) {
				it.fail("strings.Trim* with a cutset needs a structured string and a concrete cutset")
			}
			in := func(b *Term) bool {
				e := TFalse
				for i := 0; i < len(ccut); i++ {
					e = Or(e, Eq(b, BVu(8, uint64(ccut[i]))))
				}
				return it.p.branch(e)
			}
			lo, hi := 0, len(s.Bytes)
			if left {
				for lo < hi && in(s.Bytes[lo]) {
					lo++
				}
			}
			if right {
				for hi > lo && in(s.Bytes[hi-1]) {
					hi--
				}
			}
			return &StrV{Bytes: s.Bytes[lo:hi:hi], IsB: true}
		}
	}
	models["strings.TrimRight"] = trim(false, true)
	models["strings.TrimLeft"] = trim(true, false)
	models["strings.Trim"] = trim(true, true)
	models["strings.Join"] = func(it *Interp, a []Val) Val {
		parts := sliceArgs(a[0])
		sep := a[1].(*StrV)
		out := strLit("")
		for i, p := range parts {
			if i > 0 {
				out = it.strConcat(out, sep)
			}
			out = it.strConcat(out, p.(*StrV))
		}
		return out
	}
	models["strings.ReplaceAll"] = func(it *Interp, a []Val) Val {
		s, o, n := a[0].(*StrV), a[1].(*StrV), a[2].(*StrV)
		cs, ok1 := s.concreteString()
		co, ok2 := o.concreteString()
		cn, ok3 := n.concreteString()
		if ok1 && ok2 && ok3 {
			return strLit(strings.ReplaceAll(cs, co, cn))
		}
		r := App("replaceall", SStr, it.toA(s), it.toA(o), it.toA(n))
		it.strLenTerm(r)
		return &StrV{T: r}
	}
	models["strings.ToLower"] = func(it *Interp, a []Val) Val {
		s := a[0].(*StrV)
		if cs, ok := s.concreteString(); ok {
			return strLit(strings.ToLower(cs))
		}
		if r := it.caseMapASCII(s, true); r != nil {
			return r
		}
		return &StrV{T: App("tolower", SStr, it.toA(s))}
	}
	models["strings.ToUpper"] = func(it *Interp, a []Val) Val {
		s := a[0].(*StrV)
		if cs, ok := s.concreteString(); ok {
			return strLit(strings.ToUpper(cs))
		}
		if r := it.caseMapASCII(s, false); r != nil {
			return r
		}
		return &StrV{T: App("toupper", SStr, it.toA(s))}
	}
	models["strings.EqualFold"] = func(it *Interp, a []Val) Val {
		x, y := a[0].(*StrV), a[1].(*StrV)
		cx, ok1 := x.concreteString()
		cy, ok2 := y.concreteString()
		if ok1 && ok2 {
			return Bool(strings.EqualFold(cx, cy))
		}
		if isPlainB(x) && isPlainB(y) {
			// byte-exact for ASCII: equal, or the same letter in the two cases (multi-byte runes fold only to themselves here)
			if len(x.Bytes) != len(y.Bytes) {
				return TFalse
			}
			out := TTrue
			for i := range x.Bytes {
				lx, ly := BVBin("bvor", x.Bytes[i], BVu(8, 0x20)), BVBin("bvor", y.Bytes[i], BVu(8, 0x20))
				letter := And(BVCmp("bvuge", lx, BVu(8, 'a')), BVCmp("bvule", lx, BVu(8, 'z')))
				out = And(out, Or(Eq(x.Bytes[i], y.Bytes[i]), And(Eq(lx, ly), letter)))
			}
			return out
		}
		return Eq(App("tolower", SStr, it.toA(x)), App("tolower", SStr, it.toA(y)))
	}
	models["bytes.Equal"] = func(it *Interp, a []Val) Val { return it.strEq(a[0].(*StrV), a[1].(*StrV)) }
	models["bytes.Compare"] = func(it *Interp, a []Val) Val {
		x, y := a[0].(*StrV), a[1].(*StrV)
		if isPlainB(x) && isPlainB(y) {
			lt, eq := it.bytesLess(x.Bytes, y.Bytes)
			return Ite(eq, BVi(64, 0), Ite(lt, BVi(64, -1), BVi(64, 1)))
		}
		e := it.strEq(x, y)
		r := App("bytescmp", bvSort(64), it.toA(x), it.toA(y))
		it.p.assertAxiom(Eq(e, Eq(r, BVi(64, 0))))
		return r
	}
	models["strings.Compare"] = models["bytes.Compare"]
}

func (it *Interp) strContains(s, sub *StrV) *Term {
	cs, ok1 := s.concreteString()
	csub, ok2 := sub.concreteString()
	if ok1 && ok2 {
		return Bool(strings.Contains(cs, csub))
	}
	if isPlainB(s) && isPlainB(sub) {
		n, m := len(s.Bytes), len(sub.Bytes)
		out := TFalse
		for i := 0; i+m <= n; i++ {
			e := TTrue
			for j := 0; j < m; j++ {
				e = And(e, Eq(s.Bytes[i+j], sub.Bytes[j]))
			}
			out = Or(out, e)
		}
		return out
	}
	ts, tsub := it.toA(s), it.toA(sub)
	it.strLenTerm(ts)
	return App("contains", SBool, ts, tsub)
}

func (it *Interp) strHasPrefix(s, pre *StrV) *Term {
	if isPlainB(s) && isPlainB(pre) {
		if len(pre.Bytes) > len(s.Bytes) {
			return TFalse
		}
		e := TTrue
		for j := range pre.Bytes {
			e = And(e, Eq(s.Bytes[j], pre.Bytes[j]))
		}
		return e
	}
	ts, tp := it.toA(s), it.toA(pre)
	// concat(p, x) has prefix p
	if ts.op == "app" && ts.name == "concat" && ts.args[0] == tp {
		return TTrue
	}
	hp := App("hasprefix", SBool, ts, tp)
	if !it.p.lenAx[hp.id] {
		// a prefix is no longer than the string, and a prefix of the same length is the string
		it.p.lenAx[hp.id] = true
		ls, lp := it.strLenTerm(ts), it.strLenTerm(tp)
		it.p.assertAxiom(Implies(hp, BVCmp("bvule", lp, ls)))
		it.p.assertAxiom(Implies(And(hp, Eq(lp, ls)), Eq(ts, tp)))
		it.p.assertAxiom(Implies(Eq(ts, tp), hp))
	}
	return hp
}

func (it *Interp) strHasSuffix(s, suf *StrV) *Term {
	if isPlainB(s) && isPlainB(suf) {
		if len(suf.Bytes) > len(s.Bytes) {
			return TFalse
		}
		off := len(s.Bytes) - len(suf.Bytes)
		e := TTrue
		for j := range suf.Bytes {
			e = And(e, Eq(s.Bytes[off+j], suf.Bytes[j]))
		}
		return e
	}
	return App("hassuffix", SBool, it.toA(s), it.toA(suf))
}

func (it *Interp) trimSpaceB(s *StrV) *StrV {
	isSp := func(b *Term) *Term {
		return Or(Eq(b, BVu(8, ' ')), Eq(b, BVu(8, '\t')), Eq(b, BVu(8, '\n')), Eq(b, BVu(8, '\r')), Eq(b, BVu(8, 0x0b)), Eq(b, BVu(8, 0x0c)), Eq(b, BVu(8, 0x85)), Eq(b, BVu(8, 0xa0)))
	}
	lo, hi := 0, len(s.Bytes)
	for lo < hi && it.p.branch(isSp(s.Bytes[lo])) {
		lo++
	}
	for hi > lo && it.p.branch(isSp(s.Bytes[hi-1])) {
		hi--
	}
	return &StrV{Bytes: s.Bytes[lo:hi:hi], IsB: true}
}

// strSplit: exact on structured bytes (branches on whether a byte equals the separator); single-byte separators only.
func (it *Interp) strSplit(s, sep *StrV) Val {
	if isPlainB(s) && isPlainB(sep) && len(sep.Bytes) >= 1 {
		m := len(sep.Bytes)
		var parts []Val
		start := 0
		i := 0
		for i+m <= len(s.Bytes) {
			e := TTrue
			for j := 0; j < m; j++ {
				e = And(e, Eq(s.Bytes[i+j], sep.Bytes[j]))
			}
			if it.p.branch(e) {
				parts = append(parts, &StrV{Bytes: s.Bytes[start:i:i], IsB: true})
				i += m
				start = i
			} else {
				i++
			}
		}
		parts = append(parts, &StrV{Bytes: s.Bytes[start:len(s.Bytes):len(s.Bytes)], IsB: true})
		return &SliceV{Arr: &parts, Len: len(parts), Cap: len(parts)}
	}
	if cs, ok := sep.concreteString(); ok && cs == "/" {
		if parts, ok := it.splitOpaque(it.toA(s)); ok {
			vals := make([]Val, len(parts))
			for i, p := range parts {
				vals[i] = p
			}
			return &SliceV{Arr: &vals, Len: len(vals), Cap: len(vals)}
		}
	}
	it.fail("strings.Split on opaque strings is not encodable (use structured bytes)")
	return nil
}

// splitOpaque splits an opaque string on '/' when it is built from literals and operands whose rendering cannot contain
// a '/': decimal numbers (%d) and hexadecimal renderings of hashes and addresses. Literal text is split exactly; every
// other operand makes the split not encodable.
func (it *Interp) splitOpaque(t *Term) ([]*StrV, bool) {
	var done []*StrV
	cur := strLit("")
	ok := true
	feedLit := func(l string) {
		for {
			i := strings.IndexByte(l, '/')
			if i < 0 {
				cur = it.strConcat(cur, strLit(l))
				return
			}
			cur = it.strConcat(cur, strLit(l[:i]))
			done = append(done, cur)
			cur = strLit("")
			l = l[i+1:]
		}
	}
	var walk func(t *Term)
	walk = func(t *Term) {
		if !ok {
			return
		}
		if t.op == "var" {
			if v, isLit := it.p.litVal[t.name]; isLit {
				feedLit(v)
				return
			}
			ok = false
			return
		}
		if t.op != "app" {
			ok = false
			return
		}
		if strings.HasPrefix(t.name, "bytes!") {
			b := it.fromA(t)
			if cs, isC := b.concreteString(); isC {
				feedLit(cs)
				return
			}
			ok = false
			return
		}
		switch t.name {
		case "concat":
			walk(t.args[0])
			walk(t.args[1])
			return
		case "hashhex", "addrhex", "hexenc":
			cur = it.strConcat(cur, &StrV{T: t})
			return
		}
		format, isFmt := it.p.fmtNames[t.name]
		if !isFmt {
			ok = false
			return
		}
		ai := 0
		lit := ""
		for i := 0; i < len(format); {
			c := format[i]
			if c != '%' {
				lit += string(c)
				i++
				continue
			}
			if i+1 < len(format) && format[i+1] == '%' {
				lit += "%"
				i += 2
				continue
			}
			if i+1 >= len(format) || ai >= len(t.args) || !strings.ContainsRune("dsv", rune(format[i+1])) {
				ok = false
				return
			}
			feedLit(lit)
			lit = ""
			arg := t.args[ai]
			ai++
			if arg.sort == SStr {
				walk(arg)
				if !ok {
					return
				}
			} else if arg.sort != SBool && format[i+1] != 's' {
				// a decimal rendering: digits and a sign
				h := sha256.Sum256([]byte("%d"))
				name := "fmt!" + hex.EncodeToString(h[:6])
				dt := App(name, SStr, arg)
				it.p.fmtNames[name] = "%d"
				if it.ex.cfg.InjectiveSprintf {
					it.p.noteInjective(name, dt)
					it.p.noteGroup("fmt", name, dt)
				}
				it.strLenTerm(dt)
				cur = it.strConcat(cur, &StrV{T: dt})
			} else {
				ok = false
				return
			}
			i += 2
		}
		feedLit(lit)
	}
	walk(t)
	if !ok {
		return nil, false
	}
	done = append(done, cur)
	return done, true
}

func (it *Interp) parseUintB(s *StrV, bits int) Val {
	n := len(s.Bytes)
	fail := Tuple{BVu(64, 0), it.newErr(IfaceV{}, "strconv.ParseUint")}
	if n == 0 {
		return fail
	}
	if x := it.p.renderedNumber(s.Bytes); x != nil && bits == 64 {
		return Tuple{x, IfaceV{}} // strconv: ParseUint(FormatUint(x, 10), 10, 64) == x
	}
	// all bytes digits?
	okT := TTrue
	for _, b := range s.Bytes {
		okT = And(okT, BVCmp("bvuge", b, BVu(8, '0')), BVCmp("bvule", b, BVu(8, '9')))
	}
	if !it.p.branch(okT) {
		return fail
	}
	if n > 19 {
		// overflow handling for 20+ digits: decide with mathematical integers
		acc := IntI(0)
		for _, b := range s.Bytes {
			acc = IntBin("+", IntBin("*", acc, IntI(10)), BVToNat(BVBin("bvsub", b, BVu(8, '0'))))
		}
		lim := new(big.Int).Lsh(big1, uint(bits))
		if !it.p.branch(IntCmp("<", acc, IntC(lim))) {
			return Tuple{BV(64, new(big.Int).Sub(lim, big1)), it.newErr(IfaceV{}, "strconv.ParseUint range")}
		}
		return Tuple{IntToBV(64, acc), IfaceV{}}
	}
	acc := BVu(64, 0)
	for _, b := range s.Bytes {
		acc = BVBin("bvadd", BVBin("bvmul", acc, BVu(64, 10)), ZeroExt(64, BVBin("bvsub", b, BVu(8, '0'))))
	}
	return Tuple{acc, IfaceV{}}
}

// caseMapASCII: strings.ToLower / ToUpper byte by byte for a structured string all of whose bytes are ASCII on this path
// (one branch on that; with a non-ASCII byte the caller falls back to the uninterpreted function).
func (it *Interp) caseMapASCII(s *StrV, lower bool) *StrV {
	if !isPlainB(s) {
		return nil
	}
	ascii := TTrue
	for _, b := range s.Bytes {
		ascii = And(ascii, BVCmp("bvult", b, BVu(8, 0x80)))
	}
	if !it.p.branch(ascii) {
		return nil
	}
	out := make([]*Term, len(s.Bytes))
	for i, b := range s.Bytes {
		if lower {
			out[i] = Ite(And(BVCmp("bvuge", b, BVu(8, 'A')), BVCmp("bvule", b, BVu(8, 'Z'))), BVBin("bvor", b, BVu(8, 0x20)), b)
		} else {
			out[i] = Ite(And(BVCmp("bvuge", b, BVu(8, 'a')), BVCmp("bvule", b, BVu(8, 'z'))), BVBin("bvand", b, BVu(8, 0xdf)), b)
		}
	}
	return &StrV{Bytes: out, IsB: s.IsB}
}
