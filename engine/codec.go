package main

import (
	"go/types"
	"strings"
)

// Codec model: Marshal boxes the Go value ("the canonical encoding of v"), Unmarshal unboxes.
// Opaque bytes (from a havoc store or a message) decode to a deterministic symbolic value of the target type.

func (it *Interp) box(v Val, t types.Type) *StrV {
	return &StrV{Boxed: copyDeep(v), BoxT: t}
}

// copyDeep copies through pointers and slices so that later mutation does not alter stored values.
func copyDeep(v Val) Val {
	switch v := v.(type) {
	case *StructV:
		n := &StructV{T: v.T, F: make([]Val, len(v.F))}
		for i, f := range v.F {
			n.F[i] = copyDeep(f)
		}
		return n
	case *ArrayV:
		n := &ArrayV{E: make([]Val, len(v.E))}
		for i, f := range v.E {
			n.E[i] = copyDeep(f)
		}
		return n
	case *SliceV:
		if v.Arr == nil {
			return &SliceV{}
		}
		arr := make([]Val, v.Len)
		for i := 0; i < v.Len; i++ {
			arr[i] = copyDeep((*v.Arr)[v.Off+i])
		}
		return &SliceV{Arr: &arr, Len: v.Len, Cap: v.Len}
	case Ptr:
		if v == nil {
			return v
		}
		return Ptr(newVal(copyDeep(*v)))
	case IfaceV:
		return IfaceV{T: v.T, V: copyDeep(v.V)}
	case *StrV:
		if v.IsB && v.T == nil && v.Boxed == nil {
			n := *v
			n.Bytes = append([]*Term(nil), v.Bytes...)
			return &n
		}
		return v
	case *MapV:
		if v == nil {
			return v
		}
		n := &MapV{}
		for _, e := range v.E {
			n.E = append(n.E, mapEntry{K: copyDeep(e.K), V: copyDeep(e.V)})
		}
		return n
	}
	return v
}

func (it *Interp) codecMethod(n *Native, name string, a []Val) Val {
	switch name {
	case "Marshal", "MustMarshal", "MarshalLengthPrefixed", "MustMarshalLengthPrefixed", "MarshalJSON", "MustMarshalJSON":
		iv := a[0].(IfaceV)
		if iv.IsNil() {
			it.tpanic("Marshal(nil)")
		}
		var bz *StrV
		if p, ok := iv.V.(Ptr); ok {
			if p == nil {
				it.tpanic("Marshal of nil pointer")
			}
			bz = it.box(*p, iv.T.Underlying().(*types.Pointer).Elem())
		} else {
			bz = it.box(iv.V, iv.T)
		}
		if name[0:4] == "Must" {
			return bz
		}
		return Tuple{bz, IfaceV{}}
	case "Unmarshal", "MustUnmarshal", "UnmarshalLengthPrefixed", "MustUnmarshalLengthPrefixed", "UnmarshalJSON", "MustUnmarshalJSON":
		bz := a[0].(*StrV)
		iv := a[1].(IfaceV)
		p, ok := iv.V.(Ptr)
		if !ok || p == nil {
			it.fail("Unmarshal into %s", it.describe(a[1]))
		}
		elem := iv.T.Underlying().(*types.Pointer).Elem()
		must := name[0:4] == "Must"
		fail := func(msg string) Val {
			if must {
				it.tpanic("MustUnmarshal: " + msg)
			}
			return it.newErr(IfaceV{}, "unmarshal: "+msg)
		}
		if bz.Boxed == nil && isPlainB(bz) && len(bz.Bytes) == 0 {
			// proto3: empty bytes are the encoding of the zero message (merged into the target: no field is present)
			if strings.Contains(name, "JSON") {
				*p = it.zero(elem)
			}
			if must {
				return nil
			}
			return IfaceV{}
		}
		if bz.Boxed != nil {
			if typeKey(bz.BoxT) != typeKey(elem) {
				return fail("type mismatch " + typeKey(bz.BoxT) + " vs " + typeKey(elem))
			}
			nv := copyDeep(bz.Boxed)
			if !strings.Contains(name, "JSON") {
				nv = it.protoMerge(*p, nv, elem)
			}
			*p = nv
		} else {
			t := it.toA(bz)
			okT := App("decodes!"+typeKey(elem), SBool, t)
			if !it.p.branch(okT) {
				return fail("malformed bytes")
			}
			nv := it.freshValue(elem, "", it.decodeMaker(t, typeKey(elem)), freshOpts{maxLen: it.ex.cfg.DecodeMaxLen})
			if !strings.Contains(name, "JSON") {
				nv = it.protoMerge(*p, nv, elem)
			}
			*p = nv
		}
		if must {
			return nil
		}
		return IfaceV{}
	case "MarshalInterface", "MarshalInterfaceJSON":
		iv := a[0].(IfaceV)
		if iv.IsNil() {
			return Tuple{&StrV{IsB: true, Nil: true}, it.newErr(IfaceV{}, "MarshalInterface(nil)")}
		}
		return Tuple{&StrV{Boxed: copyDeep(iv), BoxT: nil}, IfaceV{}}
	case "UnmarshalInterface", "UnmarshalInterfaceJSON":
		bz := a[0].(*StrV)
		iv := a[1].(IfaceV)
		p, ok := iv.V.(Ptr)
		if !ok || p == nil {
			it.fail("UnmarshalInterface into %s", it.describe(a[1]))
		}
		if bz.Boxed != nil && bz.BoxT == nil {
			inner := copyDeep(bz.Boxed).(IfaceV)
			target := iv.T.Underlying().(*types.Pointer).Elem()
			if ti, ok := target.Underlying().(*types.Interface); ok && inner.T != nil && !types.Implements(inner.T, ti) {
				return it.newErr(IfaceV{}, "UnmarshalInterface: does not implement")
			}
			*p = inner
			return IfaceV{}
		}
		if bz.Boxed != nil {
			return it.newErr(IfaceV{}, "UnmarshalInterface: not an Any")
		}
		it.fail("UnmarshalInterface of opaque bytes: the dynamic type is unknown (populate the store through the module's setters)")
	case "UnpackAny":
		it.fail("UnpackAny unsupported here")
	case "InterfaceRegistry":
		return IfaceV{V: &Native{Kind: "ifaceregistry"}}
	}
	it.fail("codec method %s unsupported", name)
	return nil
}

// ---- proto merge semantics ----
// The gogo-generated Unmarshal that ProtoCodec.Unmarshal calls does not reset its target: fields present on the wire
// overwrite (proto3 omits zero values, so an absent scalar keeps the target's old value), repeated fields are appended,
// embedded messages are merged recursively. Decoding into a zero target - the usual case - is plain replacement.

func syntacticZero(v Val) bool {
	switch x := v.(type) {
	case nil:
		return true
	case *Term:
		return x.IsConst() && x.val.Sign() == 0
	case *StrV:
		if x.Boxed != nil || x.T != nil {
			return false
		}
		if x.IsArr {
			for _, b := range x.Bytes {
				if !b.IsConst() || b.val.Sign() != 0 {
					return false
				}
			}
			return true
		}
		return x.IsB && len(x.Bytes) == 0
	case *StructV:
		for _, f := range x.F {
			if !syntacticZero(f) {
				return false
			}
		}
		return true
	case *ArrayV:
		for _, f := range x.E {
			if !syntacticZero(f) {
				return false
			}
		}
		return true
	case *SliceV:
		return x.Len == 0
	case Ptr:
		return x == nil
	case *MapV:
		return x == nil || len(x.E) == 0
	case IfaceV:
		return x.IsNil()
	case IntV:
		return x.T.IsConst() && x.T.val.Sign() == 0
	}
	return false
}

func (it *Interp) protoMerge(old, nw Val, t types.Type) Val {
	if syntacticZero(old) {
		return nw
	}
	if syntacticZero(nw) {
		return old
	}
	switch u := t.Underlying().(type) {
	case *types.Basic:
		switch n := nw.(type) {
		case *Term:
			o := old.(*Term)
			var zero *Term
			if n.sort == SBool {
				zero = TFalse
			} else {
				zero = BVu(n.w, 0)
			}
			return Ite(Eq(n, zero), o, n)
		case *StrV:
			if it.p.branch(Eq(it.strLen(n), BVu(64, 0))) {
				return old
			}
			return nw
		}
	case *types.Slice:
		if isByteType(u.Elem()) {
			n := nw.(*StrV)
			if it.p.branch(Eq(it.strLen(n), BVu(64, 0))) {
				return old
			}
			return nw
		}
		o, n := old.(*SliceV), nw.(*SliceV)
		arr := make([]Val, 0, o.Len+n.Len)
		for i := 0; i < o.Len; i++ {
			arr = append(arr, copyVal((*o.Arr)[o.Off+i]))
		}
		for i := 0; i < n.Len; i++ {
			arr = append(arr, copyVal((*n.Arr)[n.Off+i]))
		}
		return &SliceV{Arr: &arr, Len: len(arr), Cap: len(arr)}
	case *types.Struct:
		if ns := namedString(t); ns == "math/big.Int" || ns == "time.Time" || strings.HasPrefix(ns, "github.com/cosmos/cosmos-sdk/types.") {
			return nw // custom types replace
		}
		o, n := old.(*StructV), nw.(*StructV)
		r := &StructV{T: n.T, F: make([]Val, len(n.F))}
		for i := range n.F {
			r.F[i] = it.protoMerge(o.F[i], n.F[i], u.Field(i).Type())
		}
		return r
	case *types.Pointer:
		o, n := old.(Ptr), nw.(Ptr)
		if _, isStruct := u.Elem().Underlying().(*types.Struct); isStruct && o != nil && n != nil {
			m := it.protoMerge(*o, *n, u.Elem())
			return Ptr(&m)
		}
	}
	it.fail("proto merge into a non-zero %s is not modelled", t)
	return nil
}
