package main

import (
	"go/types"
)

// Codec model: Marshal boxes the Go value ("the canonical encoding of v"), Unmarshal unboxes.
// Opaque bytes (from a havoc store or a message) decode to a deterministic symbolic value of the target type.

func (it *Interp) box(v Val, t types.Type) *StrV {
	return &StrV{Boxed: copyDeep(v), BoxT: t}
}

// copyDeep copies through pointers and slices so that later mutation does not alter stored values.
func copyDeep(v Val) Val {
	switch v := v.(type) {
	case *StructV:
		n := &StructV{T: v.T, F: make([]Val, len(v.F))}
		for i, f := range v.F {
			n.F[i] = copyDeep(f)
		}
		return n
	case *ArrayV:
		n := &ArrayV{E: make([]Val, len(v.E))}
		for i, f := range v.E {
			n.E[i] = copyDeep(f)
		}
		return n
	case *SliceV:
		if v.Arr == nil {
			return &SliceV{}
		}
		arr := make([]Val, v.Len)
		for i := 0; i < v.Len; i++ {
			arr[i] = copyDeep((*v.Arr)[v.Off+i])
		}
		return &SliceV{Arr: &arr, Len: v.Len, Cap: v.Len}
	case Ptr:
		if v == nil {
			return v
		}
		return Ptr(newVal(copyDeep(*v)))
	case IfaceV:
		return IfaceV{T: v.T, V: copyDeep(v.V)}
	case *StrV:
		if v.IsB && v.T == nil && v.Boxed == nil {
			n := *v
			n.Bytes = append([]*Term(nil), v.Bytes...)
			return &n
		}
		return v
	case *MapV:
		if v == nil {
			return v
		}
		n := &MapV{}
		for _, e := range v.E {
			n.E = append(n.E, mapEntry{K: copyDeep(e.K), V: copyDeep(e.V)})
		}
		return n
	}
	return v
}

func (it *Interp) codecMethod(n *Native, name string, a []Val) Val {
	switch name {
	case "Marshal", "MustMarshal", "MarshalLengthPrefixed", "MustMarshalLengthPrefixed", "MarshalJSON", "MustMarshalJSON":
		iv := a[0].(IfaceV)
		if iv.IsNil() {
			it.tpanic("Marshal(nil)")
		}
		var bz *StrV
		if p, ok := iv.V.(Ptr); ok {
			if p == nil {
				it.tpanic("Marshal of nil pointer")
			}
			bz = it.box(*p, iv.T.Underlying().(*types.Pointer).Elem())
		} else {
			bz = it.box(iv.V, iv.T)
		}
		if name[0:4] == "Must" {
			return bz
		}
		return Tuple{bz, IfaceV{}}
	case "Unmarshal", "MustUnmarshal", "UnmarshalLengthPrefixed", "MustUnmarshalLengthPrefixed", "UnmarshalJSON", "MustUnmarshalJSON":
		bz := a[0].(*StrV)
		iv := a[1].(IfaceV)
		p, ok := iv.V.(Ptr)
		if !ok || p == nil {
			it.fail("Unmarshal into %s", it.describe(a[1]))
		}
		elem := iv.T.Underlying().(*types.Pointer).Elem()
		must := name[0:4] == "Must"
		fail := func(msg string) Val {
			if must {
				it.tpanic("MustUnmarshal: " + msg)
			}
			return it.newErr(IfaceV{}, "unmarshal: "+msg)
		}
		if bz.Boxed == nil && isPlainB(bz) && len(bz.Bytes) == 0 {
			// proto3: empty bytes decode to the zero message
			*p = it.zero(elem)
			if must {
				return nil
			}
			return IfaceV{}
		}
		if bz.Boxed != nil {
			if typeKey(bz.BoxT) != typeKey(elem) {
				return fail("type mismatch " + typeKey(bz.BoxT) + " vs " + typeKey(elem))
			}
			*p = copyDeep(bz.Boxed)
		} else {
			t := it.toA(bz)
			okT := App("decodes!"+typeKey(elem), SBool, t)
			if !it.p.branch(okT) {
				return fail("malformed bytes")
			}
			*p = it.freshValue(elem, "", it.decodeMaker(t, typeKey(elem)), freshOpts{maxLen: it.ex.cfg.DecodeMaxLen})
		}
		if must {
			return nil
		}
		return IfaceV{}
	case "MarshalInterface", "MarshalInterfaceJSON":
		iv := a[0].(IfaceV)
		if iv.IsNil() {
			return Tuple{&StrV{IsB: true, Nil: true}, it.newErr(IfaceV{}, "MarshalInterface(nil)")}
		}
		return Tuple{&StrV{Boxed: copyDeep(iv), BoxT: nil}, IfaceV{}}
	case "UnmarshalInterface", "UnmarshalInterfaceJSON":
		bz := a[0].(*StrV)
		iv := a[1].(IfaceV)
		p, ok := iv.V.(Ptr)
		if !ok || p == nil {
			it.fail("UnmarshalInterface into %s", it.describe(a[1]))
		}
		if bz.Boxed != nil && bz.BoxT == nil {
			inner := copyDeep(bz.Boxed).(IfaceV)
			target := iv.T.Underlying().(*types.Pointer).Elem()
			if ti, ok := target.Underlying().(*types.Interface); ok && inner.T != nil && !types.Implements(inner.T, ti) {
				return it.newErr(IfaceV{}, "UnmarshalInterface: does not implement")
			}
			*p = inner
			return IfaceV{}
		}
		if bz.Boxed != nil {
			return it.newErr(IfaceV{}, "UnmarshalInterface: not an Any")
		}
		it.fail("UnmarshalInterface of opaque bytes: the dynamic type is unknown (populate the store through the module's setters)")
	case "UnpackAny":
		it.fail("UnpackAny unsupported here")
	case "InterfaceRegistry":
		return IfaceV{V: &Native{Kind: "ifaceregistry"}}
	}
	it.fail("codec method %s unsupported", name)
	return nil
}
