package main

import (
	"crypto/sha256"
	"encoding/hex"
	"fmt"
	"go/token"
	"math/big"
	"strings"
)

func newInt(i int64) *big.Int { return big.NewInt(i) }

// litTerm returns the Str constant for a concrete byte string, registering its axioms on the path.
func (it *Interp) litTerm(s string) *Term {
	name := "lit!" + hex.EncodeToString([]byte(s))
	if len(s) > 20 {
		h := sha256.Sum256([]byte(s))
		name = "lit!h" + hex.EncodeToString(h[:8])
	}
	t := Var(name, SStr)
	p := it.p
	if _, ok := p.lits[name]; !ok {
		for _, o := range p.litOrder {
			p.assertAxiom(Not(Eq(t, p.lits[o])))
		}
		p.lits[name] = t
		p.litOrder = append(p.litOrder, name)
		p.litVal[name] = s
		p.assertAxiom(Eq(App("len", bvSort(64), t), BVu(64, uint64(len(s)))))
		p.lenAx[t.id] = true
	}
	return t
}

// toA lifts a string value to an opaque Str term.
// fromA: the structured form of an opaque term where it has one (literals, byte vectors).
func (it *Interp) fromA(t *Term) *StrV {
	if t.op == "var" {
		if v, ok := it.p.litVal[t.name]; ok {
			return strLit(v)
		}
	}
	if t.op == "app" && strings.HasPrefix(t.name, "bytes!") {
		return &StrV{Bytes: append([]*Term(nil), t.args...), IsB: true}
	}
	return &StrV{T: t}
}

func (it *Interp) toA(s *StrV) *Term {
	if s.T != nil {
		return s.T
	}
	if s.Boxed != nil {
		leaves := []*Term{}
		if !it.flatten(s.Boxed, &leaves) {
			it.fail("cannot lift boxed %s value to an opaque string", s.BoxT)
		}
		fam := "enc!" + s.BoxK + typeKey(s.BoxT)
		name := fmt.Sprintf("%s!%d", fam, len(leaves))
		t := App(name, SStr, leaves...)
		it.p.noteInjective(name, t)
		it.p.noteGroup(fam, name, t)
		if !it.p.lenAx[t.id] {
			l := it.strLenTerm(t)
			if s.BoxK == "" && s.BoxT != nil {
				// proto3: the encoding is empty exactly when every field has its default value
				allDefault := TTrue
				for _, lf := range leaves {
					switch {
					case lf.sort == SBool:
						allDefault = And(allDefault, Not(lf))
					case lf.sort == SInt:
						allDefault = And(allDefault, Eq(lf, IntI(0)))
					case lf.sort == SStr:
						allDefault = And(allDefault, Eq(lf, it.litTerm("")))
					default:
						allDefault = And(allDefault, Eq(lf, BVu(lf.w, 0)))
					}
				}
				it.p.assertAxiom(Eq(Eq(l, BVu(64, 0)), allDefault))
			} else {
				it.p.assertAxiom(Not(Eq(l, BVu(64, 0))))
			}
		}
		return t
	}
	if cs, ok := s.concreteString(); ok {
		return it.litTerm(cs)
	}
	// structured bytes with symbolic content: an uninterpreted function of the bytes (injective per length)
	name := fmt.Sprintf("bytes!%d", len(s.Bytes))
	t := App(name, SStr, s.Bytes...)
	it.p.noteInjective(name, t)
	if !it.p.lenAx[t.id] {
		it.p.lenAx[t.id] = true
		it.p.assertAxiom(Eq(App("len", bvSort(64), t), BVu(64, uint64(len(s.Bytes)))))
	}
	return t
}

func (it *Interp) strLen(s *StrV) *Term {
	if s.IsB && s.T == nil && s.Boxed == nil {
		return BVu(64, uint64(len(s.Bytes)))
	}
	t := it.toA(s)
	l := App("len", bvSort(64), t)
	it.lenAxioms(t, l)
	return l
}

func (it *Interp) lenAxioms(t, l *Term) {
	if it.p.lenAx[t.id] {
		return
	}
	it.p.lenAx[t.id] = true
	it.p.assertAxiom(BVCmp("bvult", l, BVu(64, 1<<32)))
	empty := it.litTerm("")
	it.p.assertAxiom(Eq(Eq(l, BVu(64, 0)), Eq(t, empty)))
}

func (it *Interp) strEq(a, b *StrV) *Term {
	if a.Boxed != nil && b.Boxed != nil {
		if typeKey(a.BoxT) != typeKey(b.BoxT) || a.BoxK != b.BoxK {
			return TFalse
		}
		return it.deepEqual(a.Boxed, b.Boxed)
	}
	if a.IsB && b.IsB && a.T == nil && b.T == nil && a.Boxed == nil && b.Boxed == nil {
		if len(a.Bytes) != len(b.Bytes) {
			return TFalse
		}
		out := TTrue
		for i := range a.Bytes {
			out = And(out, Eq(a.Bytes[i], b.Bytes[i]))
		}
		return out
	}
	// leading bytes fixed by construction (format literals, literal operands, structured bytes) that differ: unequal
	if pa, ca, ok := it.leading(a); ok {
		if pb, cb, ok := it.leading(b); ok {
			n := len(pa)
			if len(pb) < n {
				n = len(pb)
			}
			for i := 0; i < n; i++ {
				if pa[i] >= 0 && pb[i] >= 0 && pa[i] != pb[i] {
					return TFalse
				}
			}
			if (ca && len(pb) > len(pa)) || (cb && len(pa) > len(pb)) {
				return TFalse // one is completely known and shorter than the other's known part
			}
		}
	}
	ta, tb := it.toA(a), it.toA(b)
	// make sure both have length axioms so that lit-vs-symbolic length reasoning works
	it.strLenTerm(ta)
	it.strLenTerm(tb)
	return Eq(ta, tb)
}

func (it *Interp) strLenTerm(t *Term) *Term {
	l := App("len", bvSort(64), t)
	it.lenAxioms(t, l)
	return l
}

func (it *Interp) strConcat(a, b *StrV) *StrV {
	if a.IsB && b.IsB && a.T == nil && b.T == nil && a.Boxed == nil && b.Boxed == nil {
		bs := make([]*Term, 0, len(a.Bytes)+len(b.Bytes))
		bs = append(bs, a.Bytes...)
		bs = append(bs, b.Bytes...)
		return &StrV{Bytes: bs, IsB: true}
	}
	if b.IsB && len(b.Bytes) == 0 && b.T == nil && b.Boxed == nil {
		n := *a
		n.Nil = false
		return &n
	}
	if a.IsB && len(a.Bytes) == 0 && a.T == nil && a.Boxed == nil {
		n := *b
		n.Nil = false
		return &n
	}
	return it.strConcatA(a, b)
}

// strConcatA always builds the opaque concatenation term.
func (it *Interp) strConcatA(a, b *StrV) *StrV {
	ta, tb := it.toA(a), it.toA(b)
	t := App("concat", SStr, ta, tb)
	if !it.p.lenAx[t.id] {
		l := App("len", bvSort(64), t)
		it.lenAxioms(t, l)
		it.p.assertAxiom(Eq(l, BVBin("bvadd", it.strLenTerm(ta), it.strLenTerm(tb))))
		// concat(a,b)=concat(c,d) and len(a)=len(c) implies a=c and b=d (sound)
		for _, o := range it.p.inj["concat"] {
			sameLen := Eq(it.strLenTerm(o.args[0]), it.strLenTerm(ta))
			it.p.assertAxiom(Implies(And(Eq(o, t), sameLen), And(Eq(o.args[0], ta), Eq(o.args[1], tb))))
		}
		it.p.inj["concat"] = append(it.p.inj["concat"], t)
	}
	return &StrV{T: t}
}

func (it *Interp) strCompare(op token.Token, a, b *StrV) *Term {
	sa, oka := a.concreteString()
	sb, okb := b.concreteString()
	if oka && okb {
		switch op {
		case token.LSS:
			return Bool(sa < sb)
		case token.LEQ:
			return Bool(sa <= sb)
		case token.GTR:
			return Bool(sa > sb)
		case token.GEQ:
			return Bool(sa >= sb)
		}
	}
	if a.IsB && b.IsB && a.T == nil && b.T == nil {
		lt, eq := it.bytesLess(a.Bytes, b.Bytes)
		switch op {
		case token.LSS:
			return lt
		case token.LEQ:
			return Or(lt, eq)
		case token.GTR:
			return And(Not(lt), Not(eq))
		case token.GEQ:
			return Not(lt)
		}
	}
	lt := it.strLessOpaque(a, b)
	switch op {
	case token.LSS:
		return lt
	case token.LEQ:
		return Not(it.strLessOpaque(b, a))
	case token.GTR:
		return it.strLessOpaque(b, a)
	case token.GEQ:
		return Not(lt)
	}
	it.fail("ordered comparison of opaque strings unsupported")
	return nil
}

// strLessOpaque: the lexicographic order on opaque strings, abstracted to an uninterpreted strict total order (irreflexive,
// asymmetric, total on distinct strings, transitive - the axioms are instantiated for the terms compared on this path;
// two structured operands are compared exactly elsewhere). An over-approximation: nothing relates the order to the bytes.
func (it *Interp) strLessOpaque(a, b *StrV) *Term {
	ta, tb := it.toA(a), it.toA(b)
	it.strLenTerm(ta)
	it.strLenTerm(tb)
	lt := func(x, y *Term) *Term { return App("strlt", SBool, x, y) }
	for _, t := range []*Term{ta, tb} {
		known := false
		for _, o := range it.p.ordTerms {
			if o == t {
				known = true
			}
		}
		if known {
			continue
		}
		if len(it.p.ordTerms) >= 8 {
			it.fail("ordered comparison of more than 8 opaque strings on one path")
		}
		it.p.assertAxiom(Not(lt(t, t)))
		for _, o := range it.p.ordTerms {
			it.p.assertAxiom(Not(And(lt(t, o), lt(o, t))))
			it.p.assertAxiom(Eq(Eq(t, o), And(Not(lt(t, o)), Not(lt(o, t)))))
			for _, q := range it.p.ordTerms {
				if q == o {
					continue
				}
				for _, tr := range [][3]*Term{{t, o, q}, {o, t, q}, {o, q, t}} {
					it.p.assertAxiom(Implies(And(lt(tr[0], tr[1]), lt(tr[1], tr[2])), lt(tr[0], tr[2])))
				}
			}
		}
		it.p.ordTerms = append(it.p.ordTerms, t)
	}
	return lt(ta, tb)
}

// bytesLess returns (a<b, a==b) lexicographically for structured byte strings.
func (it *Interp) bytesLess(a, b []*Term) (*Term, *Term) {
	n := len(a)
	if len(b) < n {
		n = len(b)
	}
	// from the end: lt_i = a[i]<b[i] or (a[i]==b[i] and lt_{i+1})
	lt := Bool(len(a) < len(b))
	eq := Bool(len(a) == len(b))
	for i := n - 1; i >= 0; i-- {
		e := Eq(a[i], b[i])
		lt = Or(BVCmp("bvult", a[i], b[i]), And(e, lt))
		eq = And(e, eq)
	}
	return lt, eq
}

func (it *Interp) strSlice(s *StrV, lo, hi Val) *StrV {
	if s.IsB && s.T == nil && s.Boxed == nil {
		l, h := 0, len(s.Bytes)
		if lo != nil {
			l = it.sliceBound(lo.(*Term), len(s.Bytes))
		}
		if hi != nil {
			h = it.sliceBound(hi.(*Term), len(s.Bytes))
		}
		if l > h {
			it.tpanic(fmt.Sprintf("slice bounds out of range [%d:%d]", l, h))
		}
		return &StrV{Bytes: s.Bytes[l:h:h], IsB: true}
	}
	t := it.toA(s)
	ln := it.strLenTerm(t)
	var l, h *Term = BVu(64, 0), ln
	if lo != nil {
		l = lo.(*Term)
	}
	if hi != nil {
		h = hi.(*Term)
	}
	okc := And(BVCmp("bvule", l, h), BVCmp("bvule", h, ln))
	if !it.p.branch(okc) {
		it.tpanic("slice bounds out of range (opaque bytes)")
	}
	if l.IsConst() && l.val.Sign() == 0 && h == ln {
		return s
	}
	r := App("substr", SStr, t, l, h)
	if !it.p.lenAx[r.id] {
		rl := App("len", bvSort(64), r)
		it.lenAxioms(r, rl)
		it.p.assertAxiom(Eq(rl, BVBin("bvsub", h, l)))
	}
	return &StrV{T: r}
}

func (it *Interp) sliceBound(t *Term, n int) int {
	if t.IsConst() {
		v := signed(t.w, t.val)
		if v.Sign() < 0 || v.Cmp(newInt(int64(n))) > 0 {
			it.tpanic(fmt.Sprintf("slice bounds out of range [%s] with length %d", v, n))
		}
		return int(v.Int64())
	}
	if !it.p.branch(BVCmp("bvule", t, BVu(t.w, uint64(n)))) {
		it.tpanic(fmt.Sprintf("slice bounds out of range [symbolic] with length %d", n))
	}
	for k := 0; k < n; k++ {
		if it.p.branch(Eq(t, BVu(t.w, uint64(k)))) {
			return k
		}
	}
	return n
}

func (it *Interp) strIndex(s *StrV, i *Term) Val {
	if s.IsB && s.T == nil && s.Boxed == nil {
		k := it.boundedIndex(i, len(s.Bytes))
		return s.Bytes[k]
	}
	t := it.toA(s)
	ln := it.strLenTerm(t)
	if !it.p.branch(BVCmp("bvult", i, ln)) {
		it.tpanic("index out of range (opaque bytes)")
	}
	return App("byteat", bvSort(8), t, i)
}

// flatten collects the leaf terms of a value; false if a leaf cannot be expressed as a term.
func (it *Interp) flatten(v Val, out *[]*Term) bool {
	switch v := v.(type) {
	case *Term:
		*out = append(*out, v)
	case *StrV:
		*out = append(*out, it.toA(v))
	case IntV:
		*out = append(*out, v.T)
	case TimeV:
		*out = append(*out, v.NS)
	case *StructV:
		for _, f := range v.F {
			if !it.flatten(f, out) {
				return false
			}
		}
	case *ArrayV:
		for _, f := range v.E {
			if !it.flatten(f, out) {
				return false
			}
		}
	case *SliceV:
		*out = append(*out, BVu(64, uint64(v.Len)))
		for i := 0; i < v.Len; i++ {
			if !it.flatten((*v.Arr)[v.Off+i], out) {
				return false
			}
		}
	case Ptr:
		if v == nil {
			*out = append(*out, TFalse)
			return true
		}
		*out = append(*out, TTrue)
		return it.flatten(*v, out)
	case IfaceV:
		if v.IsNil() {
			*out = append(*out, TFalse)
			return true
		}
		if v.T == nil {
			return false
		}
		*out = append(*out, it.litTerm("type:"+v.T.String()))
		return it.flatten(v.V, out)
	case nil:
	default:
		return false
	}
	return true
}

// deepEqual: structural equality of two values of the same static type (for boxed encodings).
func (it *Interp) deepEqual(a, b Val) *Term {
	switch av := a.(type) {
	case *Term:
		return Eq(av, b.(*Term))
	case *StrV:
		return it.strEq(av, b.(*StrV))
	case IntV:
		return Eq(av.T, b.(IntV).T)
	case TimeV:
		return Eq(av.NS, b.(TimeV).NS)
	case *StructV:
		bv := b.(*StructV)
		out := TTrue
		for i := range av.F {
			out = And(out, it.deepEqual(av.F[i], bv.F[i]))
		}
		return out
	case *ArrayV:
		bv := b.(*ArrayV)
		out := TTrue
		for i := range av.E {
			out = And(out, it.deepEqual(av.E[i], bv.E[i]))
		}
		return out
	case *SliceV:
		bv := b.(*SliceV)
		if av.Len != bv.Len {
			return TFalse
		}
		out := TTrue
		for i := 0; i < av.Len; i++ {
			out = And(out, it.deepEqual((*av.Arr)[av.Off+i], (*bv.Arr)[bv.Off+i]))
		}
		return out
	case Ptr:
		bv := b.(Ptr)
		if av == nil || bv == nil {
			return Bool(av == nil && bv == nil)
		}
		return it.deepEqual(*av, *bv)
	case IfaceV:
		bv := b.(IfaceV)
		if av.IsNil() || bv.IsNil() {
			return Bool(av.IsNil() && bv.IsNil())
		}
		if av.T == nil || bv.T == nil {
			return Bool(av.V == bv.V)
		}
		if av.T.String() != bv.T.String() {
			return TFalse
		}
		return it.deepEqual(av.V, bv.V)
	case *Native:
		return Bool(a == b)
	case nil:
		return Bool(b == nil)
	case *MapV:
		bv := b.(*MapV)
		if av == nil || bv == nil || len(av.E) == 0 || len(bv.E) == 0 {
			return Bool((av == nil || len(av.E) == 0) && (bv == nil || len(bv.E) == 0))
		}
	}
	it.fail("deepEqual on %T", a)
	return nil
}

// leading returns the known leading bytes of a string value (-1 for a symbolic byte), whether the whole string is
// covered, and whether anything is known at all.
func (it *Interp) leading(s *StrV) ([]int, bool, bool) {
	if s.Boxed != nil {
		return nil, false, false
	}
	if isPlainB(s) {
		out := make([]int, len(s.Bytes))
		for i, b := range s.Bytes {
			out[i] = -1
			if b.IsConst() {
				out[i] = int(b.val.Int64())
			}
		}
		return out, true, true
	}
	if s.T == nil {
		return nil, false, false
	}
	kp, complete := it.knownPrefix(s.T)
	if len(kp) == 0 && !complete {
		return nil, false, false
	}
	out := make([]int, len(kp))
	for i := 0; i < len(kp); i++ {
		out[i] = int(kp[i])
	}
	return out, complete, true
}
