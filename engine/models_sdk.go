package main

import (
	"fmt"
	"go/types"

	"golang.org/x/tools/go/ssa"
	"math/big"
	"os"
	"regexp"
	"strings"
	"sync"
)

type modelFn func(it *Interp, args []Val) Val

var models = map[string]modelFn{}

// functions of dependencies that are simple enough to be executed from their SSA bodies
var execThrough = map[string]bool{}
var execThroughPkgs = []string{}

const sdkT = "github.com/cosmos/cosmos-sdk/types"
const sdkErr = "github.com/cosmos/cosmos-sdk/types/errors"

type ErrData struct {
	cause      IfaceV // wrapped error (nil for roots)
	registered bool
	codespace  string
	code       uint64
	desc       string
	msg        *StrV
}

func (it *Interp) newErr(cause IfaceV, desc string) IfaceV {
	return IfaceV{V: &Native{Kind: "error", Data: &ErrData{cause: cause, desc: desc}, Tag: desc}}
}

func errOf(v Val) *ErrData {
	switch x := v.(type) {
	case IfaceV:
		return errOf(x.V)
	case *Native:
		if x != nil && x.Kind == "error" {
			return x.Data.(*ErrData)
		}
	}
	return nil
}

// asErrIface makes an error interface value out of a registered *Error native or an interface.
func asErrIface(v Val) IfaceV {
	switch x := v.(type) {
	case IfaceV:
		return x
	case *Native:
		return IfaceV{V: x}
	}
	return IfaceV{}
}

func nativeImplements(n *Native, t types.Type) bool {
	switch n.Kind {
	case "error":
		return t.String() == "error"
	}
	return false
}

func (it *Interp) errIs(err Val, target Val) bool {
	te := errOf(target)
	for e := asErrIface(err); !e.IsNil(); {
		d := errOf(e)
		if d == nil {
			return false
		}
		if te != nil && d == te {
			return true
		}
		e = d.cause
	}
	return false
}

func init() {
	// ---- sdk.Context ----
	ctxm := func(name string, f modelFn) { models["("+sdkT+".Context)."+name] = f }
	ctxm("KVStore", func(it *Interp, a []Val) Val {
		d := it.ctxOf(a[0])
		key := storeKeyName(it, a[1])
		return IfaceV{V: &Native{Kind: "store", Data: &StoreView{base: it.storeFor(d, key)}, Tag: key}}
	})
	ctxm("TransientStore", models["("+sdkT+".Context).KVStore"])
	ctxm("CacheContext", func(it *Interp, a []Val) Val {
		c, w := it.cacheCtx(it.ctxOf(a[0]))
		return Tuple{c, w}
	})
	ctxm("BlockTime", func(it *Interp, a []Val) Val { return it.ctxOf(a[0]).time })
	ctxm("BlockHeight", func(it *Interp, a []Val) Val { return it.ctxOf(a[0]).height })
	ctxm("ChainID", func(it *Interp, a []Val) Val { return it.ctxOf(a[0]).chainID })
	ctxm("EventManager", func(it *Interp, a []Val) Val { return Ptr(newVal(it.ctxOf(a[0]).events)) })
	ctxm("Logger", func(it *Interp, a []Val) Val { return IfaceV{V: &Native{Kind: "logger"}} })
	ctxm("Context", func(it *Interp, a []Val) Val { return IfaceV{V: a[0]} })
	ctxm("IsCheckTx", func(it *Interp, a []Val) Val { return TFalse })
	ctxm("IsReCheckTx", func(it *Interp, a []Val) Val { return TFalse })
	ctxm("GasMeter", func(it *Interp, a []Val) Val { return IfaceV{V: &Native{Kind: "gasmeter"}} })
	ctxm("BlockGasMeter", func(it *Interp, a []Val) Val { return IfaceV{V: &Native{Kind: "gasmeter"}} })
	withCopy := func(f func(it *Interp, d *CtxData, a []Val)) modelFn {
		return func(it *Interp, a []Val) Val {
			d := *it.ctxOf(a[0])
			n := &d
			f(it, n, a)
			// stores are shared with the original (same scope)
			return &Native{Kind: "ctx", Data: n}
		}
	}
	ctxm("WithBlockTime", withCopy(func(it *Interp, d *CtxData, a []Val) { d.time = a[1].(TimeV) }))
	ctxm("WithBlockHeight", withCopy(func(it *Interp, d *CtxData, a []Val) { d.height = a[1].(*Term) }))
	ctxm("WithEventManager", withCopy(func(it *Interp, d *CtxData, a []Val) {
		if p, ok := a[1].(Ptr); ok && p != nil {
			if n, ok := (*p).(*Native); ok {
				d.events = n
			}
		}
	}))
	ctxm("WithGasMeter", withCopy(func(it *Interp, d *CtxData, a []Val) {}))
	ctxm("WithBlockGasMeter", withCopy(func(it *Interp, d *CtxData, a []Val) {}))
	ctxm("WithValue", withCopy(func(it *Interp, d *CtxData, a []Val) {}))
	ctxm("WithContext", withCopy(func(it *Interp, d *CtxData, a []Val) {}))
	ctxm("WithIsCheckTx", withCopy(func(it *Interp, d *CtxData, a []Val) {}))
	ctxm("WithChainID", withCopy(func(it *Interp, d *CtxData, a []Val) { d.chainID = a[1].(*StrV) }))
	models[sdkT+".UnwrapSDKContext"] = func(it *Interp, a []Val) Val {
		iv := a[0].(IfaceV)
		if n, ok := iv.V.(*Native); ok && n.Kind == "ctx" {
			return n
		}
		it.fail("UnwrapSDKContext of %s", it.describe(a[0]))
		return nil
	}
	models[sdkT+".WrapSDKContext"] = func(it *Interp, a []Val) Val { return IfaceV{V: a[0]} }
	models[sdkT+".NewEventManager"] = func(it *Interp, a []Val) Val {
		return Ptr(newVal(&Native{Kind: "eventmanager", Data: &[]Val{}}))
	}
	evm := func(name string, f modelFn) { models["(*"+sdkT+".EventManager)."+name] = f }
	evRecord := func(it *Interp, a []Val) Val {
		p := a[0].(Ptr)
		if p == nil {
			it.tpanic("nil EventManager")
		}
		n := (*p).(*Native)
		l := n.Data.(*[]Val)
		*l = append(*l, a[1:]...)
		return nil
	}
	evm("EmitEvent", evRecord)
	evm("EmitEvents", evRecord)
	evm("EmitTypedEvent", func(it *Interp, a []Val) Val { evRecord(it, a); return IfaceV{} })
	evm("EmitTypedEvents", func(it *Interp, a []Val) Val { evRecord(it, a); return IfaceV{} })
	evm("Events", func(it *Interp, a []Val) Val { return &SliceV{} })
	evm("ABCIEvents", func(it *Interp, a []Val) Val { return &SliceV{} })
	models[sdkT+".NewEvent"] = func(it *Interp, a []Val) Val { return &Native{Kind: "event"} }
	models[sdkT+".NewAttribute"] = func(it *Interp, a []Val) Val { return &Native{Kind: "attribute"} }
	models[sdkT+".NewKVStoreKey"] = func(it *Interp, a []Val) Val {
		s, _ := a[0].(*StrV).concreteString()
		return Ptr(newVal(&Native{Kind: "storekey", Tag: s}))
	}
	models[sdkT+".NewTransientStoreKey"] = models[sdkT+".NewKVStoreKey"]
	models[sdkT+".KVStorePrefixIterator"] = func(it *Interp, a []Val) Val {
		return it.storeIterator(storeViewOf(it, a[0]), a[1].(*StrV), false)
	}
	models[sdkT+".KVStoreReversePrefixIterator"] = func(it *Interp, a []Val) Val {
		return it.storeIterator(storeViewOf(it, a[0]), a[1].(*StrV), true)
	}
	models["github.com/cosmos/cosmos-sdk/store/prefix.NewStore"] = func(it *Interp, a []Val) Val {
		v := storeViewOf(it, a[0])
		pre := a[1].(*StrV)
		if v.prefix != nil {
			pre = it.strConcat(v.prefix, pre)
		}
		nv := &StoreView{base: v.base, prefix: pre}
		return &Native{Kind: "store", Data: nv, Tag: v.base.name}
	}
	// prefix.Store is a struct value type with methods; as static callee they arrive here
	for _, m := range []string{"Get", "Set", "Has", "Delete", "Iterator", "ReverseIterator"} {
		m := m
		models["(github.com/cosmos/cosmos-sdk/store/prefix.Store)."+m] = func(it *Interp, a []Val) Val {
			return it.callNative(a[0].(*Native), m, a[1:])
		}
	}
	models[sdkT+".Uint64ToBigEndian"] = func(it *Interp, a []Val) Val { return it.u64ToBE(a[0].(*Term)) }
	models[sdkT+".BigEndianToUint64"] = func(it *Interp, a []Val) Val {
		s := a[0].(*StrV)
		if s.IsB && s.T == nil && s.Boxed == nil && len(s.Bytes) == 0 {
			return BVu(64, 0)
		}
		return it.beToU64(s)
	}

	// ---- errors ----
	models[sdkErr+".Register"] = func(it *Interp, a []Val) Val {
		cs, _ := a[0].(*StrV).concreteString()
		desc, _ := a[2].(*StrV).concreteString()
		code := a[1].(*Term)
		d := &ErrData{registered: true, codespace: cs, desc: desc}
		if code.IsConst() {
			d.code = code.val.Uint64()
		}
		return &Native{Kind: "error", Data: d, Tag: cs + ":" + desc}
	}
	wrap := func(it *Interp, a []Val) Val {
		e := asErrIface(a[0])
		if e.IsNil() {
			return IfaceV{}
		}
		return it.newErr(e, "wrapped")
	}
	models[sdkErr+".Wrap"] = wrap
	models[sdkErr+".Wrapf"] = wrap
	models["(*"+sdkErr+".Error).Wrap"] = wrap
	models["(*"+sdkErr+".Error).Wrapf"] = wrap
	models["(*"+sdkErr+".Error).Error"] = func(it *Interp, a []Val) Val { return it.errString(a[0]) }
	models["(*"+sdkErr+".Error).Is"] = func(it *Interp, a []Val) Val { return Bool(it.errIs(a[0], a[1])) }
	models["(*"+sdkErr+".Error).ABCICode"] = func(it *Interp, a []Val) Val { return BVu(32, errOf(a[0]).code) }
	models["(*"+sdkErr+".Error).Codespace"] = func(it *Interp, a []Val) Val { return strLit(errOf(a[0]).codespace) }
	models[sdkErr+".IsOf"] = func(it *Interp, a []Val) Val {
		sl := a[1].(*SliceV)
		for i := 0; i < sl.Len; i++ {
			if it.errIs(a[0], (*sl.Arr)[sl.Off+i]) {
				return TTrue
			}
		}
		return TFalse
	}
	models["errors.New"] = func(it *Interp, a []Val) Val {
		s, _ := a[0].(*StrV).concreteString()
		e := it.newErr(IfaceV{}, s)
		errOf(e).msg = a[0].(*StrV)
		return e
	}
	models["errors.Is"] = func(it *Interp, a []Val) Val { return Bool(it.errIs(a[0], a[1])) }
	models["errors.Unwrap"] = func(it *Interp, a []Val) Val {
		if d := errOf(a[0]); d != nil {
			return d.cause
		}
		return IfaceV{}
	}
	models["github.com/pkg/errors.New"] = models["errors.New"]
	models["github.com/pkg/errors.Wrap"] = wrap
	models["github.com/pkg/errors.Wrapf"] = wrap
	models["github.com/pkg/errors.Errorf"] = func(it *Interp, a []Val) Val { return it.newErr(IfaceV{}, "errorf") }
	models["fmt.Errorf"] = func(it *Interp, a []Val) Val {
		// %w keeps the cause
		var cause IfaceV
		if sl, ok := a[1].(*SliceV); ok {
			for i := 0; i < sl.Len; i++ {
				if iv, ok := (*sl.Arr)[sl.Off+i].(IfaceV); ok && errOf(iv) != nil {
					cause = iv
				}
			}
		}
		f, _ := a[0].(*StrV).concreteString()
		if !strings.Contains(f, "%w") {
			cause = IfaceV{}
		}
		return it.newErr(cause, "errorf:"+f)
	}

	// ---- logger / telemetry ----
	models["github.com/armon/go-metrics.IncrCounterWithLabels"] = func(it *Interp, a []Val) Val { return nil }
	models["github.com/cosmos/cosmos-sdk/telemetry.IncrCounter"] = func(it *Interp, a []Val) Val { return nil }
	models["github.com/cosmos/cosmos-sdk/telemetry.IncrCounterWithLabels"] = func(it *Interp, a []Val) Val { return nil }
	models["github.com/cosmos/cosmos-sdk/telemetry.SetGaugeWithLabels"] = func(it *Interp, a []Val) Val { return nil }
	models["github.com/cosmos/cosmos-sdk/telemetry.SetGauge"] = func(it *Interp, a []Val) Val { return nil }
	models["github.com/cosmos/cosmos-sdk/telemetry.ModuleMeasureSince"] = func(it *Interp, a []Val) Val { return nil }
	models["github.com/cosmos/cosmos-sdk/telemetry.MeasureSince"] = func(it *Interp, a []Val) Val { return nil }
	models["github.com/cosmos/cosmos-sdk/telemetry.NewLabel"] = func(it *Interp, a []Val) Val { return &Native{Kind: "label"} }
}

func newVal(v Val) *Val { p := new(Val); *p = v; return p }

func storeKeyName(it *Interp, v Val) string {
	if iv, ok := v.(IfaceV); ok {
		v = iv.V
	}
	if p, ok := v.(Ptr); ok && p != nil {
		v = *p
	}
	if n, ok := v.(*Native); ok && n.Kind == "storekey" {
		return n.Tag
	}
	it.fail("not a store key: %s", it.describe(v))
	return ""
}

func storeViewOf(it *Interp, v Val) *StoreView {
	if iv, ok := v.(IfaceV); ok {
		v = iv.V
	}
	if n, ok := v.(*Native); ok && n.Kind == "store" {
		return n.Data.(*StoreView)
	}
	it.fail("not a store: %s", it.describe(v))
	return nil
}

func (it *Interp) errString(v Val) *StrV {
	d := errOf(v)
	if d == nil {
		it.fail("Error() on %s", it.describe(v))
	}
	if d.msg != nil {
		return d.msg
	}
	if d.registered {
		return strLit(d.desc)
	}
	// message contents are not modelled: an opaque string per error object
	d.msg = &StrV{T: Var(it.p.freshName("errmsg"), SStr)}
	return d.msg
}

// callNative dispatches a method call on an engine-side object.
func (it *Interp) callNative(n *Native, name string, a []Val) Val {
	switch n.Kind {
	case "store":
		v := n.Data.(*StoreView)
		switch name {
		case "Get":
			r := it.storeGet(v, a[0].(*StrV))
			if r == nil {
				return &StrV{IsB: true, Nil: true}
			}
			return r
		case "Has":
			return Bool(it.storeGet(v, a[0].(*StrV)) != nil)
		case "Set":
			it.storeSet(v, a[0].(*StrV), a[1].(*StrV))
			return nil
		case "Delete":
			it.storeDelete(v, a[0].(*StrV))
			return nil
		case "Iterator", "ReverseIterator":
			return it.storeRangeIterator(v, a[0].(*StrV), a[1].(*StrV), name == "ReverseIterator")
		}
	case "iterator":
		return it.iterMethod(n, name, a)
	case "logger":
		switch name {
		case "With":
			return IfaceV{V: n}
		default:
			return nil
		}
	case "error":
		switch name {
		case "Error":
			return it.errString(n)
		}
	case "hasher":
		return it.hasherMethod(n, name, a)
	case "gasmeter":
		switch name {
		case "ConsumeGas", "RefundGas":
			return nil
		case "GasConsumed", "GasConsumedToLimit", "Limit":
			return BVu(64, 0)
		case "IsOutOfGas", "IsPastLimit":
			return TFalse
		}
	case "codec":
		return it.codecMethod(n, name, a)
	case "ctx":
		// context.Context methods on a wrapped sdk.Context
		switch name {
		case "Value":
			return IfaceV{V: n}
		}
	case "panicval":
		if name == "Error" {
			return &StrV{T: Var(it.p.freshName("panicmsg"), SStr)}
		}
	}
	it.fail("cannot encode method %s on native %s", name, n.Kind)
	return nil
}

func (it *Interp) u64ToBE(x *Term) *StrV {
	bs := make([]*Term, 8)
	for i := 0; i < 8; i++ {
		bs[i] = Extract(63-8*i, 56-8*i, x)
	}
	return &StrV{Bytes: bs, IsB: true}
}

func (it *Interp) beToU64(s *StrV) *Term {
	if s.IsB && s.T == nil && s.Boxed == nil {
		if len(s.Bytes) < 8 {
			it.tpanic("BigEndianToUint64: short slice")
		}
		r := s.Bytes[0]
		for i := 1; i < 8; i++ {
			r = Concat(r, s.Bytes[i])
		}
		return r
	}
	t := it.toA(s)
	// opaque: bytes!8(b0..b7) inverse is not available; use an uninterpreted decoder
	if t.op == "app" && t.name == "bytes!8" {
		r := t.args[0]
		for i := 1; i < 8; i++ {
			r = Concat(r, t.args[i])
		}
		return r
	}
	ln := it.strLenTerm(t)
	if s.FromStore {
		it.p.assume(Eq(ln, BVu(64, 8))) // invariant I2
	}
	if !it.p.branch(BVCmp("bvuge", ln, BVu(64, 8))) {
		it.tpanic("BigEndianToUint64: short slice (opaque)")
	}
	return App("be64", bvSort(64), t)
}

func (it *Interp) storeIterator(v *StoreView, prefix *StrV, reverse bool) Val {
	return it.storePrefixIterator(v, prefix, reverse)
}

var _ = fmt.Sprint

const anyT = "github.com/cosmos/cosmos-sdk/codec/types"

func (it *Interp) newAny(v IfaceV) Val {
	var at types.Type
	for _, p := range it.prog.AllPackages() {
		if p.Pkg.Path() == anyT {
			at = p.Pkg.Scope().Lookup("Any").Type()
		}
	}
	if at == nil {
		it.fail("codec/types.Any not loaded")
	}
	s := it.zero(at).(*StructV)
	st := at.Underlying().(*types.Struct)
	for i := 0; i < st.NumFields(); i++ {
		switch st.Field(i).Name() {
		case "TypeUrl":
			s.F[i] = strLit("/" + strings.TrimPrefix(v.T.String(), "*"))
		case "Value":
			s.F[i] = &StrV{Boxed: copyDeep(v), BoxT: nil}
		case "cachedValue":
			s.F[i] = v
		}
	}
	return Ptr(newVal(s))
}

func init() {
	models[anyT+".NewAnyWithValue"] = func(it *Interp, a []Val) Val {
		v := a[0].(IfaceV)
		if v.IsNil() {
			return Tuple{Ptr(nil), it.newErr(IfaceV{}, "Expecting non nil value to create a new Any")}
		}
		return Tuple{it.newAny(v), IfaceV{}}
	}
	execThroughPrefixes = append(execThroughPrefixes, "(*"+anyT+".Any).Get")
	execThrough["github.com/cosmos/cosmos-sdk/x/gov/types.ValidateAbstract"] = true
}

// ---- x/params Subspace: parameters are arbitrary (but fixed within a path) values of their types ----

type SubspaceData struct {
	vals map[string]Val
}

const paramsT = "github.com/cosmos/cosmos-sdk/x/params/types"

func subspaceOf(it *Interp, v Val) *SubspaceData {
	if p, ok := v.(Ptr); ok && p != nil {
		v = *p
	}
	if n, ok := v.(*Native); ok && n.Kind == "subspace" {
		return n.Data.(*SubspaceData)
	}
	if s, ok := v.(*StructV); ok && namedString(s.T) == paramsT+".Subspace" {
		// zero Subspace built by the target (paramtypes.Subspace{}): shared anonymous data
		return &SubspaceData{vals: map[string]Val{}}
	}
	it.fail("not a params subspace: %s", it.describe(v))
	return nil
}

func init() {
	sp := func(name string, f modelFn) {
		models["("+paramsT+".Subspace)."+name] = f
		models["(*"+paramsT+".Subspace)."+name] = f
	}
	sp("HasKeyTable", func(it *Interp, a []Val) Val { return TTrue })
	sp("WithKeyTable", func(it *Interp, a []Val) Val { return a[0] })
	sp("GetParamSet", func(it *Interp, a []Val) Val {
		d := subspaceOf(it, a[0])
		iv := a[2].(IfaceV)
		p := iv.V.(Ptr)
		elem := iv.T.Underlying().(*types.Pointer).Elem()
		key := typeKey(elem)
		if v, ok := d.vals[key]; ok {
			*p = copyDeep(v)
			return nil
		}
		v := it.freshValue(elem, "", it.sourceMaker("params."+key), freshOpts{maxLen: it.ex.cfg.ParamMaxLen})
		d.vals[key] = v
		*p = copyDeep(v)
		return nil
	})
	sp("SetParamSet", func(it *Interp, a []Val) Val {
		d := subspaceOf(it, a[0])
		iv := a[2].(IfaceV)
		p := iv.V.(Ptr)
		elem := iv.T.Underlying().(*types.Pointer).Elem()
		// as the SDK's SetParamSet: every pair's registered validator is run on the value being stored, and a value it
		// rejects is a panic ("value from ParamSetPair is invalid")
		if m := it.prog.LookupMethod(iv.T, nil, "ParamSetPairs"); m != nil && isTeleportPkg(m.Pkg) {
			if pairs, ok := it.call(m, []Val{iv.V}, nil).(*SliceV); ok && pairs.Arr != nil {
				for i := 0; i < pairs.Len; i++ {
					pair, ok := (*pairs.Arr)[pairs.Off+i].(*StructV)
					if !ok || len(pair.F) != 3 {
						it.fail("SetParamSet: unexpected ParamSetPair %s", it.describe((*pairs.Arr)[pairs.Off+i]))
					}
					pv, ok := pair.F[1].(IfaceV)
					if !ok || pv.IsNil() {
						it.fail("SetParamSet: pair without a value")
					}
					vp, ok := pv.V.(Ptr)
					pt, ok2 := pv.T.Underlying().(*types.Pointer)
					if !ok || !ok2 || vp == nil {
						it.fail("SetParamSet: pair value is not a pointer")
					}
					res := it.call(pair.F[2], []Val{IfaceV{T: pt.Elem(), V: copyDeep(*vp)}}, nil)
					if e, ok := res.(IfaceV); !ok || !e.IsNil() {
						it.tpanic("value from ParamSetPair is invalid (SetParamSet)")
					}
				}
			}
		}
		d.vals[typeKey(elem)] = copyDeep(*p)
		return nil
	})
	for _, m := range []string{"Marshal", "MustMarshal", "Unmarshal", "MustUnmarshal", "MarshalJSON", "MustMarshalJSON", "UnmarshalJSON", "MustUnmarshalJSON", "MarshalInterface", "UnmarshalInterface", "MarshalLengthPrefixed", "UnmarshalLengthPrefixed"} {
		m := m
		models["(*github.com/cosmos/cosmos-sdk/codec.ProtoCodec)."+m] = func(it *Interp, a []Val) Val { return it.codecMethod(nil, m, a[1:]) }
	}
	execThroughPrefixes = append(execThroughPrefixes, "(github.com/cosmos/ibc-go/v3/modules/core/04-channel/types.Packet).Get")
	execThrough["github.com/cosmos/ibc-go/v3/modules/core/04-channel/types.NewErrorAcknowledgement"] = true
	execThrough["github.com/cosmos/ibc-go/v3/modules/core/04-channel/types.NewResultAcknowledgement"] = true
	execThrough["(github.com/cosmos/ibc-go/v3/modules/core/04-channel/types.Acknowledgement).Success"] = true
	// gogo-proto enum names (used for labels and String methods): an uninterpreted text of the number
	models["github.com/gogo/protobuf/proto.EnumName"] = func(it *Interp, a []Val) Val {
		var leaves []*Term
		if !it.flatten(a[1], &leaves) || len(leaves) != 1 {
			it.fail("proto.EnumName: unexpected argument")
		}
		t := App("protoenumname", SStr, leaves[0])
		it.strLenTerm(t)
		return &StrV{T: t}
	}
	// cosmos-sdk paginated store reads. A request without an explicit limit is served with the SDK's default page
	// (query.DefaultLimit = 100 entries). Stores of that size are beyond what this executor enumerates, so the default page
	// is a symbolic constant L >= 1 (the same for every call on a path): code that is right for every L - in particular code
	// that follows NextKey, or asks for an explicit limit - is unaffected, code that silently relies on "one default page is
	// everything" is shown wrong on a store of two entries with L = 1, which scales to 101 entries with L = 100.
	paginate := func(it *Interp, a []Val) Val {
		view := storeViewOf(it, a[0])
		var limit *Term
		offsetZero, keyEmpty := true, true
		if p, ok := a[1].(Ptr); ok && p != nil {
			sv, ok := (*p).(*StructV)
			if !ok {
				it.fail("query pagination: unexpected page request %s", it.describe(*p))
			}
			st := sv.T.Underlying().(*types.Struct)
			for i := 0; i < st.NumFields(); i++ {
				switch st.Field(i).Name() {
				case "Limit":
					limit = sv.F[i].(*Term)
				case "Offset":
					if o := sv.F[i].(*Term); !o.IsConst() || o.val.Sign() != 0 {
						offsetZero = false
					}
				case "Key":
					if k := sv.F[i].(*StrV); !(k.Nil || (k.IsB && len(k.Bytes) == 0 && k.T == nil)) {
						keyEmpty = false
					}
				}
			}
		}
		if !offsetZero || !keyEmpty {
			it.fail("query pagination with an offset or a start key is not modelled")
		}
		if limit != nil && !limit.IsConst() {
			it.fail("query pagination with a symbolic limit is not modelled")
		}
		if limit == nil || limit.val.Sign() == 0 {
			limit = Var("sdk.query.DefaultLimit", bvSort(64))
			it.p.assertAxiom(BVCmp("bvuge", limit, BVu(64, 1)))
		}
		iter := it.storePrefixIterator(view, strLit(""), false).(IfaceV).V.(*Native)
		d := iter.Data.(*iterData)
		hits := 0
		var next Val = &StrV{IsB: true, Nil: true}
		for i := range d.keys {
			acc := it.p.branch(BVCmp("bvult", BVu(64, uint64(hits)), limit))
			if !acc && len(a) == 3 {
				// filtered variant keeps walking (to count); the plain variant stops at the page end
			}
			if !acc {
				next = d.keys[i]
				if len(a) != 3 {
					break
				}
			}
			var r Val
			if len(a) == 3 && isFiltered(a[2]) {
				r = it.call(a[2], []Val{d.keys[i], d.vals[i], Bool(acc)}, nil)
				t := r.(Tuple)
				if e, ok := t[1].(IfaceV); ok && !e.IsNil() {
					return Tuple{Ptr(nil), t[1]}
				}
				if acc && it.p.branch(t[0].(*Term)) {
					hits++
				}
			} else {
				if !acc {
					break
				}
				r = it.call(a[2], []Val{d.keys[i], d.vals[i]}, nil)
				if e, ok := r.(IfaceV); ok && !e.IsNil() {
					return Tuple{Ptr(nil), r}
				}
				hits++
			}
		}
		resp := it.zero(pageResponseType(it))
		if rs, ok := resp.(*StructV); ok {
			st := rs.T.Underlying().(*types.Struct)
			for i := 0; i < st.NumFields(); i++ {
				if st.Field(i).Name() == "NextKey" {
					rs.F[i] = next
				}
			}
		}
		return Tuple{Ptr(newVal(resp)), IfaceV{}}
	}
	models["github.com/cosmos/cosmos-sdk/types/query.FilteredPaginate"] = paginate
	models["github.com/cosmos/cosmos-sdk/types/query.Paginate"] = paginate
	execThrough[sdkT+".NewIntFromString"] = true
}

func init() {
	const tt = "github.com/cosmos/ibc-go/v3/modules/apps/transfer/types"
	execThrough[tt+".GetDenomPrefix"] = true
	execThrough[tt+".ReceiverChainIsSource"] = true
	execThrough[tt+".SenderChainIsSource"] = true
	// ParseDenomTrace(raw) = {Path, BaseDenom}: without a "/" the path is empty and the base is raw; with one, raw is
	// Path + "/" + BaseDenom and the base has no "/" (ibc-go trace.go). Path and base are uninterpreted functions of raw.
	models[tt+".ParseDenomTrace"] = func(it *Interp, a []Val) Val {
		rawV := a[0].(*StrV)
		raw := it.toA(rawV)
		path, base := App("tracepath", SStr, raw), App("tracebase", SStr, raw)
		slash := &StrV{Bytes: []*Term{BVu(8, '/')}, IsB: true}
		pathV, baseV := &StrV{T: path}, &StrV{T: base}
		if !it.p.lenAx[path.id] {
			it.strLenTerm(path)
			it.strLenTerm(base)
			has := it.strContains(rawV, slash)
			if concatHasSlash(it, raw) {
				it.p.assertAxiom(has)
			}
			full := it.toA(it.strConcatA(it.strConcatA(pathV, slash), baseV))
			it.p.assertAxiom(Implies(Not(has), And(Eq(path, it.litTerm("")), Eq(base, raw))))
			it.p.assertAxiom(Implies(has, And(Eq(raw, full), Not(it.strContains(baseV, slash)))))
		}
		pkg := it.prog.ImportedPackage(tt)
		return &StructV{T: pkg.Type("DenomTrace").Type(), F: []Val{pathV, baseV}}
	}
	models["("+tt+".DenomTrace).IBCDenom"] = func(it *Interp, a []Val) Val {
		sv := a[0].(*StructV)
		pathV, baseV := sv.F[0].(*StrV), sv.F[1].(*StrV)
		if it.p.branch(it.strEq(pathV, &StrV{IsB: true})) {
			return baseV
		}
		slash := &StrV{Bytes: []*Term{BVu(8, '/')}, IsB: true}
		full := it.toA(it.strConcatA(it.strConcatA(pathV, slash), baseV))
		t := App("ibcdenom", SStr, full)
		it.strLenTerm(t)
		return &StrV{T: t}
	}
}

// concatHasSlash: the term is a concatenation one of whose literal parts contains "/".
func concatHasSlash(it *Interp, t *Term) bool {
	if t.op == "var" {
		if v, ok := it.p.litVal[t.name]; ok {
			return strings.Contains(v, "/")
		}
		return false
	}
	if t.op == "app" && t.name == "concat" {
		return concatHasSlash(it, t.args[0]) || concatHasSlash(it, t.args[1])
	}
	return false
}

// The denomination syntax is read from the cosmos-sdk version /repo builds against (types/coin.go: reDnmString);
// it differs between SDK releases.
var (
	sdkDenomOnce  sync.Once
	sdkDenomRegex string
)

func (it *Interp) denomRegex() string {
	sdkDenomOnce.Do(func() {
		pkg := it.prog.ImportedPackage(sdkT)
		if pkg == nil {
			return
		}
		g, ok := pkg.Members["reDnmString"]
		if !ok {
			return
		}
		src, err := os.ReadFile(it.prog.Fset.Position(g.Pos()).Filename)
		if err != nil {
			return
		}
		if m := regexp.MustCompile("reDnmString\\s*=\\s*`([^`]+)`").FindSubmatch(src); m != nil {
			sdkDenomRegex = "^" + string(m[1]) + "$"
		}
	})
	if sdkDenomRegex == "" {
		it.fail("cannot find the denomination syntax (reDnmString) in the cosmos-sdk source")
	}
	return sdkDenomRegex
}

func init() {
	models[sdkT+".ValidateDenom"] = func(it *Interp, a []Val) Val {
		if it.p.branch(it.regexMatch(it.denomRegex(), a[0].(*StrV))) {
			return IfaceV{}
		}
		return it.newErr(IfaceV{}, "invalid denom")
	}
}

func init() {
	execThrough[paramsT+".NewParamSetPair"] = true
}

func init() {
	models["time.Now"] = func(it *Interp, a []Val) Val {
		v := it.freshTime("env:time.Now")
		it.p.envReads = append(it.p.envReads, "time.Now")
		return TimeV{v}
	}
}

func init() {
	models["github.com/cosmos/cosmos-sdk/types/bech32.ConvertAndEncode"] = func(it *Interp, a []Val) Val {
		t := App("bech32hrp", SStr, it.toA(a[0].(*StrV)), it.toA(a[1].(*StrV)))
		it.p.noteInjective("bech32hrp", t)
		it.strLenTerm(t)
		return Tuple{&StrV{T: t}, IfaceV{}}
	}
	models[sdkT+".GetConfig"] = func(it *Interp, a []Val) Val { return Ptr(newVal(&Native{Kind: "sdkconfig"})) }
	models["(*"+sdkT+".Config).GetBech32AccountAddrPrefix"] = func(it *Interp, a []Val) Val { return strLit("teleport") }
	models["(*"+sdkT+".Config).GetBech32ValidatorAddrPrefix"] = func(it *Interp, a []Val) Val { return strLit("teleportvaloper") }
}

func init() {
	// sdk.Dec{i *big.Int} with 18 decimals
	models[sdkT+".NewDecWithPrec"] = func(it *Interp, a []Val) Val {
		i, prec := a[0].(*Term), a[1].(*Term)
		if !prec.IsConst() {
			it.fail("NewDecWithPrec with symbolic precision")
		}
		pr := prec.val.Int64()
		if pr < 0 || pr > 18 {
			it.tpanic("NewDecWithPrec: precision out of range")
		}
		mul := new(big.Int).Exp(big.NewInt(10), big.NewInt(18-pr), nil)
		var dt types.Type
		for _, p := range it.prog.AllPackages() {
			if p.Pkg.Path() == sdkT {
				dt = p.Pkg.Scope().Lookup("Dec").Type()
			}
		}
		s := it.zero(dt).(*StructV)
		s.F[0] = Ptr(newVal(IntV{IntBin("*", BVToIntSigned(i), IntC(mul))}))
		return s
	}
}

// environment touch points: their answers are arbitrary (they are what C14 quantifies over)
func init() {
	models["io/ioutil.TempDir"] = func(it *Interp, a []Val) Val {
		fails := Var(it.p.freshName("env.TempDir.fails"), SBool)
		it.p.sources = append(it.p.sources, Source{Kind: "bool", Tag: "env:ioutil.TempDir fails", Terms: []*Term{fails}})
		it.p.envReads = append(it.p.envReads, "ioutil.TempDir")
		if it.p.branch(fails) {
			return Tuple{strLit(""), it.newErr(IfaceV{}, "TempDir failed")}
		}
		dir := Var(it.p.freshName("env.TempDir"), SStr)
		it.p.sources = append(it.p.sources, Source{Kind: "str", Tag: "env:ioutil.TempDir", Terms: []*Term{dir}})
		return Tuple{&StrV{T: dir}, IfaceV{}}
	}
	models["os.MkdirTemp"] = models["io/ioutil.TempDir"]
	models["os.TempDir"] = func(it *Interp, a []Val) Val {
		dir := Var(it.p.freshName("env.os.TempDir"), SStr)
		it.p.sources = append(it.p.sources, Source{Kind: "str", Tag: "env:os.TempDir", Terms: []*Term{dir}})
		it.p.envReads = append(it.p.envReads, "os.TempDir")
		it.strLenTerm(dir)
		return &StrV{T: dir}
	}
	envFails := func(name string) modelFn {
		return func(it *Interp, a []Val) Val {
			fails := Var(it.p.freshName("env."+name+".fails"), SBool)
			it.p.sources = append(it.p.sources, Source{Kind: "bool", Tag: "env:" + name + " fails", Terms: []*Term{fails}})
			it.p.envReads = append(it.p.envReads, name)
			if it.p.branch(fails) {
				return it.newErr(IfaceV{}, name+" failed")
			}
			return IfaceV{}
		}
	}
	models["os.MkdirAll"] = envFails("os.MkdirAll")
	models["os.Mkdir"] = envFails("os.Mkdir")
	models["path/filepath.Join"] = func(it *Interp, a []Val) Val {
		sl := a[0].(*SliceV)
		out := strLit("")
		for i := 0; i < sl.Len; i++ {
			if i > 0 {
				out = it.strConcat(out, strLit("/"))
			}
			out = it.strConcat(out, (*sl.Arr)[sl.Off+i].(*StrV))
		}
		return out
	}
	models["os.RemoveAll"] = func(it *Interp, a []Val) Val { return IfaceV{} }
}

// isFiltered: the callback of query.FilteredPaginate takes (key, value, accumulate); the one of query.Paginate (key, value).
func isFiltered(fn Val) bool {
	var sig *types.Signature
	switch f := fn.(type) {
	case *ssa.Function:
		sig = f.Signature
	case *Closure:
		sig = f.Fn.Signature
	}
	return sig != nil && sig.Params().Len() == 3
}

func pageResponseType(it *Interp) types.Type {
	for _, p := range it.prog.AllPackages() {
		if p.Pkg.Path() == "github.com/cosmos/cosmos-sdk/types/query" {
			if t := p.Type("PageResponse"); t != nil {
				return t.Type()
			}
		}
	}
	it.fail("query.PageResponse type not found")
	return nil
}
