package main

import (
	"encoding/hex"
	"fmt"
	"go/types"
	"strings"
)

// go-ethereum trie / rlp / keccak / hex helpers as deterministic uninterpreted functions of exactly their arguments.

const ethCrypto = "github.com/ethereum/go-ethereum/crypto"

func (it *Interp) keccakOf(parts []Val) *Term {
	cat := strLit("")
	for _, p := range parts {
		cat = it.strConcat(cat, p.(*StrV))
	}
	t := App("keccak256", SStr, it.toA(cat))
	it.p.noteInjective("keccak256", t)
	if !it.p.lenAx[t.id] {
		it.p.lenAx[t.id] = true
		it.p.assertAxiom(Eq(App("len", bvSort(64), t), BVu(64, 32)))
	}
	return t
}

func init() {
	models[ethCrypto+".Keccak256"] = func(it *Interp, a []Val) Val { return &StrV{T: it.keccakOf(sliceArgs(a[0]))} }
	models[ethCrypto+".Keccak256Hash"] = func(it *Interp, a []Val) Val {
		return &StrV{T: it.keccakOf(sliceArgs(a[0])), IsArr: true}
	}
	models[ethCommon+".FromHex"] = func(it *Interp, a []Val) Val {
		s := a[0].(*StrV)
		if cs, ok := s.concreteString(); ok {
			cs = strings.TrimPrefix(strings.TrimPrefix(cs, "0x"), "0X")
			if len(cs)%2 == 1 {
				cs = "0" + cs
			}
			b, _ := hex.DecodeString(cs)
			return strLit(string(b))
		}
		t := App("fromhex", SStr, it.toA(s))
		it.strLenTerm(t)
		return &StrV{T: t}
	}
	models[ethCommon+".LeftPadBytes"] = func(it *Interp, a []Val) Val {
		s := a[0].(*StrV)
		n := it.concreteInt(a[1], "LeftPadBytes length")
		if isPlainB(s) {
			if len(s.Bytes) >= n {
				return s
			}
			bs := make([]*Term, n)
			for i := range bs {
				bs[i] = BVu(8, 0)
			}
			copy(bs[n-len(s.Bytes):], s.Bytes)
			return &StrV{Bytes: bs, IsB: true}
		}
		t := App(fmt.Sprintf("leftpad!%d", n), SStr, it.toA(s))
		it.strLenTerm(t)
		return &StrV{T: t}
	}
	models["("+ethCommon+".Hash).Big"] = func(it *Interp, a []Val) Val {
		s := a[0].(*StrV)
		if isPlainB(s) {
			acc := IntI(0)
			for _, b := range s.Bytes {
				acc = IntBin("+", IntBin("*", acc, IntI(256)), BVToNat(b))
			}
			return Ptr(newVal(IntV{acc}))
		}
		v := App("bytes2big", SInt, it.toA(s))
		it.p.assertAxiom(IntCmp(">=", v, IntI(0)))
		return Ptr(newVal(IntV{v}))
	}

	// light.NodeList / trie.VerifyProof
	const lightP = "github.com/ethereum/go-ethereum/light"
	nodesOf := func(it *Interp, v Val) *[]Val {
		p, ok := v.(Ptr)
		if !ok || p == nil {
			it.tpanic("nil *light.NodeList")
		}
		switch x := (*p).(type) {
		case *Native:
			return x.Data.(*[]Val)
		default:
			// new(light.NodeList) allocated by the target: replace the zero value by a node list
			l := &[]Val{}
			*p = &Native{Kind: "nodelist", Data: l}
			return l
		}
	}
	models["(*"+lightP+".NodeList).Put"] = func(it *Interp, a []Val) Val {
		l := nodesOf(it, a[0])
		*l = append(*l, a[2])
		return IfaceV{}
	}
	models["("+lightP+".NodeList).NodeSet"] = func(it *Interp, a []Val) Val {
		var l *[]Val
		if n, ok := a[0].(*Native); ok && n.Kind == "nodelist" {
			l = n.Data.(*[]Val)
		} else {
			l = &[]Val{}
		}
		cp := append([]Val(nil), (*l)...)
		return Ptr(newVal(&Native{Kind: "nodeset", Data: &cp}))
	}
	models["(*"+lightP+".NodeList).NodeSet"] = func(it *Interp, a []Val) Val {
		l := nodesOf(it, a[0])
		cp := append([]Val(nil), (*l)...)
		return Ptr(newVal(&Native{Kind: "nodeset", Data: &cp}))
	}
	models["github.com/ethereum/go-ethereum/trie.VerifyProof"] = func(it *Interp, a []Val) Val {
		root, key := a[0].(*StrV), a[1].(*StrV)
		var nodes []Val
		if iv, ok := a[2].(IfaceV); ok {
			if p, ok := iv.V.(Ptr); ok && p != nil {
				if n, ok := (*p).(*Native); ok && n.Kind == "nodeset" {
					nodes = *n.Data.(*[]Val)
				}
			}
		}
		ts := []*Term{it.toA(root), it.toA(key)}
		for _, n := range nodes {
			ts = append(ts, it.toA(n.(*StrV)))
		}
		okT := App(fmt.Sprintf("trieproof_ok!%d", len(nodes)), SBool, ts...)
		if !it.p.branch(okT) {
			return Tuple{&StrV{IsB: true, Nil: true}, it.newErr(IfaceV{}, "trie proof invalid")}
		}
		v := App(fmt.Sprintf("trieproof_val!%d", len(nodes)), SStr, ts...)
		it.strLenTerm(v)
		return Tuple{&StrV{T: v}, IfaceV{}}
	}

	// rlp
	const rlpP = "github.com/ethereum/go-ethereum/rlp"
	models[rlpP+".EncodeToBytes"] = func(it *Interp, a []Val) Val {
		iv := a[0].(IfaceV)
		var leaves []*Term
		if !it.flatten(iv.V, &leaves) {
			it.fail("rlp.EncodeToBytes: cannot flatten %s", it.describe(iv))
		}
		name := fmt.Sprintf("rlpenc!%d", len(leaves)) // RLP encodes a struct as the list of its fields: independent of the type name
		t := App(name, SStr, leaves...)
		it.p.noteInjective(name, t)
		it.strLenTerm(t)
		return Tuple{&StrV{T: t}, IfaceV{}}
	}
	models[rlpP+".DecodeBytes"] = func(it *Interp, a []Val) Val {
		src := a[0].(*StrV)
		iv := a[1].(IfaceV)
		p, ok := iv.V.(Ptr)
		if !ok || p == nil {
			it.fail("rlp.DecodeBytes into %s", it.describe(a[1]))
		}
		elem := iv.T.Underlying().(*types.Pointer).Elem()
		if _, isStruct := elem.Underlying().(*types.Struct); isStruct && !isStrLike(elem) {
			// a struct is decoded from the list of its fields: the bytes either are such a list or the call fails; a decoded
			// value re-encodes to the very same bytes (canonical RLP), which ties its fields to the injective encoding
			t := it.toA(src)
			it.strLenTerm(t)
			tk := typeKey(elem)
			if !it.p.branch(App("rlp_decodes!"+tk, SBool, t)) {
				return it.newErr(IfaceV{}, "rlp: decode error")
			}
			v := it.freshValue(elem, "", it.decodeMaker(t, "rlp!"+tk), freshOpts{maxLen: it.ex.cfg.DecodeMaxLen})
			var leaves []*Term
			if !it.flatten(v, &leaves) {
				it.fail("rlp.DecodeBytes: cannot flatten %s", elem)
			}
			name := fmt.Sprintf("rlpenc!%d", len(leaves))
			enc := App(name, SStr, leaves...)
			it.p.noteInjective(name, enc)
			it.strLenTerm(enc)
			it.p.assertAxiom(Eq(enc, t))
			*p = v
			return IfaceV{}
		}
		if !isStrLike(elem) {
			it.fail("rlp.DecodeBytes into %s is not modelled", elem)
		}
		t := it.toA(src)
		it.strLenTerm(t)
		if !it.p.branch(App("rlp_decodes_bytes", SBool, t)) {
			return it.newErr(IfaceV{}, "rlp: decode error")
		}
		r := App("rlp_decoded_bytes", SStr, t)
		it.strLenTerm(r)
		*p = &StrV{T: r}
		return IfaceV{}
	}
	models["encoding/hex.EncodeToString"] = func(it *Interp, a []Val) Val {
		s := a[0].(*StrV)
		if cs, ok := s.concreteString(); ok {
			return strLit(hex.EncodeToString([]byte(cs)))
		}
		t := App("hexenc", SStr, it.toA(s))
		it.p.noteInjective("hexenc", t)
		return &StrV{T: t}
	}
}

func init() {
	const coreTypes = "github.com/ethereum/go-ethereum/core/types"
	models[coreTypes+".BytesToBloom"] = func(it *Interp, a []Val) Val {
		s := a[0].(*StrV)
		ln := it.strLen(s)
		if it.p.branch(BVCmp("bvugt", ln, BVu(64, 256))) {
			it.tpanic("bloom bytes too big (BytesToBloom)")
		}
		t := App("bloom", SStr, it.toA(s))
		if !it.p.lenAx[t.id] {
			it.p.lenAx[t.id] = true
			it.p.assertAxiom(Eq(App("len", bvSort(64), t), BVu(64, 256)))
		}
		return &StrV{T: t, IsArr: true}
	}
	models[coreTypes+".EncodeNonce"] = func(it *Interp, a []Val) Val {
		r := it.u64ToBE(a[0].(*Term))
		r.IsArr = true
		return r
	}
	models[coreTypes+".CalcUncleHash"] = func(it *Interp, a []Val) Val {
		// hash of the empty uncle list: a fixed 32-byte constant
		r := strLit("\x1d\xcc\x4d\xe8\xde\xc7\x5d\x7a\xab\x85\xb5\x67\xb6\xcc\xd4\x1a\xd3\x12\x45\x1b\x94\x8a\x74\x13\xf0\xa1\x42\xfd\x40\xd4\x93\x47")
		r.IsArr = true
		return r
	}
	models[ethCrypto+".Ecrecover"] = func(it *Interp, a []Val) Val {
		h, sig := it.toA(a[0].(*StrV)), it.toA(a[1].(*StrV))
		it.strLenTerm(sig)
		if !it.p.branch(App("ecrecover_ok", SBool, h, sig)) {
			return Tuple{&StrV{IsB: true, Nil: true}, it.newErr(IfaceV{}, "invalid signature")}
		}
		pk := App("ecrecover", SStr, h, sig)
		if !it.p.lenAx[pk.id] {
			it.p.lenAx[pk.id] = true
			it.p.assertAxiom(Eq(App("len", bvSort(64), pk), BVu(64, 65)))
		}
		return Tuple{&StrV{T: pk}, IfaceV{}}
	}
	// rlp.Encode(w, v): one Write of "the RLP encoding of v" (an injective function of v's leaves)
	models["github.com/ethereum/go-ethereum/rlp.Encode"] = func(it *Interp, a []Val) Val {
		w := a[0].(IfaceV)
		val := a[1].(IfaceV)
		var leaves []*Term
		if !it.flatten(val.V, &leaves) {
			it.fail("rlp.Encode: cannot flatten %s", it.describe(val))
		}
		name := fmt.Sprintf("rlpenc!%d", len(leaves))
		t := App(name, SStr, leaves...)
		it.p.noteInjective(name, t)
		it.strLenTerm(t)
		if w.IsNil() || w.T == nil {
			it.fail("rlp.Encode into %s", it.describe(w))
		}
		f := it.methodOf(w, "Write")
		it.callFunction(f, []Val{w.V, &StrV{T: t}}, nil)
		return IfaceV{}
	}
	execThrough["github.com/tendermint/tendermint/light.ValidateTrustLevel"] = true
	execThrough["github.com/tendermint/tendermint/types.ValidateHash"] = true
}
