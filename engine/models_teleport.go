package main

import (
	"crypto/sha256"
	"fmt"
	"go/constant"
	"go/types"
	"reflect"
	"strings"
	"sync"

	"golang.org/x/tools/go/ssa"
)

const pktT = teleportMod + "/x/xibc/core/packet/types"

func (it *Interp) abiPack(recv Val, t types.Type) Val {
	if p, ok := recv.(Ptr); ok {
		if p == nil {
			it.tpanic("ABIPack on nil pointer")
		}
		recv = *p
		t = t.Underlying().(*types.Pointer).Elem()
	}
	if e := it.abiTuple(t).packErr; e != "" {
		return Tuple{&StrV{IsB: true, Nil: true}, it.newErr(IfaceV{}, e)}
	}
	return Tuple{&StrV{Boxed: copyDeep(recv), BoxT: t, BoxK: "abi"}, IfaceV{}}
}

func (it *Interp) abiDecode(ptr Val, elem types.Type, bz *StrV) Val {
	p := ptr.(Ptr)
	if p == nil {
		it.tpanic("ABIDecode on nil pointer")
	}
	tk := typeKey(elem)
	if bz.Boxed != nil {
		if bz.BoxK == "abi" && typeKey(bz.BoxT) == tk {
			*p = it.abiSurvivors(copyDeep(bz.Boxed), elem)
			return IfaceV{}
		}
		return it.newErr(IfaceV{}, "abi decode: wrong type")
	}
	t := it.toA(bz)
	it.strLenTerm(t)
	if it.p.branch(App("abidecodes!"+tk, SBool, t)) {
		*p = it.abiSurvivors(it.freshValue(elem, "", it.decodeMaker(t, "abi!"+tk), freshOpts{maxLen: it.ex.cfg.DecodeMaxLen}), elem)
		return IfaceV{}
	}
	// json.Unmarshal may have filled part of the value before failing
	*p = it.freshValue(elem, "", it.decodeMaker(t, "abierr!"+tk), freshOpts{maxLen: it.ex.cfg.DecodeMaxLen})
	return it.newErr(IfaceV{}, "abi decode failed")
}

func (it *Interp) hashModel(name string, n int, concrete func([]byte) []byte, arr bool) modelFn {
	return func(it *Interp, a []Val) Val {
		s := a[0].(*StrV)
		if cs, ok := s.concreteString(); ok && concrete != nil {
			r := strLit(string(concrete([]byte(cs))))
			r.IsArr = arr
			return r
		}
		t := App(name, SStr, it.toA(s))
		it.p.noteInjective(name, t)
		if !it.p.lenAx[t.id] {
			it.p.lenAx[t.id] = true
			it.p.assertAxiom(Eq(App("len", bvSort(64), t), BVu(64, uint64(n))))
		}
		return &StrV{T: t, IsArr: arr}
	}
}

func init() {
	for _, ty := range []string{"Packet", "Acknowledgement", "Result", "EventSendPacket", "TransferData", "CallData"} {
		ty := ty
		lookup := func(it *Interp) types.Type {
			for _, p := range it.prog.AllPackages() {
				if p.Pkg.Path() == pktT {
					return p.Pkg.Scope().Lookup(ty).Type()
				}
			}
			it.fail("type %s not loaded", ty)
			return nil
		}
		models["("+pktT+"."+ty+").ABIPack"] = func(it *Interp, a []Val) Val { return it.abiPack(a[0], lookup(it)) }
		models["(*"+pktT+"."+ty+").ABIPack"] = func(it *Interp, a []Val) Val { return it.abiPack(a[0], types.NewPointer(lookup(it))) }
		models["(*"+pktT+"."+ty+").ABIDecode"] = func(it *Interp, a []Val) Val { return it.abiDecode(a[0], lookup(it), a[1].(*StrV)) }
	}
	sha := func(b []byte) []byte { h := sha256.Sum256(b); return h[:] }
	models["crypto/sha256.Sum256"] = (*Interp)(nil).hashModel("sha256", 32, sha, true)
	models["github.com/tendermint/tendermint/crypto/tmhash.Sum"] = (*Interp)(nil).hashModel("sha256", 32, sha, false)
	models["github.com/cosmos/cosmos-sdk/x/auth/types.NewModuleAddress"] = func(it *Interp, a []Val) Val {
		s, ok := a[0].(*StrV).concreteString()
		if !ok {
			it.fail("NewModuleAddress of symbolic name")
		}
		h := sha256.Sum256([]byte(s))
		return strLit(string(h[:20]))
	}
	models["("+sdkT+".AccAddress).Bytes"] = func(it *Interp, a []Val) Val { return a[0] }
	models["("+sdkT+".AccAddress).Empty"] = func(it *Interp, a []Val) Val {
		return Eq(it.strLen(a[0].(*StrV)), BVu(64, 0))
	}
	models["("+sdkT+".AccAddress).Equals"] = func(it *Interp, a []Val) Val {
		o := a[1].(IfaceV)
		if o.IsNil() {
			return Eq(it.strLen(a[0].(*StrV)), BVu(64, 0))
		}
		os, ok := o.V.(*StrV)
		if !ok {
			it.fail("AccAddress.Equals with %s", it.describe(o))
		}
		return it.strEq(a[0].(*StrV), os)
	}
	models["("+sdkT+".AccAddress).String"] = func(it *Interp, a []Val) Val {
		s := a[0].(*StrV)
		t := App("bech32", SStr, it.toA(s))
		it.p.noteInjective("bech32", t)
		it.strLenTerm(t)
		return &StrV{T: t}
	}
	models[sdkT+".AccAddressFromBech32"] = func(it *Interp, a []Val) Val {
		s := a[0].(*StrV)
		t := it.toA(s)
		it.strLenTerm(t)
		if t.op == "app" && t.name == "bech32" {
			return Tuple{&StrV{T: t.args[0]}, IfaceV{}}
		}
		if !it.p.branch(App("isbech32", SBool, t)) {
			return Tuple{&StrV{IsB: true, Nil: true}, it.newErr(IfaceV{}, "bech32 decode")}
		}
		r := App("bech32dec", SStr, t)
		it.strLenTerm(r)
		// decoding is the inverse of encoding
		enc := App("bech32", SStr, r)
		it.p.noteInjective("bech32", enc)
		it.p.assertAxiom(Eq(enc, t))
		it.p.assertAxiom(Not(Eq(App("len", bvSort(64), r), BVu(64, 0))))
		// a bech32 string has a human-readable part, the separator and six checksum characters: never fewer than 8 bytes
		it.p.assertAxiom(BVCmp("bvuge", App("len", bvSort(64), t), BVu(64, 8)))
		return Tuple{&StrV{T: r}, IfaceV{}}
	}
	// ParseHeight(Height.String()) on an opaque rendering: the exact inverse (the byte-level round trip is checked in C19)
	models[teleportMod+"/x/xibc/core/client/types.ParseHeight"] = func(it *Interp, a []Val) Val {
		s := a[0].(*StrV)
		if s.T != nil && s.T.op == "app" && it.p.fmtNames[s.T.name] == "%d-%d" && len(s.T.args) == 2 {
			var ht types.Type
			for _, p := range it.prog.AllPackages() {
				if p.Pkg.Path() == teleportMod+"/x/xibc/core/client/types" {
					ht = p.Pkg.Scope().Lookup("Height").Type()
				}
			}
			h := it.zero(ht).(*StructV)
			h.F[0], h.F[1] = s.T.args[0], s.T.args[1]
			return Tuple{h, IfaceV{}}
		}
		return fallThrough
	}
	_ = strings.Contains
	textString := func(it *Interp, a []Val) Val {
		var leaves []*Term
		if it.flatten(a[0], &leaves) && len(leaves) > 0 {
			return &StrV{T: App(fmt.Sprintf("prototext!%d", len(leaves)), SStr, leaves...)}
		}
		return &StrV{T: Var(it.p.freshName("prototext"), SStr)}
	}
	models["github.com/gogo/protobuf/proto.CompactTextString"] = textString
	models["github.com/gogo/protobuf/proto.MarshalTextString"] = textString
}

// ---- streaming hashers (sha256.New(): Write*, Sum): the digest is the hash UF of the concatenation of everything written ----

type hasherData struct {
	model modelFn
	acc   *StrV
}

func init() {
	sha := func(b []byte) []byte { h := sha256.Sum256(b); return h[:] }
	models["crypto/sha256.New"] = func(it *Interp, a []Val) Val {
		return IfaceV{V: &Native{Kind: "hasher", Data: &hasherData{
			model: (*Interp)(nil).hashModel("sha256", 32, sha, false), acc: &StrV{IsB: true}}}}
	}
}

func (it *Interp) hasherMethod(n *Native, name string, a []Val) Val {
	h := n.Data.(*hasherData)
	switch name {
	case "Write":
		s := a[0].(*StrV)
		h.acc = it.strConcat(h.acc, s)
		return Tuple{it.strLen(s), IfaceV{}}
	case "Sum":
		d := h.model(it, []Val{h.acc}).(*StrV)
		return it.strConcat(a[0].(*StrV), d)
	case "Reset":
		h.acc = &StrV{IsB: true}
		return nil
	case "Size":
		return BVu(64, 32)
	case "BlockSize":
		return BVu(64, 64)
	}
	it.fail("hasher method %s", name)
	return nil
}

// ---- which fields survive ABIPack / ABIDecode ----
// ABIDecode goes abi.Unpack -> anonymous struct (one field per tuple component, named ToCamelCase(component) with tag
// json:"<component>") -> json.Marshal -> json.Unmarshal into the Go struct. A struct field therefore receives a value only
// if its JSON name matches a component name (exactly or case-insensitively, encoding/json's rule); Pack takes the value of
// component c from the struct field named ToCamelCase(c). The component names are read from /repo's source on every run:
// the tuple global the type's ABIDecode refers to, and the abi.NewType call that initialises it.

type abiTupleInfo struct {
	comps []string
	// per struct field: index of the struct field whose value it receives after a pack/decode round trip, or -1 (zero value)
	from    []int
	packErr string
}

var abiTupleCache sync.Map

func abiCamel(s string) string {
	parts := strings.Split(s, "_")
	for i, p := range parts {
		if len(p) > 0 {
			parts[i] = strings.ToUpper(p[:1]) + p[1:]
		}
	}
	return strings.Join(parts, "")
}

func jsonFieldName(f *types.Var, tag string) (string, bool) {
	name := f.Name()
	if v, ok := reflect.StructTag(tag).Lookup("json"); ok {
		if v == "-" {
			return "", false
		}
		if n := strings.Split(v, ",")[0]; n != "" {
			name = n
		}
	}
	return name, f.Exported()
}

func (it *Interp) abiTuple(t types.Type) *abiTupleInfo {
	key := typeKey(t)
	if v, ok := abiTupleCache.Load(key); ok {
		return v.(*abiTupleInfo)
	}
	info := it.abiTupleCompute(t)
	abiTupleCache.Store(key, info)
	return info
}

func (it *Interp) abiTupleCompute(t types.Type) *abiTupleInfo {
	named, ok := t.(*types.Named)
	st, ok2 := t.Underlying().(*types.Struct)
	if !ok || !ok2 {
		it.fail("abi tuple of %s", t)
	}
	pkg := it.prog.Package(named.Obj().Pkg())
	dec := it.prog.LookupMethod(types.NewPointer(t), named.Obj().Pkg(), "ABIDecode")
	if pkg == nil || dec == nil {
		it.fail("no ABIDecode for %s", t)
	}
	var g *ssa.Global
	for _, b := range dec.Blocks {
		for _, in := range b.Instrs {
			for _, op := range in.Operands(nil) {
				if gl, ok := (*op).(*ssa.Global); ok && strings.HasPrefix(gl.Name(), "Tuple") && g == nil {
					g = gl
				}
			}
		}
	}
	if g == nil {
		it.fail("%s.ABIDecode refers to no Tuple* global", t)
	}
	var names []string
	for _, m := range pkg.Members {
		fn, ok := m.(*ssa.Function)
		if !ok || fn.Blocks == nil {
			continue
		}
		stores := false
		var call *ssa.Call
		for _, b := range fn.Blocks {
			for _, in := range b.Instrs {
				if s, ok := in.(*ssa.Store); ok && s.Addr == ssa.Value(g) {
					stores = true
				}
				if c, ok := in.(*ssa.Call); ok && c.Call.StaticCallee() != nil && c.Call.StaticCallee().Name() == "NewType" && len(c.Call.Args) == 3 {
					call = c
				}
			}
		}
		if !stores || call == nil {
			continue
		}
		sl, ok := call.Call.Args[2].(*ssa.Slice)
		if !ok {
			it.fail("abi.NewType components of %s are not a literal", g.Name())
		}
		arr := sl.X
		n := int(arr.Type().Underlying().(*types.Pointer).Elem().Underlying().(*types.Array).Len())
		names = make([]string, n)
		for _, b := range fn.Blocks {
			for _, in := range b.Instrs {
				s, ok := in.(*ssa.Store)
				if !ok {
					continue
				}
				fa, ok := s.Addr.(*ssa.FieldAddr)
				if !ok {
					continue
				}
				ia, ok := fa.X.(*ssa.IndexAddr)
				if !ok || ia.X != arr {
					continue
				}
				idx, ok := ia.Index.(*ssa.Const)
				cv, ok2 := s.Val.(*ssa.Const)
				if !ok || !ok2 {
					continue
				}
				fst := fa.X.Type().Underlying().(*types.Pointer).Elem().Underlying().(*types.Struct)
				if fst.Field(fa.Field).Name() == "Name" {
					names[idx.Int64()] = constant.StringVal(cv.Value)
				}
			}
		}
	}
	if names == nil {
		it.fail("initialiser of %s not found", g.Name())
	}
	info := &abiTupleInfo{comps: names, from: make([]int, st.NumFields())}
	fieldByName := map[string]int{}
	for i := 0; i < st.NumFields(); i++ {
		fieldByName[st.Field(i).Name()] = i
	}
	for _, c := range names {
		if _, ok := fieldByName[abiCamel(c)]; !ok {
			info.packErr = "abi: field " + c + " can't be found in the given value"
		}
	}
	for i := 0; i < st.NumFields(); i++ {
		info.from[i] = -1
		jn, ok := jsonFieldName(st.Field(i), st.Tag(i))
		if !ok {
			continue
		}
		match := ""
		for _, c := range names {
			if c == jn {
				match = c
			}
		}
		if match == "" {
			for _, c := range names {
				if strings.EqualFold(c, jn) {
					match = c
					break
				}
			}
		}
		if match != "" {
			if src, ok := fieldByName[abiCamel(match)]; ok {
				info.from[i] = src
			}
		}
	}
	return info
}

// abiSurvivors applies the round-trip field mapping to a decoded struct value.
func (it *Interp) abiSurvivors(v Val, t types.Type) Val {
	sv, ok := v.(*StructV)
	if !ok {
		return v
	}
	info := it.abiTuple(t)
	st := t.Underlying().(*types.Struct)
	out := &StructV{T: sv.T, F: make([]Val, len(sv.F))}
	for i := range sv.F {
		if info.from[i] >= 0 {
			out.F[i] = sv.F[info.from[i]]
		} else {
			out.F[i] = it.zero(st.Field(i).Type())
		}
	}
	return out
}

// teleport/types.GetAddressFromBech32 accepts a bech32 string of any prefix: succeeds exactly for well-formed bech32
// strings (uninterpreted predicate) and then yields the decoded, non-empty address bytes.
func init() {
	models[teleportMod+"/types.GetAddressFromBech32"] = func(it *Interp, a []Val) Val {
		s := a[0].(*StrV)
		t := it.toA(s)
		it.strLenTerm(t)
		if !it.p.branch(App("isbech32anyprefix", SBool, t)) {
			return Tuple{&StrV{IsB: true, Nil: true}, it.newErr(IfaceV{}, "invalid bech32 address")}
		}
		r := App("bech32decanyprefix", SStr, t)
		it.strLenTerm(r)
		it.p.assertAxiom(Not(Eq(App("len", bvSort(64), r), BVu(64, 0))))
		return Tuple{&StrV{T: r}, IfaceV{}}
	}
}
