package main

import (
	"fmt"
	"go/types"
	"strings"
)

type decision struct {
	val    bool
	forced bool
}

type Source struct {
	Kind  string  `json:"kind"`
	Tag   string  `json:"tag"`
	Terms []*Term `json:"-"`
	Extra string  `json:"extra,omitempty"`
}

type injApp struct {
	name string
	t    *Term
}

type Path struct {
	ex       *Explorer
	s        *Solver
	prefix   []bool
	trace    []decision
	pc       []*Term
	sources  []Source
	lits     map[string]*Term
	litOrder []string
	litVal   map[string]string
	lenAx    map[int]bool
	inj      map[string][]*Term
	known    map[string]*Term
	steps    int
	mapOrder func(it *Interp, es []mapEntry) []mapEntry
	fresh    int
	dead     bool
	notes    []string
	isInit   bool
	stores   map[string]*StoreData
	calllog  []string
	fmtNames map[string]string
	fmtLenAx map[int]bool
	ordTerms []*Term // opaque strings compared by order on this path (strLessOpaque)
	decs     []decRendering // decimal renderings with uninterpreted digits (values of more than decExactDigits digits)
	envReads []string
	curInst  func() string
}

type pathEnd struct{ reason string }

func (p *Path) freshName(tag string) string {
	p.fresh++
	tag = strings.Map(func(r rune) rune {
		if r >= 'a' && r <= 'z' || r >= 'A' && r <= 'Z' || r >= '0' && r <= '9' || r == '_' || r == '.' {
			return r
		}
		return '_'
	}, tag)
	return fmt.Sprintf("%s!%d", tag, p.fresh)
}

func (p *Path) assertAxiom(t *Term) {
	if p.isInit {
		p.ex.initAxioms = append(p.ex.initAxioms, t)
		return
	}
	p.s.Assert(t)
}

func (p *Path) addPC(t *Term) {
	p.pc = append(p.pc, t)
	p.s.Assert(t)
}

// noteInjective records an application of a function assumed injective and instantiates injectivity
// against the earlier applications of the same function on this path.
func (p *Path) noteInjective(name string, t *Term) {
	for _, o := range p.inj[name] {
		if o == t {
			return
		}
	}
	for _, o := range p.inj[name] {
		if len(o.args) != len(t.args) {
			continue
		}
		eqs := TTrue
		for i := range t.args {
			if o.args[i].sort != t.args[i].sort {
				eqs = TFalse
				break
			}
			eqs = And(eqs, Eq(o.args[i], t.args[i]))
		}
		p.assertAxiom(Implies(Eq(o, t), eqs))
	}
	p.inj[name] = append(p.inj[name], t)
}

// noteDistinctFamilies: results of different functions in the same group never coincide.
func (p *Path) noteGroup(group, name string, t *Term) {
	key := "group:" + group
	for _, o := range p.inj[key] {
		if o == t {
			return
		}
	}
	for _, o := range p.inj[key] {
		if o.name != name {
			p.assertAxiom(Not(Eq(o, t)))
		}
	}
	p.inj[key] = append(p.inj[key], t)
}

// branch decides a symbolic condition, following the prefix or forking.
func (p *Path) branch(c *Term) bool {
	if c.IsConst() {
		return c.IsTrue()
	}
	if p.isInit {
		panic(engineErr{"symbolic branch during package initialisation: " + c.String()})
	}
	i := len(p.trace)
	if i < len(p.prefix) {
		v := p.prefix[i]
		p.trace = append(p.trace, decision{val: v, forced: true})
		if v {
			p.addPC(c)
		} else {
			p.addPC(Not(c))
		}
		return v
	}
	p.ex.states++
	rt := p.s.CheckWith(c)
	if rt == "unsat" {
		p.trace = append(p.trace, decision{val: false, forced: true})
		p.addPC(Not(c))
		return false
	}
	if rt == "unknown" {
		p.ex.noteUnknown("branch feasibility (true side): " + p.lastErr())
	}
	rf := p.s.CheckWith(Not(c))
	if rf == "unsat" {
		p.trace = append(p.trace, decision{val: true, forced: true})
		p.addPC(c)
		return true
	}
	if rf == "unknown" {
		p.ex.noteUnknown("branch feasibility (false side): " + p.lastErr())
	}
	// both feasible: take true now, schedule false
	if p.curInst != nil {
		p.ex.noteFork(p.curInst())
	}
	alt := make([]bool, 0, i+1)
	for _, d := range p.trace {
		alt = append(alt, d.val)
	}
	alt = append(alt, false)
	p.ex.enqueue(alt)
	p.trace = append(p.trace, decision{val: true})
	p.addPC(c)
	return true
}

func (p *Path) lastErr() string {
	if len(p.s.Errors) > 0 {
		e := p.s.Errors[len(p.s.Errors)-1]
		p.s.Errors = nil
		return e
	}
	return "unknown/timeout " + p.s.LastReason
}

func (p *Path) assume(c *Term) {
	if c.IsTrue() {
		return
	}
	if c.IsFalse() {
		panic(pathEnd{"assume false"})
	}
	r := p.s.CheckWith(c)
	if r == "unsat" {
		panic(pathEnd{"assume infeasible"})
	}
	if r == "unknown" {
		p.ex.noteUnknown("assume: " + p.lastErr())
	}
	p.addPC(c)
}

func typeKey(t types.Type) string {
	if t == nil {
		return "nil"
	}
	s := t.String()
	s = strings.ReplaceAll(s, teleportMod+"/", "")
	return strings.Map(func(r rune) rune {
		if r >= 'a' && r <= 'z' || r >= 'A' && r <= 'Z' || r >= '0' && r <= '9' || r == '_' || r == '.' {
			return r
		}
		return '_'
	}, s)
}
