package main

// Harness intrinsics: calls into package zzverifrt are intercepted here.

import (
	"fmt"
	"go/types"
	"strconv"
	"strings"
	"sync"

	"golang.org/x/tools/go/ssa"
)

var decodeMaxMu sync.RWMutex // guards cfg.DecodeMaxAt (set by harness options on every worker)

func (it *Interp) cstr(v Val, what string) string {
	s, ok := v.(*StrV)
	if ok {
		if cs, ok := s.concreteString(); ok {
			return cs
		}
	}
	it.fail("%s must be a constant string", what)
	return ""
}

func (it *Interp) newSource(kind, tag, sort string) *Term {
	v := Var(it.p.freshName(tag), sort)
	it.p.sources = append(it.p.sources, Source{Kind: kind, Tag: tag, Terms: []*Term{v}})
	return v
}

func (it *Interp) intrinsic(name string, fn *ssa.Function, a []Val) Val {
	p := it.p
	switch name {
	case "U64":
		return it.newSource("u64", it.cstr(a[0], "tag"), bvSort(64))
	case "I64":
		return it.newSource("i64", it.cstr(a[0], "tag"), bvSort(64))
	case "U32":
		return it.newSource("u32", it.cstr(a[0], "tag"), bvSort(32))
	case "U8":
		return it.newSource("u8", it.cstr(a[0], "tag"), bvSort(8))
	case "Bool":
		return it.newSource("bool", it.cstr(a[0], "tag"), SBool)
	case "Int":
		return it.newSource("i64", it.cstr(a[0], "tag"), bvSort(64))
	case "IntRange":
		tag := it.cstr(a[0], "tag")
		lo := it.concreteInt(a[1], "IntRange lo")
		hi := it.concreteInt(a[2], "IntRange hi")
		v := it.newSource("i64", tag, bvSort(64))
		for k := lo; k < hi; k++ {
			if p.branch(Eq(v, BVi(64, int64(k)))) {
				return BVi(64, int64(k))
			}
		}
		p.assume(Eq(v, BVi(64, int64(hi))))
		return BVi(64, int64(hi))
	case "Str":
		return &StrV{T: it.newSource("str", it.cstr(a[0], "tag"), SStr)}
	case "Bytes":
		return &StrV{T: it.newSource("bytes", it.cstr(a[0], "tag"), SStr)}
	case "StrN", "BytesN":
		tag := it.cstr(a[0], "tag")
		n := it.concreteInt(a[1], "StrN length")
		bs := make([]*Term, n)
		src := Source{Kind: "bytesN", Tag: tag}
		for i := range bs {
			bs[i] = Var(p.freshName(fmt.Sprintf("%s_%d", tag, i)), bvSort(8))
			src.Terms = append(src.Terms, bs[i])
		}
		p.sources = append(p.sources, src)
		return &StrV{Bytes: bs, IsB: true}
	case "BigInt":
		return Ptr(newVal(IntV{it.newSource("bigint", it.cstr(a[0], "tag"), SInt)}))
	case "Time":
		return TimeV{it.freshTime(it.cstr(a[0], "tag"))}
	case "Fresh", "FreshOpt":
		iv := a[0].(IfaceV)
		ptr, ok := iv.V.(Ptr)
		if !ok || ptr == nil {
			it.fail("rt.Fresh needs a non-nil pointer")
		}
		tag := it.cstr(a[1], "tag")
		o := freshOpts{maxLen: 2}
		if name == "FreshOpt" {
			o.maxLen = it.concreteInt(a[2], "maxLen")
			o.nilPtrs = a[3].(*Term).IsTrue()
		}
		elem := iv.T.Underlying().(*types.Pointer).Elem()
		*ptr = it.freshValue(elem, "", it.sourceMaker(tag), o)
		return nil
	case "Assume":
		p.assume(a[0].(*Term))
		return nil
	case "Assert":
		it.obligation(it.cstr(a[0], "id"), a[1].(*Term), "")
		return nil
	case "Reach":
		id := it.cstr(a[0], "id")
		it.ex.mu.Lock()
		it.ex.reach[id]++
		first := it.ex.reach[id] == 1
		it.ex.mu.Unlock()
		if first {
			r, vals := p.s.ModelWith(nil, p.queryTerms())
			if r == "sat" {
				c := p.buildCex("reach:"+id, "reach", "", vals)
				it.ex.mu.Lock()
				it.ex.reachSample[id] = c.Values
				it.ex.reachCex[id] = c
				it.ex.mu.Unlock()
			}
		}
		return nil
	case "Known":
		id := it.cstr(a[0], "id")
		if !it.ex.cfg.Known[id] {
			return nil
		}
		c := a[1].(*Term)
		if old, ok := p.known[id]; ok {
			c = Or(old, c)
		}
		p.known[id] = c
		return nil
	case "NoPanic":
		id := it.cstr(a[0], "id")
		panicked := false
		func() {
			defer func() {
				if r := recover(); r != nil {
					tp, ok := r.(targetPanic)
					if !ok {
						panic(r)
					}
					panicked = true
					it.ex.mu.Lock()
					it.ex.panicsSeen[tp.desc]++
					it.ex.mu.Unlock()
					p.notes = append(p.notes, "panic: "+tp.desc)
					it.obligation(id, TFalse, tp.desc)
				}
			}()
			saved, savedDepth := it.top, it.depth
			defer func() { it.top, it.depth = saved, savedDepth }()
			it.call(a[1], nil, nil)
		}()
		if !panicked {
			it.obligation(id, TTrue, "") // this path ran to completion without a panic
		}
		return Bool(panicked)
	case "Panics":
		// runs f and reports whether it panicked (no obligation)
		panicked := false
		func() {
			defer func() {
				if r := recover(); r != nil {
					tp, ok := r.(targetPanic)
					if !ok {
						panic(r)
					}
					_ = tp
					panicked = true
				}
			}()
			saved, savedDepth := it.top, it.depth
			defer func() { it.top, it.depth = saved, savedDepth }()
			it.call(a[0], nil, nil)
		}()
		return Bool(panicked)
	case "Note":
		p.notes = append(p.notes, it.describe(a[0]))
		return nil
	case "RegisterInterfaces":
		return nil
	case "Abstract":
		it.abstracted[it.cstr(a[0], "function name")] = true
		return nil
	case "Override":
		it.overrides[it.cstr(a[0], "override name")] = a[1].(IfaceV).V
		return nil
	case "Ctx":
		return it.newCtx(true)
	case "EmptyCtx":
		return it.newCtx(false)
	case "Codec":
		return IfaceV{V: &Native{Kind: "codec"}}
	case "Subspace":
		return &Native{Kind: "subspace", Data: &SubspaceData{vals: map[string]Val{}}}
	case "StoreKey":
		return IfaceV{T: nil, V: &Native{Kind: "storekey", Tag: it.cstr(a[0], "store key name")}}
	case "StoreWrites":
		// number of writes pending in the given context's scope chain for a store (committed or not)
		d := it.ctxOf(a[0])
		s := it.storeFor(d, it.cstr(a[1], "store name"))
		return BVu(64, uint64(storeDirty(s)))
	case "StoreAccesses":
		// number of store accesses (reads and writes) made through this context's scope chain: what the gas meter of the
		// context is charged for (every access costs a positive flat amount)
		d := it.ctxOf(a[0])
		n := 0
		for s := it.storeFor(d, it.cstr(a[1], "store name")); s != nil; s = s.parent {
			n += s.gets + len(s.log)
		}
		return BVu(64, uint64(n))
	case "ScopeWrites":
		// writes recorded in exactly this context's own scope
		d := it.ctxOf(a[0])
		s := it.storeFor(d, it.cstr(a[1], "store name"))
		return BVu(64, uint64(len(s.log)))
	case "UFBool", "UFU64", "UFStr":
		fname := it.cstr(a[0], "uf name")
		sl := a[1].(*SliceV)
		var ts []*Term
		for i := 0; i < sl.Len; i++ {
			iv := (*sl.Arr)[sl.Off+i].(IfaceV)
			if !it.flatten(iv.V, &ts) {
				it.fail("rt.UF argument %d cannot be flattened", i)
			}
		}
		sort := map[string]string{"UFBool": SBool, "UFU64": bvSort(64), "UFStr": SStr}[name]
		// the function symbol is per argument shape (an interface argument can flatten to different shapes)
		sig := ""
		for _, x := range ts {
			switch {
			case x.sort == SBool:
				sig += "b"
			case x.sort == SStr:
				sig += "s"
			case x.sort == SInt:
				sig += "i"
			default:
				sig += fmt.Sprintf("v%d", x.w)
			}
		}
		t := App("uf!"+fname+"!"+sig, sort, ts...)
		if len(ts) == 0 {
			t = Var("uf!"+fname, sort)
		}
		if name == "UFStr" {
			it.strLenTerm(t)
		}
		p.sources = append(p.sources, Source{Kind: "uf:" + name, Tag: fname, Terms: []*Term{t}})
		if name == "UFStr" {
			return &StrV{T: t}
		}
		return t
	case "SameObject":
		x, y := a[0].(IfaceV), a[1].(IfaceV)
		if x.IsNil() || y.IsNil() {
			return Bool(x.IsNil() && y.IsNil())
		}
		px, ok1 := x.V.(Ptr)
		py, ok2 := y.V.(Ptr)
		if ok1 && ok2 {
			return Bool(px == py)
		}
		nx, ok1 := x.V.(*Native)
		ny, ok2 := y.V.(*Native)
		if ok1 && ok2 {
			return Bool(nx == ny)
		}
		return TFalse
	case "CallMethod", "CallArgs":
		data := a[1].(*StrV)
		sl, ok := data.Boxed.(*SliceV)
		if !ok || data.BoxK != "abicall" {
			it.fail("rt.%s: not an ABI call payload: %s", name, it.describe(data))
		}
		if name == "CallMethod" {
			return (*sl.Arr)[0]
		}
		rest := append([]Val(nil), (*sl.Arr)[1:sl.Len]...)
		return &SliceV{Arr: &rest, Len: len(rest), Cap: len(rest)}
	case "MapOrder":
		// iteration order of every later range-over-map on this path: 0 insertion order, 1 reversed, k>=2 rotated by k-1
		k := it.concreteInt(a[0], "map order")
		p.mapOrder = func(it *Interp, es []mapEntry) []mapEntry {
			n := len(es)
			out := make([]mapEntry, n)
			for i := range es {
				switch {
				case k == 0:
					out[i] = es[i]
				case k == 1:
					out[i] = es[n-1-i]
				default:
					out[i] = es[(i+k-1)%n]
				}
			}
			return out
		}
		return nil
	case "Tier":
		if it.ex.cfg.Tier == "thorough" {
			return BVi(64, 1)
		}
		return BVi(64, 0)
	case "Opt":
		switch o := it.cstr(a[0], "option"); o {
		case "exact-decimal":
			it.ex.cfg.ExactDecimal = true
		case "decode-max-1":
			it.ex.cfg.DecodeMaxLen = 1
		case "max-enum-40":
			it.ex.cfg.MaxEnum = 40
		case "structured-keys":
			it.ex.cfg.StructuredKeys = true
		case "abstract-all-dependencies":
			// every dependency function that has no model and is not executable returns an arbitrary value of its type
			it.autoAll = true
		case "no-injective-sprintf":
			it.ex.cfg.InjectiveSprintf = false
		default:
			if strings.HasPrefix(o, "decode-max-at:") {
				kv := strings.SplitN(strings.TrimPrefix(o, "decode-max-at:"), "=", 2)
				n, err := strconv.Atoi(kv[len(kv)-1])
				if len(kv) != 2 || err != nil {
					it.fail("bad option %q", o)
				}
				decodeMaxMu.Lock()
				if it.ex.cfg.DecodeMaxAt == nil {
					it.ex.cfg.DecodeMaxAt = map[string]int{}
				}
				it.ex.cfg.DecodeMaxAt[kv[0]] = n
				decodeMaxMu.Unlock()
				return nil
			}
			it.fail("unknown option %s", o)
		}
		return nil
	case "IsSymbolic":
		return TTrue
	case "BytesEq":
		return it.strEq(a[0].(*StrV), a[1].(*StrV))
	case "BigToInt": // helpers to build mathematical-integer specs
		return nil
	}
	it.fail("unknown rt intrinsic %s", name)
	return nil
}

// autoModel handles calls without a model or body.
func (it *Interp) autoModel(fn *ssa.Function, args []Val) (Val, bool) {
	key := funcKey(fn)
	if it.inInit > 0 || autoOpaque[key] || it.abstracted[key] || (it.autoAll && !isTeleportPkg(fn.Pkg)) {
		it.ex.noteAuto(key)
		res := fn.Signature.Results()
		switch res.Len() {
		case 0:
			return nil, true
		case 1:
			return it.opaqueOfType(res.At(0).Type(), "auto:"+fn.Name()), true
		}
		return it.opaqueOfType(res, "auto:"+fn.Name()), true
	}
	return nil, false
}

var autoOpaque = map[string]bool{}
