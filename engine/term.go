package main

// Hash-consed SMT term DAG with a local simplifier and an SMT-LIB2 printer.

import (
	"fmt"
	"math/big"
	"sort"
	"strings"
	"sync"
)

type Term struct {
	op   string // "const", "var", "app" (uninterpreted), or an SMT operator name
	name string // var / app name; for indexed ops the index text
	args []*Term
	sort string
	val  *big.Int // const value (BV: unsigned representative; Bool: 0/1; Int: value)
	w    int      // bit width for BV sorts
	id   int
}

const (
	SBool = "Bool"
	SInt  = "Int"
	SStr  = "Str"
)

func bvSort(w int) string { return fmt.Sprintf("(_ BitVec %d)", w) }

var (
	tmu    sync.Mutex
	ttable = map[string]*Term{}
	tnext  = 1
)

func intern(t *Term) *Term {
	var sb strings.Builder
	sb.WriteString(t.op)
	sb.WriteByte('|')
	sb.WriteString(t.name)
	sb.WriteByte('|')
	sb.WriteString(t.sort)
	sb.WriteByte('|')
	if t.val != nil {
		sb.WriteString(t.val.String())
	}
	for _, a := range t.args {
		fmt.Fprintf(&sb, ",%d", a.id)
	}
	k := sb.String()
	tmu.Lock()
	defer tmu.Unlock()
	if e, ok := ttable[k]; ok {
		return e
	}
	t.id = tnext
	tnext++
	ttable[k] = t
	return t
}

func widthOf(sort string) int {
	var w int
	if _, err := fmt.Sscanf(sort, "(_ BitVec %d)", &w); err == nil {
		return w
	}
	return 0
}

func (t *Term) IsConst() bool { return t.op == "const" }
func (t *Term) IsTrue() bool  { return t.op == "const" && t.sort == SBool && t.val.Sign() != 0 }
func (t *Term) IsFalse() bool { return t.op == "const" && t.sort == SBool && t.val.Sign() == 0 }

var big0 = big.NewInt(0)
var big1 = big.NewInt(1)

func mask(w int) *big.Int {
	m := new(big.Int).Lsh(big1, uint(w))
	return m.Sub(m, big1)
}

func BV(w int, v *big.Int) *Term {
	x := new(big.Int).And(v, mask(w)) // two's complement wrap for negatives: And on negative big.Int works as infinite two's complement
	return intern(&Term{op: "const", sort: bvSort(w), val: x, w: w})
}
func BVu(w int, v uint64) *Term { return BV(w, new(big.Int).SetUint64(v)) }
func BVi(w int, v int64) *Term  { return BV(w, big.NewInt(v)) }
func Bool(b bool) *Term {
	v := big0
	if b {
		v = big1
	}
	return intern(&Term{op: "const", sort: SBool, val: v})
}
func IntC(v *big.Int) *Term { return intern(&Term{op: "const", sort: SInt, val: new(big.Int).Set(v)}) }
func IntI(v int64) *Term    { return IntC(big.NewInt(v)) }

var TTrue, TFalse *Term

func init() { TTrue = Bool(true); TFalse = Bool(false) }

func Var(name, sort string) *Term {
	return intern(&Term{op: "var", name: name, sort: sort, w: widthOf(sort)})
}

// App is an application of an uninterpreted function.
func App(name, sort string, args ...*Term) *Term {
	if len(args) == 0 {
		return Var(name, sort)
	}
	return intern(&Term{op: "app", name: name, sort: sort, args: args, w: widthOf(sort)})
}

func mk(op, sort string, args ...*Term) *Term {
	return intern(&Term{op: op, sort: sort, args: args, w: widthOf(sort)})
}
func mkIdx(op, idx, sort string, args ...*Term) *Term {
	return intern(&Term{op: op, name: idx, sort: sort, args: args, w: widthOf(sort)})
}

func signed(w int, v *big.Int) *big.Int {
	if v.Bit(w-1) == 1 {
		return new(big.Int).Sub(v, new(big.Int).Lsh(big1, uint(w)))
	}
	return v
}

func Not(a *Term) *Term {
	if a.IsConst() {
		return Bool(a.val.Sign() == 0)
	}
	if a.op == "not" {
		return a.args[0]
	}
	return mk("not", SBool, a)
}

func And(xs ...*Term) *Term {
	var out []*Term
	seen := map[int]bool{}
	for _, x := range xs {
		if x.IsFalse() {
			return TFalse
		}
		if x.IsTrue() || seen[x.id] {
			continue
		}
		if x.op == "and" {
			for _, y := range x.args {
				if !seen[y.id] {
					seen[y.id] = true
					out = append(out, y)
				}
			}
			continue
		}
		seen[x.id] = true
		out = append(out, x)
	}
	for _, x := range out {
		if x.op == "not" && seen[x.args[0].id] {
			return TFalse
		}
	}
	if len(out) == 0 {
		return TTrue
	}
	if len(out) == 1 {
		return out[0]
	}
	return mk("and", SBool, out...)
}

func Or(xs ...*Term) *Term {
	var out []*Term
	seen := map[int]bool{}
	for _, x := range xs {
		if x.IsTrue() {
			return TTrue
		}
		if x.IsFalse() || seen[x.id] {
			continue
		}
		if x.op == "or" {
			for _, y := range x.args {
				if !seen[y.id] {
					seen[y.id] = true
					out = append(out, y)
				}
			}
			continue
		}
		seen[x.id] = true
		out = append(out, x)
	}
	for _, x := range out {
		if x.op == "not" && seen[x.args[0].id] {
			return TTrue
		}
	}
	if len(out) == 0 {
		return TFalse
	}
	if len(out) == 1 {
		return out[0]
	}
	return mk("or", SBool, out...)
}

func Implies(a, b *Term) *Term { return Or(Not(a), b) }

func Eq(a, b *Term) *Term {
	if a == b {
		return TTrue
	}
	if a.sort != b.sort {
		panic(engineErr{fmt.Sprintf("Eq: sort mismatch %s vs %s (%s vs %s)", a.sort, b.sort, a, b)})
	}
	if a.IsConst() && b.IsConst() {
		return Bool(a.val.Cmp(b.val) == 0)
	}
	if a.sort == SInt {
		if x, y, ok := natPair(a, b); ok {
			return Eq(x, y)
		}
	}
	if a.sort == SBool {
		if a.IsConst() {
			a, b = b, a
		}
		if b.IsTrue() {
			return a
		}
		if b.IsFalse() {
			return Not(a)
		}
	}
	if a.id > b.id {
		a, b = b, a
	}
	return mk("=", SBool, a, b)
}

func Ite(c, a, b *Term) *Term {
	if c.IsTrue() {
		return a
	}
	if c.IsFalse() {
		return b
	}
	if a == b {
		return a
	}
	if a.sort == SBool {
		if a.IsTrue() && b.IsFalse() {
			return c
		}
		if a.IsFalse() && b.IsTrue() {
			return Not(c)
		}
	}
	return mk("ite", a.sort, c, a, b)
}

// BVBin builds a bit-vector binary operation with constant folding.
func BVBin(op string, a, b *Term) *Term {
	w := a.w
	if a.sort != b.sort {
		panic(engineErr{fmt.Sprintf("BVBin %s: sort mismatch %s vs %s", op, a.sort, b.sort)})
	}
	if a.IsConst() && b.IsConst() {
		x, y := a.val, b.val
		r := new(big.Int)
		switch op {
		case "bvadd":
			return BV(w, r.Add(x, y))
		case "bvsub":
			return BV(w, r.Sub(x, y))
		case "bvmul":
			return BV(w, r.Mul(x, y))
		case "bvand":
			return BV(w, r.And(x, y))
		case "bvor":
			return BV(w, r.Or(x, y))
		case "bvxor":
			return BV(w, r.Xor(x, y))
		case "bvudiv":
			if y.Sign() != 0 {
				return BV(w, r.Quo(x, y))
			}
		case "bvurem":
			if y.Sign() != 0 {
				return BV(w, r.Rem(x, y))
			}
		case "bvsdiv":
			if y.Sign() != 0 {
				return BV(w, r.Quo(signed(w, x), signed(w, y)))
			}
		case "bvsrem":
			if y.Sign() != 0 {
				return BV(w, r.Rem(signed(w, x), signed(w, y)))
			}
		case "bvshl":
			if y.Cmp(big.NewInt(int64(w))) >= 0 {
				return BVu(w, 0)
			}
			return BV(w, r.Lsh(x, uint(y.Uint64())))
		case "bvlshr":
			if y.Cmp(big.NewInt(int64(w))) >= 0 {
				return BVu(w, 0)
			}
			return BV(w, r.Rsh(x, uint(y.Uint64())))
		case "bvashr":
			sx := signed(w, x)
			sh := uint(w)
			if y.Cmp(big.NewInt(int64(w))) < 0 {
				sh = uint(y.Uint64())
			}
			return BV(w, r.Rsh(sx, sh))
		}
	}
	switch op {
	case "bvadd", "bvor", "bvxor":
		if a.IsConst() && a.val.Sign() == 0 {
			return b
		}
		if b.IsConst() && b.val.Sign() == 0 {
			return a
		}
	case "bvsub":
		if b.IsConst() && b.val.Sign() == 0 {
			return a
		}
		if a == b {
			return BVu(w, 0)
		}
	case "bvmul":
		if a.IsConst() && a.val.Cmp(big1) == 0 {
			return b
		}
		if b.IsConst() && b.val.Cmp(big1) == 0 {
			return a
		}
	}
	return mk(op, a.sort, a, b)
}

// BVCmp builds a comparison (bvult, bvule, bvslt, bvsle ...).
func BVCmp(op string, a, b *Term) *Term {
	if a.sort != b.sort {
		panic(engineErr{fmt.Sprintf("BVCmp %s: sort mismatch %s vs %s", op, a.sort, b.sort)})
	}
	w := a.w
	if a.IsConst() && b.IsConst() {
		x, y := a.val, b.val
		switch op {
		case "bvult":
			return Bool(x.Cmp(y) < 0)
		case "bvule":
			return Bool(x.Cmp(y) <= 0)
		case "bvugt":
			return Bool(x.Cmp(y) > 0)
		case "bvuge":
			return Bool(x.Cmp(y) >= 0)
		case "bvslt":
			return Bool(signed(w, x).Cmp(signed(w, y)) < 0)
		case "bvsle":
			return Bool(signed(w, x).Cmp(signed(w, y)) <= 0)
		case "bvsgt":
			return Bool(signed(w, x).Cmp(signed(w, y)) > 0)
		case "bvsge":
			return Bool(signed(w, x).Cmp(signed(w, y)) >= 0)
		}
	}
	if a == b {
		switch op {
		case "bvule", "bvuge", "bvsle", "bvsge":
			return TTrue
		default:
			return TFalse
		}
	}
	return mk(op, SBool, a, b)
}

func BVNeg(a *Term) *Term {
	if a.IsConst() {
		return BV(a.w, new(big.Int).Neg(a.val))
	}
	return mk("bvneg", a.sort, a)
}
func BVNot(a *Term) *Term {
	if a.IsConst() {
		return BV(a.w, new(big.Int).Xor(a.val, mask(a.w)))
	}
	return mk("bvnot", a.sort, a)
}

func Extract(hi, lo int, a *Term) *Term {
	if lo == 0 && hi == a.w-1 {
		return a
	}
	if a.IsConst() {
		return BV(hi-lo+1, new(big.Int).Rsh(a.val, uint(lo)))
	}
	if a.op == "zero_extend" || a.op == "sign_extend" {
		inner := a.args[0]
		if hi < inner.w {
			return Extract(hi, lo, inner)
		}
	}
	if a.op == "concat" {
		lw := a.args[1].w
		if hi < lw {
			return Extract(hi, lo, a.args[1])
		}
		if lo >= lw {
			return Extract(hi-lw, lo-lw, a.args[0])
		}
	}
	return mkIdx("extract", fmt.Sprintf("%d %d", hi, lo), bvSort(hi-lo+1), a)
}

func ZeroExt(to int, a *Term) *Term {
	if to == a.w {
		return a
	}
	if to < a.w {
		return Extract(to-1, 0, a)
	}
	if a.IsConst() {
		return BV(to, a.val)
	}
	return mkIdx("zero_extend", fmt.Sprint(to-a.w), bvSort(to), a)
}

func SignExt(to int, a *Term) *Term {
	if to == a.w {
		return a
	}
	if to < a.w {
		return Extract(to-1, 0, a)
	}
	if a.IsConst() {
		return BV(to, signed(a.w, a.val))
	}
	return mkIdx("sign_extend", fmt.Sprint(to-a.w), bvSort(to), a)
}

func Concat(hi, lo *Term) *Term {
	if hi.IsConst() && lo.IsConst() {
		v := new(big.Int).Lsh(hi.val, uint(lo.w))
		return BV(hi.w+lo.w, v.Or(v, lo.val))
	}
	return mk("concat", bvSort(hi.w+lo.w), hi, lo)
}

// ---- mathematical integers ----

func IntBin(op string, a, b *Term) *Term {
	if a.sort != SInt || b.sort != SInt {
		panic(engineErr{fmt.Sprintf("IntBin %s on %s,%s", op, a.sort, b.sort)})
	}
	if a.IsConst() && b.IsConst() {
		r := new(big.Int)
		switch op {
		case "+":
			return IntC(r.Add(a.val, b.val))
		case "-":
			return IntC(r.Sub(a.val, b.val))
		case "*":
			return IntC(r.Mul(a.val, b.val))
		case "div": // SMT div/mod are euclidean; only fold for non-negative
			if b.val.Sign() > 0 && a.val.Sign() >= 0 {
				return IntC(r.Quo(a.val, b.val))
			}
		case "mod":
			if b.val.Sign() > 0 && a.val.Sign() >= 0 {
				return IntC(r.Rem(a.val, b.val))
			}
		}
	}
	switch op {
	case "+":
		if a.IsConst() && a.val.Sign() == 0 {
			return b
		}
		if b.IsConst() && b.val.Sign() == 0 {
			return a
		}
	case "-":
		if b.IsConst() && b.val.Sign() == 0 {
			return a
		}
		if a == b {
			return IntI(0)
		}
	case "*":
		if a.IsConst() && a.val.Cmp(big1) == 0 {
			return b
		}
		if b.IsConst() && b.val.Cmp(big1) == 0 {
			return a
		}
	}
	return mk(op, SInt, a, b)
}

// natPair recognises comparisons between unsigned bit-vector values lifted to Int and keeps them in the bit-vector theory.
func natPair(a, b *Term) (*Term, *Term, bool) {
	if a.op == "bv2nat" && b.op == "bv2nat" && a.args[0].w == b.args[0].w {
		return a.args[0], b.args[0], true
	}
	if a.op == "bv2nat" && b.IsConst() && b.val.Sign() >= 0 && b.val.BitLen() <= a.args[0].w {
		return a.args[0], BV(a.args[0].w, b.val), true
	}
	if b.op == "bv2nat" && a.IsConst() && a.val.Sign() >= 0 && a.val.BitLen() <= b.args[0].w {
		return BV(b.args[0].w, a.val), b.args[0], true
	}
	return nil, nil, false
}

func IntCmp(op string, a, b *Term) *Term {
	if x, y, ok := natPair(a, b); ok {
		return BVCmp(map[string]string{"<": "bvult", "<=": "bvule", ">": "bvugt", ">=": "bvuge"}[op], x, y)
	}
	if a.op == "bv2nat" && b.IsConst() && b.val.Sign() < 0 {
		return Bool(op == ">" || op == ">=")
	}
	if a.IsConst() && b.IsConst() {
		c := a.val.Cmp(b.val)
		switch op {
		case "<":
			return Bool(c < 0)
		case "<=":
			return Bool(c <= 0)
		case ">":
			return Bool(c > 0)
		case ">=":
			return Bool(c >= 0)
		}
	}
	if a == b {
		return Bool(op == "<=" || op == ">=")
	}
	return mk(op, SBool, a, b)
}

func IntNeg(a *Term) *Term { return IntBin("-", IntI(0), a) }

// BVToNat: unsigned value of a bit-vector as Int.
func BVToNat(a *Term) *Term {
	if a.IsConst() {
		return IntC(a.val)
	}
	return mk("bv2nat", SInt, a)
}

// BVToIntSigned: signed value of a bit-vector as Int.
func BVToIntSigned(a *Term) *Term {
	if a.IsConst() {
		return IntC(signed(a.w, a.val))
	}
	n := BVToNat(a)
	top := IntC(new(big.Int).Lsh(big1, uint(a.w)))
	neg := BVCmp("bvslt", a, BVu(a.w, 0))
	return Ite(neg, IntBin("-", n, top), n)
}

// IntToBV: wraps modulo 2^w.
func IntToBV(w int, a *Term) *Term {
	if a.IsConst() {
		return BV(w, a.val)
	}
	if a.op == "bv2nat" && a.args[0].w == w {
		return a.args[0]
	}
	return mkIdx("int2bv", fmt.Sprint(w), bvSort(w), a)
}

// ---- arrays ----
func Select(arr, idx *Term) *Term {
	// read-over-write simplification when syntactically decidable
	for arr.op == "store" {
		if arr.args[1] == idx {
			return arr.args[2]
		}
		if arr.args[1].IsConst() && idx.IsConst() {
			arr = arr.args[0]
			continue
		}
		break
	}
	// element sort: parse "(Array X Y)"
	return mk("select", arrayElemSort(arr.sort), arr, idx)
}
func Store(arr, idx, v *Term) *Term { return mk("store", arr.sort, arr, idx, v) }
func arraySort(k, v string) string  { return "(Array " + k + " " + v + ")" }
func arrayElemSort(s string) string {
	// s = (Array K V); K and V may be parenthesised
	body := strings.TrimSuffix(strings.TrimPrefix(s, "(Array "), ")")
	depth := 0
	for i, c := range body {
		switch c {
		case '(':
			depth++
		case ')':
			depth--
		case ' ':
			if depth == 0 {
				return body[i+1:]
			}
		}
	}
	panic("bad array sort " + s)
}

// ---- printing ----

func smtName(n string) string {
	ok := true
	for _, c := range n {
		if !(c >= 'a' && c <= 'z' || c >= 'A' && c <= 'Z' || c >= '0' && c <= '9' || c == '_' || c == '.' || c == '!' || c == '$' || c == '-') {
			ok = false
			break
		}
	}
	if ok && n != "" {
		return n
	}
	return "|" + strings.NewReplacer("|", "!", "\\", "!").Replace(n) + "|"
}

func (t *Term) String() string {
	var sb strings.Builder
	t.write(&sb, nil)
	return sb.String()
}

// write prints the term; names maps term ids that were bound by define-fun to their names.
func (t *Term) write(sb *strings.Builder, names map[int]string) {
	if names != nil {
		if n, ok := names[t.id]; ok {
			sb.WriteString(n)
			return
		}
	}
	switch t.op {
	case "const":
		switch {
		case t.sort == SBool:
			if t.val.Sign() != 0 {
				sb.WriteString("true")
			} else {
				sb.WriteString("false")
			}
		case t.sort == SInt:
			if t.val.Sign() < 0 {
				fmt.Fprintf(sb, "(- %s)", new(big.Int).Neg(t.val).String())
			} else {
				sb.WriteString(t.val.String())
			}
		default:
			fmt.Fprintf(sb, "(_ bv%s %d)", t.val.String(), t.w)
		}
	case "var":
		sb.WriteString(smtName(t.name))
	case "app":
		sb.WriteByte('(')
		sb.WriteString(smtName(t.name))
		for _, a := range t.args {
			sb.WriteByte(' ')
			a.write(sb, names)
		}
		sb.WriteByte(')')
	case "extract", "zero_extend", "sign_extend", "int2bv":
		fmt.Fprintf(sb, "((_ %s %s) ", t.op, t.name)
		t.args[0].write(sb, names)
		sb.WriteByte(')')
	default:
		sb.WriteByte('(')
		sb.WriteString(t.op)
		for _, a := range t.args {
			sb.WriteByte(' ')
			a.write(sb, names)
		}
		sb.WriteByte(')')
	}
}

type decl struct {
	name string
	text string
}

// collectDecls lists the declarations (vars and uninterpreted functions) a term needs, in a deterministic order.
func collectDecls(t *Term, seen map[int]bool, out map[string]string) {
	if seen[t.id] {
		return
	}
	seen[t.id] = true
	switch t.op {
	case "var":
		out[t.name] = fmt.Sprintf("(declare-fun %s () %s)", smtName(t.name), t.sort)
	case "app":
		var as []string
		for _, a := range t.args {
			as = append(as, a.sort)
		}
		out[t.name] = fmt.Sprintf("(declare-fun %s (%s) %s)", smtName(t.name), strings.Join(as, " "), t.sort)
	}
	for _, a := range t.args {
		collectDecls(a, seen, out)
	}
}

func sortedKeys(m map[string]string) []string {
	ks := make([]string, 0, len(m))
	for k := range m {
		ks = append(ks, k)
	}
	sort.Strings(ks)
	return ks
}

// termSize counts DAG nodes (used to decide when to introduce definitions).
func termSize(t *Term, seen map[int]bool) int {
	if seen[t.id] {
		return 0
	}
	seen[t.id] = true
	n := 1
	for _, a := range t.args {
		n += termSize(a, seen)
	}
	return n
}

type engineErr struct{ msg string }

func (e engineErr) Error() string { return e.msg }
