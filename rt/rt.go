// Package rt is the harness runtime. Under the symbolic engine (gosmt) every call into this package
// is intercepted and given its symbolic meaning; compiled natively (go test -overlay) the same calls
// read their values from a replay file, so a harness is both the symbolic entry point and the replay test.
package rt

import (
	"encoding/json"
	"fmt"
	"io"
	"math/big"
	"os"
	"reflect"
	"runtime"
	"strconv"
	"strings"
	"time"

	"github.com/ethereum/go-ethereum/accounts/abi"

	"github.com/cosmos/cosmos-sdk/codec"
	codectypes "github.com/cosmos/cosmos-sdk/codec/types"
	"github.com/cosmos/cosmos-sdk/store/cachekv"
	"github.com/cosmos/cosmos-sdk/store/dbadapter"
	storetypes "github.com/cosmos/cosmos-sdk/store/types"
	sdk "github.com/cosmos/cosmos-sdk/types"
	paramtypes "github.com/cosmos/cosmos-sdk/x/params/types"
	"github.com/tendermint/tendermint/libs/log"
	tmproto "github.com/tendermint/tendermint/proto/tendermint/types"
	dbm "github.com/tendermint/tm-db"
)

// ---- replay state (native only) ----

type Value struct {
	Kind  string   `json:"kind"`
	Tag   string   `json:"tag"`
	Vals  []string `json:"vals"`
	Extra string   `json:"extra,omitempty"`
}

type Replay struct {
	Harness    string            `json:"harness"`
	Obligation string            `json:"obligation"`
	Values     []Value           `json:"values"`
	Literals   map[string]string `json:"literals,omitempty"`
	Lens       map[string]uint64 `json:"lens,omitempty"`
}

var (
	replay   *Replay
	pos      int
	Failed   []string
	Reached  []string
	Notes    []string
	strElems = map[string]string{}
)

// Load reads a replay file (native only).
func Load(path string) error {
	bz, err := os.ReadFile(path)
	if err != nil {
		return err
	}
	replay = &Replay{}
	pos = 0
	Failed, Reached, Notes = nil, nil, nil
	return json.Unmarshal(bz, replay)
}

func next(kind string) Value {
	if replay == nil {
		panic("rt: no replay loaded")
	}
	for pos < len(replay.Values) {
		v := replay.Values[pos]
		pos++
		if v.Kind == "storeget" || strings.HasPrefix(v.Tag, "env:") || strings.HasPrefix(v.Kind, "uf:") && !strings.HasPrefix(kind, "uf:") {
			continue
		}
		return v
	}
	return Value{Kind: kind, Vals: []string{""}}
}

func parseBV(s string) uint64 {
	s = strings.TrimSpace(s)
	switch {
	case strings.HasPrefix(s, "#x"):
		v, _ := strconv.ParseUint(s[2:], 16, 64)
		return v
	case strings.HasPrefix(s, "#b"):
		v, _ := strconv.ParseUint(s[2:], 2, 64)
		return v
	case strings.HasPrefix(s, "(_ bv"):
		f := strings.Fields(s[5:])
		v, _ := strconv.ParseUint(f[0], 10, 64)
		return v
	}
	return 0
}

func parseInt(s string) *big.Int {
	s = strings.TrimSpace(s)
	neg := false
	if strings.HasPrefix(s, "(-") {
		neg = true
		s = strings.TrimSuffix(strings.TrimSpace(s[2:]), ")")
	}
	v, ok := new(big.Int).SetString(strings.TrimSpace(s), 10)
	if !ok {
		return big.NewInt(0)
	}
	if neg {
		v.Neg(v)
	}
	return v
}

// strOf maps an abstract string element of the model to a concrete string (distinct elements -> distinct strings).
func strOf(elem string) string {
	if replay != nil {
		if l, ok := replay.Literals[elem]; ok {
			return l
		}
	}
	if s, ok := strElems[elem]; ok {
		return s
	}
	s := fmt.Sprintf("s%dx", len(strElems))
	if replay != nil {
		if n, ok := replay.Lens[elem]; ok && n < 1<<16 {
			// a string of the length the solver's model gives this element, different from every other element
			for uint64(len(s)) < n {
				s += s
			}
			s = s[:n]
			if n > 0 && n < 4 {
				s = string([]byte{byte(len(strElems) + 1), 0, 0}[:n])
			}
		}
	}
	strElems[elem] = s
	return s
}

func first(v Value) string {
	if len(v.Vals) > 0 {
		return v.Vals[0]
	}
	return ""
}

// ---- sources ----

func U64(tag string) uint64 { return parseBV(first(next("u64"))) }
func I64(tag string) int64  { return int64(parseBV(first(next("i64")))) }
func U32(tag string) uint32 { return uint32(parseBV(first(next("u32")))) }
func U8(tag string) uint8   { return uint8(parseBV(first(next("u8")))) }
func Int(tag string) int    { return int(int64(parseBV(first(next("i64"))))) }
func Bool(tag string) bool  { return strings.TrimSpace(first(next("bool"))) == "true" }

// IntRange returns an arbitrary integer in [lo,hi]; it is concrete on every explored path.
func IntRange(tag string, lo, hi int) int { return int(int64(parseBV(first(next("i64"))))) }

// Str / Bytes: arbitrary opaque string of arbitrary length.
func Str(tag string) string   { return strOf(first(next("str"))) }
func Bytes(tag string) []byte { return []byte(strOf(first(next("bytes")))) }

// StrN / BytesN: n arbitrary bytes, each one a solver variable.
func StrN(tag string, n int) string { return string(BytesN(tag, n)) }
func BytesN(tag string, n int) []byte {
	v := next("bytesN")
	out := make([]byte, n)
	for i := 0; i < n && i < len(v.Vals); i++ {
		out[i] = byte(parseBV(v.Vals[i]))
	}
	return out
}
func BigInt(tag string) *big.Int { return parseInt(first(next("bigint"))) }
func Time(tag string) time.Time {
	return time.Unix(0, 0).Add(time.Duration(parseBVBig(first(next("time"))).Int64())).UTC()
}

// Fresh fills *ptr with an arbitrary value of its type (slices up to length 2, non-nil pointers).
func Fresh(ptr interface{}, tag string) { FreshOpt(ptr, tag, 2, false) }

// FreshOpt: as Fresh with a bound on slice lengths; with nilPtrs pointers may also be nil.
func FreshOpt(ptr interface{}, tag string, maxLen int, nilPtrs bool) {
	fill(reflect.ValueOf(ptr).Elem(), maxLen, nilPtrs)
}

var bigIntT = reflect.TypeOf(big.Int{})
var timeT = reflect.TypeOf(time.Time{})
var sdkIntT = reflect.TypeOf(sdk.Int{})

func fill(v reflect.Value, maxLen int, nilPtrs bool) {
	switch v.Type() {
	case bigIntT:
		v.Set(reflect.ValueOf(*parseInt(first(next("bigint")))))
		return
	case timeT:
		v.Set(reflect.ValueOf(time.Unix(0, 0).Add(time.Duration(parseBVBig(first(next("time"))).Int64())).UTC()))
		return
	case sdkIntT:
		if nilPtrs && strings.TrimSpace(first(next("bool"))) == "true" {
			v.Set(reflect.ValueOf(sdk.Int{}))
			return
		}
		v.Set(reflect.ValueOf(sdk.NewIntFromBigInt(parseInt(first(next("bigint"))))))
		return
	}
	switch v.Kind() {
	case reflect.Bool:
		v.SetBool(strings.TrimSpace(first(next("bool"))) == "true")
	case reflect.Int, reflect.Int8, reflect.Int16, reflect.Int32, reflect.Int64:
		v.SetInt(int64(parseBV(first(next("int")))))
	case reflect.Uint, reflect.Uint8, reflect.Uint16, reflect.Uint32, reflect.Uint64:
		v.SetUint(parseBV(first(next("uint"))))
	case reflect.String:
		v.SetString(strOf(first(next("str"))))
	case reflect.Struct:
		for i := 0; i < v.NumField(); i++ {
			f := v.Type().Field(i)
			if f.PkgPath != "" || strings.HasPrefix(f.Name, "XXX_") {
				continue
			}
			fill(v.Field(i), maxLen, nilPtrs)
		}
	case reflect.Ptr:
		if nilPtrs && strings.TrimSpace(first(next("bool"))) == "true" {
			v.Set(reflect.Zero(v.Type()))
			return
		}
		n := reflect.New(v.Type().Elem())
		fill(n.Elem(), maxLen, nilPtrs)
		v.Set(n)
	case reflect.Slice:
		if v.Type().Elem().Kind() == reflect.Uint8 {
			v.SetBytes([]byte(strOf(first(next("bytes")))))
			return
		}
		n := int(parseBV(first(next("len"))))
		if n == 0 {
			return
		}
		s := reflect.MakeSlice(v.Type(), n, n)
		for i := 0; i < n; i++ {
			fill(s.Index(i), maxLen, nilPtrs)
		}
		v.Set(s)
	case reflect.Array:
		for i := 0; i < v.Len(); i++ {
			fill(v.Index(i), maxLen, nilPtrs)
		}
	}
}

// ---- assumptions, obligations, witnesses ----

type assumeFailed struct{}

// Assume restricts the explored inputs; placed before the code it constrains.
func Assume(c bool) {
	if !c {
		if _, file, line, ok := runtime.Caller(1); ok {
			Notes = append(Notes, fmt.Sprintf("assumption failed at %s:%d", file, line))
		}
		panic(assumeFailed{})
	}
}

// Assert is an obligation: it must hold on every path for every input.
func Assert(id string, c bool) {
	if !c {
		Failed = append(Failed, id)
	}
}

// Reach is a vacuity witness: some input must get here.
func Reach(id string) { Reached = append(Reached, id) }

// Known declares the predicate that characterises a recorded finding (see known_findings.json).
// Known: natively only recorded (a run inside a recorded finding's predicate is not a new violation).
func Known(id string, c bool) {
	if c {
		Notes = append(Notes, "known-finding-predicate-holds: "+id)
	}
}

// NoPanic runs f; a panic of the code under test is a violation of obligation id. Reports whether f panicked.
func NoPanic(id string, f func()) (panicked bool) {
	defer func() {
		if r := recover(); r != nil {
			if _, ok := r.(assumeFailed); ok {
				panic(r)
			}
			panicked = true
			Failed = append(Failed, id)
			Notes = append(Notes, fmt.Sprintf("panic: %v", r))
		}
	}()
	f()
	return false
}

// Panics runs f and reports whether it panicked (no obligation attached).
func Panics(f func()) (panicked bool) {
	defer func() {
		if r := recover(); r != nil {
			if _, ok := r.(assumeFailed); ok {
				panic(r)
			}
			panicked = true
		}
	}()
	f()
	return false
}

func Note(s string) { Notes = append(Notes, s) }

// Override replaces a function of the code under test by a harness function during symbolic execution.
func Override(name string, fn interface{}) {}

// Abstract replaces a dependency function by an arbitrary (possibly failing) result during symbolic execution.
func Abstract(name string) {}

// RunNative runs a harness natively, turning a failed assumption into "not applicable".
func RunNative(f func()) (ok bool) {
	defer func() {
		if r := recover(); r != nil {
			if _, isA := r.(assumeFailed); isA {
				ok = false
				return
			}
			panic(r)
		}
	}()
	f()
	return true
}

// ---- environment ----

// Ctx returns a context over stores with an arbitrary pre-state; EmptyCtx over empty stores.
func Ctx() sdk.Context      { return nativeCtx() }
func EmptyCtx() sdk.Context { return nativeCtx() }

// RegisterInterfaces lets a harness add its module's interface registrations to the native codec.
var nativeRegistry = codectypes.NewInterfaceRegistry()

func RegisterInterfaces(f func(codectypes.InterfaceRegistry)) { f(nativeRegistry) }

func Codec() codec.BinaryCodec { return codec.NewProtoCodec(nativeRegistry) }

// ---- native multistore: one in-memory store per key, created on demand; cache scopes as in the SDK ----

type lazyMS struct {
	parent *lazyMS
	stores map[string]storetypes.KVStore
}

func newLazyMS() *lazyMS { return &lazyMS{stores: map[string]storetypes.KVStore{}} }

func (m *lazyMS) GetKVStore(k storetypes.StoreKey) storetypes.KVStore {
	if s, ok := m.stores[k.Name()]; ok {
		return s
	}
	var s storetypes.KVStore
	if m.parent != nil {
		s = cachekv.NewStore(m.parent.GetKVStore(k))
	} else {
		s = dbadapter.Store{DB: dbm.NewMemDB()}
	}
	m.stores[k.Name()] = s
	return s
}
func (m *lazyMS) GetStore(k storetypes.StoreKey) storetypes.Store { return m.GetKVStore(k) }
func (m *lazyMS) GetStoreType() storetypes.StoreType              { return storetypes.StoreTypeMulti }
func (m *lazyMS) CacheWrap() storetypes.CacheWrap                 { return m.CacheMultiStore().(*lazyMS) }
func (m *lazyMS) CacheWrapWithTrace(io.Writer, storetypes.TraceContext) storetypes.CacheWrap {
	return m.CacheWrap()
}
func (m *lazyMS) CacheWrapWithListeners(storetypes.StoreKey, []storetypes.WriteListener) storetypes.CacheWrap {
	return m.CacheWrap()
}
func (m *lazyMS) CacheMultiStore() storetypes.CacheMultiStore {
	return &lazyMS{parent: m, stores: map[string]storetypes.KVStore{}}
}
func (m *lazyMS) CacheMultiStoreWithVersion(int64) (storetypes.CacheMultiStore, error) {
	return m.CacheMultiStore(), nil
}
func (m *lazyMS) TracingEnabled() bool                                            { return false }
func (m *lazyMS) SetTracer(io.Writer) storetypes.MultiStore                       { return m }
func (m *lazyMS) SetTracingContext(storetypes.TraceContext) storetypes.MultiStore { return m }
func (m *lazyMS) ListeningEnabled(storetypes.StoreKey) bool                       { return false }
func (m *lazyMS) AddListeners(storetypes.StoreKey, []storetypes.WriteListener)    {}
func (m *lazyMS) Write() {
	for _, s := range m.stores {
		if c, ok := s.(*cachekv.Store); ok {
			c.Write()
		}
	}
}

func nativeCtx() sdk.Context {
	// the engine created two sources for a context: block time (ns) and height
	t := parseBVBig(first(next("time")))
	h := int64(parseBV(first(next("i64"))))
	hdr := tmproto.Header{Time: time.Unix(0, 0).Add(time.Duration(t.Int64())).UTC(), Height: h, ChainID: "teleport_7001-1"}
	return sdk.NewContext(newLazyMS(), hdr, false, log.NewNopLogger())
}

func parseBVBig(s string) *big.Int {
	s = strings.TrimSpace(s)
	if strings.HasPrefix(s, "#x") {
		v, _ := new(big.Int).SetString(s[2:], 16)
		return v
	}
	if strings.HasPrefix(s, "#b") {
		v, _ := new(big.Int).SetString(s[2:], 2)
		return v
	}
	return parseInt(s)
}

// Subspace returns a parameter subspace whose stored parameters are arbitrary values of their types.
func Subspace() paramtypes.Subspace {
	return paramtypes.NewSubspace(codec.NewProtoCodec(nativeRegistry), codec.NewLegacyAmino(), StoreKey("params"), sdk.NewTransientStoreKey("transient_params"), "verif")
}

var nativeKeys = map[string]*sdk.KVStoreKey{}

func StoreKey(name string) sdk.StoreKey {
	if k, ok := nativeKeys[name]; ok {
		return k
	}
	k := sdk.NewKVStoreKey(name)
	nativeKeys[name] = k
	return k
}

// StoreWrites: number of writes visible from ctx that have not been part of the arbitrary pre-state.
func StoreWrites(ctx sdk.Context, store string) int { return 0 }
func ScopeWrites(ctx sdk.Context, store string) int { return 0 }

// StoreAccesses: what the context's gas meter was charged for store accesses (symbolically: the number of accesses).
func StoreAccesses(ctx sdk.Context, store string) uint64 { return ctx.GasMeter().GasConsumed() }

// Uninterpreted functions (deterministic, otherwise arbitrary).
func UFBool(name string, args ...interface{}) bool {
	return strings.TrimSpace(first(next("uf:UFBool"))) == "true"
}
func UFU64(name string, args ...interface{}) uint64 { return parseBV(first(next("uf:UFU64"))) }
func UFStr(name string, args ...interface{}) string { return strOf(first(next("uf:UFStr"))) }

func SameObject(a, b interface{}) bool {
	va, vb := reflect.ValueOf(a), reflect.ValueOf(b)
	if !va.IsValid() || !vb.IsValid() {
		return !va.IsValid() && !vb.IsValid()
	}
	if va.Kind() == reflect.Ptr && vb.Kind() == reflect.Ptr {
		return va.Pointer() == vb.Pointer()
	}
	return reflect.DeepEqual(a, b)
}

func BytesEq(a, b []byte) bool { return string(a) == string(b) }

// CallMethod / CallArgs decode a contract call payload produced by abi.Pack.
func CallMethod(a abi.ABI, data []byte) string {
	if len(data) < 4 {
		return ""
	}
	m, err := a.MethodById(data[:4])
	if err != nil {
		return ""
	}
	return m.Name
}
func CallArgs(a abi.ABI, data []byte) []interface{} {
	if len(data) < 4 {
		return nil
	}
	m, err := a.MethodById(data[:4])
	if err != nil {
		return nil
	}
	out, _ := m.Inputs.Unpack(data[4:])
	return out
}

// MapOrder fixes the iteration order of every later range over a map (symbolic execution only):
// 0 insertion order, 1 reversed, k>=2 rotated by k-1. Natively Go's own randomised order applies.
func MapOrder(k int) {}

// Tier: 0 quick, 1 thorough.
func Tier() int {
	if os.Getenv("VERIF_TIER") == "thorough" {
		return 1
	}
	return 0
}

// Opt sets an engine option for this harness (no-op natively).
func Opt(name string) {}
